
(** val negb : bool -> bool **)

let negb = function
| true -> false
| false -> true

type nat =
| O
| S of nat

(** val option_map : ('a1 -> 'a2) -> 'a1 option -> 'a2 option **)

let option_map f = function
| Some a -> Some (f a)
| None -> None

(** val fst : ('a1 * 'a2) -> 'a1 **)

let fst = function
| (x, _) -> x

(** val snd : ('a1 * 'a2) -> 'a2 **)

let snd = function
| (_, y) -> y

(** val length : 'a1 list -> nat **)

let rec length = function
| [] -> O
| _ :: l' -> S (length l')

(** val app : 'a1 list -> 'a1 list -> 'a1 list **)

let rec app l m =
  match l with
  | [] -> m
  | a :: l1 -> a :: (app l1 m)

type comparison =
| Eq
| Lt
| Gt

(** val compOpp : comparison -> comparison **)

let compOpp = function
| Eq -> Eq
| Lt -> Gt
| Gt -> Lt

module Coq__1 = struct
 (** val add : nat -> nat -> nat **)
 let rec add n0 m =
   match n0 with
   | O -> m
   | S p -> S (add p m)
end
include Coq__1

(** val mul : nat -> nat -> nat **)

let rec mul n0 m =
  match n0 with
  | O -> O
  | S p -> add m (mul p m)

module Nat =
 struct
  (** val leb : nat -> nat -> bool **)

  let rec leb n0 m =
    match n0 with
    | O -> true
    | S n' -> (match m with
               | O -> false
               | S m' -> leb n' m')

  (** val ltb : nat -> nat -> bool **)

  let ltb n0 m =
    leb (S n0) m
 end

(** val tl : 'a1 list -> 'a1 list **)

let tl = function
| [] -> []
| _ :: m -> m

(** val nth_error : 'a1 list -> nat -> 'a1 option **)

let rec nth_error l = function
| O -> (match l with
        | [] -> None
        | x :: _ -> Some x)
| S n1 -> (match l with
           | [] -> None
           | _ :: l0 -> nth_error l0 n1)

(** val removelast : 'a1 list -> 'a1 list **)

let rec removelast = function
| [] -> []
| a :: l0 -> (match l0 with
              | [] -> []
              | _ :: _ -> a :: (removelast l0))

(** val rev : 'a1 list -> 'a1 list **)

let rec rev = function
| [] -> []
| x :: l' -> app (rev l') (x :: [])

(** val map : ('a1 -> 'a2) -> 'a1 list -> 'a2 list **)

let rec map f = function
| [] -> []
| a :: t -> (f a) :: (map f t)

(** val existsb : ('a1 -> bool) -> 'a1 list -> bool **)

let rec existsb f = function
| [] -> false
| a :: l0 -> (||) (f a) (existsb f l0)

(** val forallb : ('a1 -> bool) -> 'a1 list -> bool **)

let rec forallb f = function
| [] -> true
| a :: l0 -> (&&) (f a) (forallb f l0)

(** val filter : ('a1 -> bool) -> 'a1 list -> 'a1 list **)

let rec filter f = function
| [] -> []
| x :: l0 -> if f x then x :: (filter f l0) else filter f l0

(** val combine : 'a1 list -> 'a2 list -> ('a1 * 'a2) list **)

let rec combine l l' =
  match l with
  | [] -> []
  | x :: tl0 ->
    (match l' with
     | [] -> []
     | y :: tl' -> (x, y) :: (combine tl0 tl'))

(** val firstn : nat -> 'a1 list -> 'a1 list **)

let rec firstn n0 l =
  match n0 with
  | O -> []
  | S n1 -> (match l with
             | [] -> []
             | a :: l0 -> a :: (firstn n1 l0))

(** val skipn : nat -> 'a1 list -> 'a1 list **)

let rec skipn n0 l =
  match n0 with
  | O -> l
  | S n1 -> (match l with
             | [] -> []
             | _ :: l0 -> skipn n1 l0)

(** val seq : nat -> nat -> nat list **)

let rec seq start = function
| O -> []
| S len0 -> start :: (seq (S start) len0)

type positive =
| XI of positive
| XO of positive
| XH

type n =
| N0
| Npos of positive

type z =
| Z0
| Zpos of positive
| Zneg of positive

module Pos =
 struct
  (** val succ : positive -> positive **)

  let rec succ = function
  | XI p -> XO (succ p)
  | XO p -> XI p
  | XH -> XO XH

  (** val add : positive -> positive -> positive **)

  let rec add x y =
    match x with
    | XI p ->
      (match y with
       | XI q -> XO (add_carry p q)
       | XO q -> XI (add p q)
       | XH -> XO (succ p))
    | XO p ->
      (match y with
       | XI q -> XI (add p q)
       | XO q -> XO (add p q)
       | XH -> XI p)
    | XH -> (match y with
             | XI q -> XO (succ q)
             | XO q -> XI q
             | XH -> XO XH)

  (** val add_carry : positive -> positive -> positive **)

  and add_carry x y =
    match x with
    | XI p ->
      (match y with
       | XI q -> XI (add_carry p q)
       | XO q -> XO (add_carry p q)
       | XH -> XI (succ p))
    | XO p ->
      (match y with
       | XI q -> XO (add_carry p q)
       | XO q -> XI (add p q)
       | XH -> XO (succ p))
    | XH ->
      (match y with
       | XI q -> XI (succ q)
       | XO q -> XO (succ q)
       | XH -> XI XH)

  (** val pred_double : positive -> positive **)

  let rec pred_double = function
  | XI p -> XI (XO p)
  | XO p -> XI (pred_double p)
  | XH -> XH

  (** val mul : positive -> positive -> positive **)

  let rec mul x y =
    match x with
    | XI p -> add y (XO (mul p y))
    | XO p -> XO (mul p y)
    | XH -> y

  (** val compare_cont : comparison -> positive -> positive -> comparison **)

  let rec compare_cont r x y =
    match x with
    | XI p ->
      (match y with
       | XI q -> compare_cont r p q
       | XO q -> compare_cont Gt p q
       | XH -> Gt)
    | XO p ->
      (match y with
       | XI q -> compare_cont Lt p q
       | XO q -> compare_cont r p q
       | XH -> Gt)
    | XH -> (match y with
             | XH -> r
             | _ -> Lt)

  (** val compare : positive -> positive -> comparison **)

  let compare =
    compare_cont Eq

  (** val eqb : positive -> positive -> bool **)

  let rec eqb p q =
    match p with
    | XI p0 -> (match q with
                | XI q0 -> eqb p0 q0
                | _ -> false)
    | XO p0 -> (match q with
                | XO q0 -> eqb p0 q0
                | _ -> false)
    | XH -> (match q with
             | XH -> true
             | _ -> false)

  (** val iter_op : ('a1 -> 'a1 -> 'a1) -> positive -> 'a1 -> 'a1 **)

  let rec iter_op op p a =
    match p with
    | XI p0 -> op a (iter_op op p0 (op a a))
    | XO p0 -> iter_op op p0 (op a a)
    | XH -> a

  (** val to_nat : positive -> nat **)

  let to_nat x =
    iter_op Coq__1.add x (S O)

  (** val of_succ_nat : nat -> positive **)

  let rec of_succ_nat = function
  | O -> XH
  | S x -> succ (of_succ_nat x)
 end

module N =
 struct
  (** val add : n -> n -> n **)

  let add n0 m =
    match n0 with
    | N0 -> m
    | Npos p -> (match m with
                 | N0 -> n0
                 | Npos q -> Npos (Pos.add p q))

  (** val mul : n -> n -> n **)

  let mul n0 m =
    match n0 with
    | N0 -> N0
    | Npos p -> (match m with
                 | N0 -> N0
                 | Npos q -> Npos (Pos.mul p q))

  (** val compare : n -> n -> comparison **)

  let compare n0 m =
    match n0 with
    | N0 -> (match m with
             | N0 -> Eq
             | Npos _ -> Lt)
    | Npos n' -> (match m with
                  | N0 -> Gt
                  | Npos m' -> Pos.compare n' m')

  (** val eqb : n -> n -> bool **)

  let eqb n0 m =
    match n0 with
    | N0 -> (match m with
             | N0 -> true
             | Npos _ -> false)
    | Npos p -> (match m with
                 | N0 -> false
                 | Npos q -> Pos.eqb p q)

  (** val leb : n -> n -> bool **)

  let leb x y =
    match compare x y with
    | Gt -> false
    | _ -> true

  (** val ltb : n -> n -> bool **)

  let ltb x y =
    match compare x y with
    | Lt -> true
    | _ -> false

  (** val to_nat : n -> nat **)

  let to_nat = function
  | N0 -> O
  | Npos p -> Pos.to_nat p

  (** val of_nat : nat -> n **)

  let of_nat = function
  | O -> N0
  | S n' -> Npos (Pos.of_succ_nat n')
 end

type ascii =
| Ascii of bool * bool * bool * bool * bool * bool * bool * bool

(** val n_of_digits : bool list -> n **)

let rec n_of_digits = function
| [] -> N0
| b :: l' ->
  N.add (if b then Npos XH else N0) (N.mul (Npos (XO XH)) (n_of_digits l'))

(** val n_of_ascii : ascii -> n **)

let n_of_ascii = function
| Ascii (a0, a1, a2, a3, a4, a5, a6, a7) ->
  n_of_digits
    (a0 :: (a1 :: (a2 :: (a3 :: (a4 :: (a5 :: (a6 :: (a7 :: []))))))))

module Z =
 struct
  (** val double : z -> z **)

  let double = function
  | Z0 -> Z0
  | Zpos p -> Zpos (XO p)
  | Zneg p -> Zneg (XO p)

  (** val succ_double : z -> z **)

  let succ_double = function
  | Z0 -> Zpos XH
  | Zpos p -> Zpos (XI p)
  | Zneg p -> Zneg (Pos.pred_double p)

  (** val pred_double : z -> z **)

  let pred_double = function
  | Z0 -> Zneg XH
  | Zpos p -> Zpos (Pos.pred_double p)
  | Zneg p -> Zneg (XI p)

  (** val pos_sub : positive -> positive -> z **)

  let rec pos_sub x y =
    match x with
    | XI p ->
      (match y with
       | XI q -> double (pos_sub p q)
       | XO q -> succ_double (pos_sub p q)
       | XH -> Zpos (XO p))
    | XO p ->
      (match y with
       | XI q -> pred_double (pos_sub p q)
       | XO q -> double (pos_sub p q)
       | XH -> Zpos (Pos.pred_double p))
    | XH ->
      (match y with
       | XI q -> Zneg (XO q)
       | XO q -> Zneg (Pos.pred_double q)
       | XH -> Z0)

  (** val add : z -> z -> z **)

  let add x y =
    match x with
    | Z0 -> y
    | Zpos x' ->
      (match y with
       | Z0 -> x
       | Zpos y' -> Zpos (Pos.add x' y')
       | Zneg y' -> pos_sub x' y')
    | Zneg x' ->
      (match y with
       | Z0 -> x
       | Zpos y' -> pos_sub y' x'
       | Zneg y' -> Zneg (Pos.add x' y'))

  (** val opp : z -> z **)

  let opp = function
  | Z0 -> Z0
  | Zpos x0 -> Zneg x0
  | Zneg x0 -> Zpos x0

  (** val sub : z -> z -> z **)

  let sub m n0 =
    add m (opp n0)

  (** val compare : z -> z -> comparison **)

  let compare x y =
    match x with
    | Z0 -> (match y with
             | Z0 -> Eq
             | Zpos _ -> Lt
             | Zneg _ -> Gt)
    | Zpos x' -> (match y with
                  | Zpos y' -> Pos.compare x' y'
                  | _ -> Gt)
    | Zneg x' ->
      (match y with
       | Zneg y' -> compOpp (Pos.compare x' y')
       | _ -> Lt)

  (** val ltb : z -> z -> bool **)

  let ltb x y =
    match compare x y with
    | Lt -> true
    | _ -> false

  (** val eqb : z -> z -> bool **)

  let eqb x y =
    match x with
    | Z0 -> (match y with
             | Z0 -> true
             | _ -> false)
    | Zpos p -> (match y with
                 | Zpos q -> Pos.eqb p q
                 | _ -> false)
    | Zneg p -> (match y with
                 | Zneg q -> Pos.eqb p q
                 | _ -> false)

  (** val to_nat : z -> nat **)

  let to_nat = function
  | Zpos p -> Pos.to_nat p
  | _ -> O

  (** val of_nat : nat -> z **)

  let of_nat = function
  | O -> Z0
  | S n1 -> Zpos (Pos.of_succ_nat n1)
 end

type string =
| EmptyString
| String of ascii * string

(** val list_ascii_of_string : string -> ascii list **)

let rec list_ascii_of_string = function
| EmptyString -> []
| String (ch, s0) -> ch :: (list_ascii_of_string s0)

type byte = n

type bytes = n list

type event =
| KeywordBegin
| KeywordEnd
| ParameterBegin
| ParameterEnd
| AnnotationBegin
| AnnotationEnd
| SchemaBegin
| SchemaEnd
| TextBegin
| TextEnd
| ContextOpen
| ContextClose
| EnumBegin
| EnumEnd

type lexkind =
| LKeyword
| LParameter
| LAnnotation
| LSchema
| LJson
| LText
| LContextOpen
| LContextClose
| LEnum

type state = n

type ctxq =
| QTypeOrAnyOrEmpty
| QAnyOrEmpty
| QRegex
| QIsDirective

type cond =
| CByte of n
| CNewLine
| CWhitespace
| CPrevByte of z * n
| CCtx of ctxq
| CNot of cond
| CAnd of cond * cond
| COr of cond * cond
| CTrue

type okind =
| OJSchema
| OEnum

type stmt =
| SSetStep of state
| SPush of state
| SPushCur
| SPop
| SFound of event * z
| SAddCur of z
| SIf of cond * stmt list * stmt list
| SOracle of okind
| SRetNil
| SRetErr of string * string
| SRetErrBasic of string
| SRetCall of state
| SRetRedispatch

(** val n_eqb_list : n list -> n list -> bool **)

let rec n_eqb_list a b =
  match a with
  | [] -> (match b with
           | [] -> true
           | _ :: _ -> false)
  | x :: a' ->
    (match b with
     | [] -> false
     | y :: b' -> (&&) (N.eqb x y) (n_eqb_list a' b'))

(** val bytes_of_string : string -> bytes **)

let bytes_of_string s =
  map n_of_ascii (list_ascii_of_string s)

(** val beq : bytes -> bytes -> bool **)

let beq =
  n_eqb_list

(** val is_prefix : bytes -> bytes -> bool **)

let rec is_prefix p s =
  match p with
  | [] -> true
  | x :: p' ->
    (match s with
     | [] -> false
     | y :: s' -> (&&) (N.eqb x y) (is_prefix p' s'))

(** val is_digit : n -> bool **)

let is_digit c =
  (&&) (N.leb (Npos (XO (XO (XO (XO (XI XH)))))) c)
    (N.leb c (Npos (XI (XO (XO (XI (XI XH)))))))

(** val is_utn_byte : n -> bool **)

let is_utn_byte c =
  (||)
    ((||)
      ((||)
        ((||) (N.eqb c (Npos (XI (XO (XI (XI (XO XH)))))))
          (N.eqb c (Npos (XI (XI (XI (XI (XI (XO XH)))))))))
        ((&&) (N.leb (Npos (XI (XO (XO (XO (XO (XI XH))))))) c)
          (N.leb c (Npos (XO (XI (XO (XI (XI (XI XH))))))))))
      ((&&) (N.leb (Npos (XI (XO (XO (XO (XO (XO XH))))))) c)
        (N.leb c (Npos (XO (XI (XO (XI (XI (XO XH)))))))))) (is_digit c)

(** val is_user_type_name : bytes -> bool **)

let is_user_type_name = function
| [] -> false
| n0 :: rest ->
  (match n0 with
   | N0 -> false
   | Npos p ->
     (match p with
      | XO p0 ->
        (match p0 with
         | XO p1 ->
           (match p1 with
            | XO p2 ->
              (match p2 with
               | XO p3 ->
                 (match p3 with
                  | XO p4 ->
                    (match p4 with
                     | XO p5 ->
                       (match p5 with
                        | XH ->
                          (match rest with
                           | [] -> false
                           | _ :: _ -> forallb is_utn_byte rest)
                        | _ -> false)
                     | _ -> false)
                  | _ -> false)
               | _ -> false)
            | _ -> false)
         | _ -> false)
      | _ -> false))

(** val in_quotes : bytes -> bool **)

let in_quotes = function
| [] -> false
| n0 :: rest ->
  (match n0 with
   | N0 -> false
   | Npos p ->
     (match p with
      | XO p0 ->
        (match p0 with
         | XI p1 ->
           (match p1 with
            | XO p2 ->
              (match p2 with
               | XO p3 ->
                 (match p3 with
                  | XO p4 ->
                    (match p4 with
                     | XH ->
                       (match rev rest with
                        | [] -> false
                        | n1 :: _ ->
                          (match n1 with
                           | N0 -> false
                           | Npos p5 ->
                             (match p5 with
                              | XO p6 ->
                                (match p6 with
                                 | XI p7 ->
                                   (match p7 with
                                    | XO p8 ->
                                      (match p8 with
                                       | XO p9 ->
                                         (match p9 with
                                          | XO p10 ->
                                            (match p10 with
                                             | XH -> true
                                             | _ -> false)
                                          | _ -> false)
                                       | _ -> false)
                                    | _ -> false)
                                 | _ -> false)
                              | _ -> false)))
                     | _ -> false)
                  | _ -> false)
               | _ -> false)
            | _ -> false)
         | _ -> false)
      | _ -> false))

(** val unquote_body : bytes -> bytes option **)

let rec unquote_body = function
| [] -> Some []
| c :: rest ->
  (match c with
   | N0 ->
     if (||) (N.eqb c (Npos (XO (XI (XO (XO (XO XH)))))))
          (N.ltb c (Npos (XO (XO (XO (XO (XO XH)))))))
     then None
     else (match unquote_body rest with
           | Some t -> Some (c :: t)
           | None -> None)
   | Npos p ->
     (match p with
      | XO p0 ->
        (match p0 with
         | XO p1 ->
           (match p1 with
            | XI p2 ->
              (match p2 with
               | XI p3 ->
                 (match p3 with
                  | XI p4 ->
                    (match p4 with
                     | XO p5 ->
                       (match p5 with
                        | XH ->
                          (match rest with
                           | [] -> None
                           | e :: rest' ->
                             let img =
                               if (||)
                                    ((||)
                                      ((||)
                                        (N.eqb e (Npos (XO (XI (XO (XO (XO
                                          XH)))))))
                                        (N.eqb e (Npos (XO (XO (XI (XI (XI
                                          (XO XH)))))))))
                                      (N.eqb e (Npos (XI (XI (XI (XI (XO
                                        XH))))))))
                                    (N.eqb e (Npos (XI (XI (XI (XO (XO
                                      XH)))))))
                               then Some e
                               else if N.eqb e (Npos (XO (XI (XO (XO (XO (XI
                                         XH)))))))
                                    then Some (Npos (XO (XO (XO XH))))
                                    else if N.eqb e (Npos (XO (XI (XI (XO (XO
                                              (XI XH)))))))
                                         then Some (Npos (XO (XO (XI XH))))
                                         else if N.eqb e (Npos (XO (XI (XI
                                                   (XI (XO (XI XH)))))))
                                              then Some (Npos (XO (XI (XO
                                                     XH))))
                                              else if N.eqb e (Npos (XO (XI
                                                        (XO (XO (XI (XI
                                                        XH)))))))
                                                   then Some (Npos (XI (XO
                                                          (XI XH))))
                                                   else if N.eqb e (Npos (XO
                                                             (XO (XI (XO (XI
                                                             (XI XH)))))))
                                                        then Some (Npos (XI
                                                               (XO (XO XH))))
                                                        else None
                             in
                             (match img with
                              | Some c0 ->
                                (match unquote_body rest' with
                                 | Some t -> Some (c0 :: t)
                                 | None -> None)
                              | None -> None))
                        | _ ->
                          if (||)
                               (N.eqb c (Npos (XO (XI (XO (XO (XO XH)))))))
                               (N.ltb c (Npos (XO (XO (XO (XO (XO XH)))))))
                          then None
                          else (match unquote_body rest with
                                | Some t -> Some (c :: t)
                                | None -> None))
                     | _ ->
                       if (||) (N.eqb c (Npos (XO (XI (XO (XO (XO XH)))))))
                            (N.ltb c (Npos (XO (XO (XO (XO (XO XH)))))))
                       then None
                       else (match unquote_body rest with
                             | Some t -> Some (c :: t)
                             | None -> None))
                  | _ ->
                    if (||) (N.eqb c (Npos (XO (XI (XO (XO (XO XH)))))))
                         (N.ltb c (Npos (XO (XO (XO (XO (XO XH)))))))
                    then None
                    else (match unquote_body rest with
                          | Some t -> Some (c :: t)
                          | None -> None))
               | _ ->
                 if (||) (N.eqb c (Npos (XO (XI (XO (XO (XO XH)))))))
                      (N.ltb c (Npos (XO (XO (XO (XO (XO XH)))))))
                 then None
                 else (match unquote_body rest with
                       | Some t -> Some (c :: t)
                       | None -> None))
            | _ ->
              if (||) (N.eqb c (Npos (XO (XI (XO (XO (XO XH)))))))
                   (N.ltb c (Npos (XO (XO (XO (XO (XO XH)))))))
              then None
              else (match unquote_body rest with
                    | Some t -> Some (c :: t)
                    | None -> None))
         | _ ->
           if (||) (N.eqb c (Npos (XO (XI (XO (XO (XO XH)))))))
                (N.ltb c (Npos (XO (XO (XO (XO (XO XH)))))))
           then None
           else (match unquote_body rest with
                 | Some t -> Some (c :: t)
                 | None -> None))
      | _ ->
        if (||) (N.eqb c (Npos (XO (XI (XO (XO (XO XH)))))))
             (N.ltb c (Npos (XO (XO (XO (XO (XO XH)))))))
        then None
        else (match unquote_body rest with
              | Some t -> Some (c :: t)
              | None -> None)))

(** val unquote : bytes -> bytes **)

let unquote b =
  if in_quotes b
  then (match unquote_body (removelast (tl b)) with
        | Some t -> t
        | None -> b)
  else b

(** val trim_square_brackets : bytes -> bytes **)

let trim_square_brackets b = match b with
| [] -> b
| n0 :: rest ->
  (match n0 with
   | N0 -> b
   | Npos p ->
     (match p with
      | XI p0 ->
        (match p0 with
         | XI p1 ->
           (match p1 with
            | XO p2 ->
              (match p2 with
               | XI p3 ->
                 (match p3 with
                  | XI p4 ->
                    (match p4 with
                     | XO p5 ->
                       (match p5 with
                        | XH ->
                          (match rest with
                           | [] -> b
                           | _ :: _ ->
                             (match rev rest with
                              | [] -> b
                              | n1 :: _ ->
                                (match n1 with
                                 | N0 -> b
                                 | Npos p6 ->
                                   (match p6 with
                                    | XI p7 ->
                                      (match p7 with
                                       | XO p8 ->
                                         (match p8 with
                                          | XI p9 ->
                                            (match p9 with
                                             | XI p10 ->
                                               (match p10 with
                                                | XI p11 ->
                                                  (match p11 with
                                                   | XO p12 ->
                                                     (match p12 with
                                                      | XH -> removelast rest
                                                      | _ -> b)
                                                   | _ -> b)
                                                | _ -> b)
                                             | _ -> b)
                                          | _ -> b)
                                       | _ -> b)
                                    | _ -> b))))
                        | _ -> b)
                     | _ -> b)
                  | _ -> b)
               | _ -> b)
            | _ -> b)
         | _ -> b)
      | _ -> b))

(** val to_end_of_line : bytes -> bytes **)

let rec to_end_of_line = function
| [] -> []
| c :: rest ->
  if (||) (N.eqb c (Npos (XO (XI (XO XH)))))
       (N.eqb c (Npos (XI (XO (XI XH)))))
  then []
  else c :: (to_end_of_line rest)

(** val sub0 : bytes -> z -> z -> bytes **)

let sub0 data lo hi =
  firstn (Z.to_nat (Z.sub hi lo)) (skipn (Z.to_nat lo) data)

(** val byte_at : bytes -> z -> n option **)

let byte_at data i =
  if Z.ltb i Z0 then None else nth_error data (Z.to_nat i)

(** val ev_IsBeginning : event -> bool **)

let ev_IsBeginning = function
| KeywordBegin -> true
| ParameterBegin -> true
| AnnotationBegin -> true
| SchemaBegin -> true
| TextBegin -> true
| EnumBegin -> true
| _ -> false

(** val ev_IsEnding : event -> bool **)

let ev_IsEnding = function
| KeywordEnd -> true
| ParameterEnd -> true
| AnnotationEnd -> true
| SchemaEnd -> true
| TextEnd -> true
| EnumEnd -> true
| _ -> false

(** val ev_IsSingle : event -> bool **)

let ev_IsSingle = function
| ContextOpen -> true
| ContextClose -> true
| _ -> false

(** val ev_ToLexemeType : event -> lexkind option **)

let ev_ToLexemeType = function
| KeywordBegin -> Some LKeyword
| KeywordEnd -> Some LKeyword
| ParameterBegin -> Some LParameter
| ParameterEnd -> Some LParameter
| AnnotationBegin -> Some LAnnotation
| AnnotationEnd -> Some LAnnotation
| SchemaBegin -> Some LSchema
| SchemaEnd -> Some LSchema
| TextBegin -> Some LText
| TextEnd -> Some LText
| ContextOpen -> Some LContextOpen
| ContextClose -> Some LContextClose
| _ -> Some LEnum

(** val dir_HTTPResponseCode : n **)

let dir_HTTPResponseCode =
  Npos (XI (XI (XI XH)))

(** val dir_keywords : string list **)

let dir_keywords =
  (String ((Ascii (false, true, false, true, false, false, true, false)),
    (String ((Ascii (true, true, false, false, true, false, true, false)),
    (String ((Ascii (true, false, false, true, false, false, true, false)),
    (String ((Ascii (true, true, true, false, false, false, true, false)),
    (String ((Ascii (false, false, false, true, false, false, true, false)),
    (String ((Ascii (false, false, true, false, true, false, true, false)),
    EmptyString)))))))))))) :: ((String ((Ascii (true, false, false, true,
    false, false, true, false)), (String ((Ascii (false, true, true, true,
    false, false, true, false)), (String ((Ascii (false, true, true, false,
    false, false, true, false)), (String ((Ascii (true, true, true, true,
    false, false, true, false)), EmptyString)))))))) :: ((String ((Ascii
    (false, false, true, false, true, false, true, false)), (String ((Ascii
    (true, false, false, true, false, true, true, false)), (String ((Ascii
    (false, false, true, false, true, true, true, false)), (String ((Ascii
    (false, false, true, true, false, true, true, false)), (String ((Ascii
    (true, false, true, false, false, true, true, false)),
    EmptyString)))))))))) :: ((String ((Ascii (false, true, true, false,
    true, false, true, false)), (String ((Ascii (true, false, true, false,
    false, true, true, false)), (String ((Ascii (false, true, false, false,
    true, true, true, false)), (String ((Ascii (true, true, false, false,
    true, true, true, false)), (String ((Ascii (true, false, false, true,
    false, true, true, false)), (String ((Ascii (true, true, true, true,
    false, true, true, false)), (String ((Ascii (false, true, true, true,
    false, true, true, false)), EmptyString)))))))))))))) :: ((String ((Ascii
    (false, false, true, false, false, false, true, false)), (String ((Ascii
    (true, false, true, false, false, true, true, false)), (String ((Ascii
    (true, true, false, false, true, true, true, false)), (String ((Ascii
    (true, true, false, false, false, true, true, false)), (String ((Ascii
    (false, true, false, false, true, true, true, false)), (String ((Ascii
    (true, false, false, true, false, true, true, false)), (String ((Ascii
    (false, false, false, false, true, true, true, false)), (String ((Ascii
    (false, false, true, false, true, true, true, false)), (String ((Ascii
    (true, false, false, true, false, true, true, false)), (String ((Ascii
    (true, true, true, true, false, true, true, false)), (String ((Ascii
    (false, true, true, true, false, true, true, false)),
    EmptyString)))))))))))))))))))))) :: ((String ((Ascii (true, true, false,
    false, true, false, true, false)), (String ((Ascii (true, false, true,
    false, false, false, true, false)), (String ((Ascii (false, true, false,
    false, true, false, true, false)), (String ((Ascii (false, true, true,
    false, true, false, true, false)), (String ((Ascii (true, false, true,
    false, false, false, true, false)), (String ((Ascii (false, true, false,
    false, true, false, true, false)), EmptyString)))))))))))) :: ((String
    ((Ascii (false, true, false, false, false, false, true, false)), (String
    ((Ascii (true, false, false, false, false, true, true, false)), (String
    ((Ascii (true, true, false, false, true, true, true, false)), (String
    ((Ascii (true, false, true, false, false, true, true, false)), (String
    ((Ascii (true, false, true, false, true, false, true, false)), (String
    ((Ascii (false, true, false, false, true, true, true, false)), (String
    ((Ascii (false, false, true, true, false, true, true, false)),
    EmptyString)))))))))))))) :: ((String ((Ascii (true, false, true, false,
    true, false, true, false)), (String ((Ascii (false, true, false, false,
    true, false, true, false)), (String ((Ascii (false, false, true, true,
    false, false, true, false)), EmptyString)))))) :: ((String ((Ascii (true,
    true, true, false, false, false, true, false)), (String ((Ascii (true,
    false, true, false, false, false, true, false)), (String ((Ascii (false,
    false, true, false, true, false, true, false)),
    EmptyString)))))) :: ((String ((Ascii (false, false, false, false, true,
    false, true, false)), (String ((Ascii (true, true, true, true, false,
    false, true, false)), (String ((Ascii (true, true, false, false, true,
    false, true, false)), (String ((Ascii (false, false, true, false, true,
    false, true, false)), EmptyString)))))))) :: ((String ((Ascii (false,
    false, false, false, true, false, true, false)), (String ((Ascii (true,
    false, true, false, true, false, true, false)), (String ((Ascii (false,
    false, true, false, true, false, true, false)),
    EmptyString)))))) :: ((String ((Ascii (false, false, false, false, true,
    false, true, false)), (String ((Ascii (true, false, false, false, false,
    false, true, false)), (String ((Ascii (false, false, true, false, true,
    false, true, false)), (String ((Ascii (true, true, false, false, false,
    false, true, false)), (String ((Ascii (false, false, false, true, false,
    false, true, false)), EmptyString)))))))))) :: ((String ((Ascii (false,
    false, true, false, false, false, true, false)), (String ((Ascii (true,
    false, true, false, false, false, true, false)), (String ((Ascii (false,
    false, true, true, false, false, true, false)), (String ((Ascii (true,
    false, true, false, false, false, true, false)), (String ((Ascii (false,
    false, true, false, true, false, true, false)), (String ((Ascii (true,
    false, true, false, false, false, true, false)),
    EmptyString)))))))))))) :: ((String ((Ascii (false, true, false, false,
    false, false, true, false)), (String ((Ascii (true, true, true, true,
    false, true, true, false)), (String ((Ascii (false, false, true, false,
    false, true, true, false)), (String ((Ascii (true, false, false, true,
    true, true, true, false)), EmptyString)))))))) :: ((String ((Ascii
    (false, true, false, false, true, false, true, false)), (String ((Ascii
    (true, false, true, false, false, true, true, false)), (String ((Ascii
    (true, false, false, false, true, true, true, false)), (String ((Ascii
    (true, false, true, false, true, true, true, false)), (String ((Ascii
    (true, false, true, false, false, true, true, false)), (String ((Ascii
    (true, true, false, false, true, true, true, false)), (String ((Ascii
    (false, false, true, false, true, true, true, false)),
    EmptyString)))))))))))))) :: ((String ((Ascii (false, false, false, true,
    false, false, true, false)), (String ((Ascii (false, false, true, false,
    true, false, true, false)), (String ((Ascii (false, false, true, false,
    true, false, true, false)), (String ((Ascii (false, false, false, false,
    true, false, true, false)), (String ((Ascii (true, false, true, true,
    false, true, false, false)), (String ((Ascii (false, true, false, false,
    true, true, true, false)), (String ((Ascii (true, false, true, false,
    false, true, true, false)), (String ((Ascii (true, true, false, false,
    true, true, true, false)), (String ((Ascii (false, false, false, false,
    true, true, true, false)), (String ((Ascii (true, true, true, true,
    false, true, true, false)), (String ((Ascii (false, true, true, true,
    false, true, true, false)), (String ((Ascii (true, true, false, false,
    true, true, true, false)), (String ((Ascii (true, false, true, false,
    false, true, true, false)), (String ((Ascii (true, false, true, true,
    false, true, false, false)), (String ((Ascii (true, true, false, false,
    false, true, true, false)), (String ((Ascii (true, true, true, true,
    false, true, true, false)), (String ((Ascii (false, false, true, false,
    false, true, true, false)), (String ((Ascii (true, false, true, false,
    false, true, true, false)),
    EmptyString)))))))))))))))))))))))))))))))))))) :: ((String ((Ascii
    (false, false, false, false, true, false, true, false)), (String ((Ascii
    (true, false, false, false, false, true, true, false)), (String ((Ascii
    (false, false, true, false, true, true, true, false)), (String ((Ascii
    (false, false, false, true, false, true, true, false)),
    EmptyString)))))))) :: ((String ((Ascii (false, false, false, true,
    false, false, true, false)), (String ((Ascii (true, false, true, false,
    false, true, true, false)), (String ((Ascii (true, false, false, false,
    false, true, true, false)), (String ((Ascii (false, false, true, false,
    false, true, true, false)), (String ((Ascii (true, false, true, false,
    false, true, true, false)), (String ((Ascii (false, true, false, false,
    true, true, true, false)), (String ((Ascii (true, true, false, false,
    true, true, true, false)), EmptyString)))))))))))))) :: ((String ((Ascii
    (true, false, false, false, true, false, true, false)), (String ((Ascii
    (true, false, true, false, true, true, true, false)), (String ((Ascii
    (true, false, true, false, false, true, true, false)), (String ((Ascii
    (false, true, false, false, true, true, true, false)), (String ((Ascii
    (true, false, false, true, true, true, true, false)),
    EmptyString)))))))))) :: ((String ((Ascii (false, false, true, false,
    true, false, true, false)), (String ((Ascii (true, false, false, true,
    true, false, true, false)), (String ((Ascii (false, false, false, false,
    true, false, true, false)), (String ((Ascii (true, false, true, false,
    false, false, true, false)), EmptyString)))))))) :: ((String ((Ascii
    (true, false, true, false, false, false, true, false)), (String ((Ascii
    (false, true, true, true, false, false, true, false)), (String ((Ascii
    (true, false, true, false, true, false, true, false)), (String ((Ascii
    (true, false, true, true, false, false, true, false)),
    EmptyString)))))))) :: ((String ((Ascii (true, false, true, true, false,
    false, true, false)), (String ((Ascii (true, false, false, false, false,
    false, true, false)), (String ((Ascii (true, true, false, false, false,
    false, true, false)), (String ((Ascii (false, true, false, false, true,
    false, true, false)), (String ((Ascii (true, true, true, true, false,
    false, true, false)), EmptyString)))))))))) :: ((String ((Ascii (false,
    false, false, false, true, false, true, false)), (String ((Ascii (true,
    false, false, false, false, false, true, false)), (String ((Ascii (true,
    true, false, false, true, false, true, false)), (String ((Ascii (false,
    false, true, false, true, false, true, false)), (String ((Ascii (true,
    false, true, false, false, false, true, false)),
    EmptyString)))))))))) :: ((String ((Ascii (true, false, false, true,
    false, false, true, false)), (String ((Ascii (false, true, true, true,
    false, false, true, false)), (String ((Ascii (true, true, false, false,
    false, false, true, false)), (String ((Ascii (false, false, true, true,
    false, false, true, false)), (String ((Ascii (true, false, true, false,
    true, false, true, false)), (String ((Ascii (false, false, true, false,
    false, false, true, false)), (String ((Ascii (true, false, true, false,
    false, false, true, false)), EmptyString)))))))))))))) :: ((String
    ((Ascii (false, false, false, false, true, false, true, false)), (String
    ((Ascii (false, true, false, false, true, true, true, false)), (String
    ((Ascii (true, true, true, true, false, true, true, false)), (String
    ((Ascii (false, false, true, false, true, true, true, false)), (String
    ((Ascii (true, true, true, true, false, true, true, false)), (String
    ((Ascii (true, true, false, false, false, true, true, false)), (String
    ((Ascii (true, true, true, true, false, true, true, false)), (String
    ((Ascii (false, false, true, true, false, true, true, false)),
    EmptyString)))))))))))))))) :: ((String ((Ascii (true, false, true, true,
    false, false, true, false)), (String ((Ascii (true, false, true, false,
    false, true, true, false)), (String ((Ascii (false, false, true, false,
    true, true, true, false)), (String ((Ascii (false, false, false, true,
    false, true, true, false)), (String ((Ascii (true, true, true, true,
    false, true, true, false)), (String ((Ascii (false, false, true, false,
    false, true, true, false)), EmptyString)))))))))))) :: ((String ((Ascii
    (false, false, false, false, true, false, true, false)), (String ((Ascii
    (true, false, false, false, false, true, true, false)), (String ((Ascii
    (false, true, false, false, true, true, true, false)), (String ((Ascii
    (true, false, false, false, false, true, true, false)), (String ((Ascii
    (true, false, true, true, false, true, true, false)), (String ((Ascii
    (true, true, false, false, true, true, true, false)),
    EmptyString)))))))))))) :: ((String ((Ascii (false, true, false, false,
    true, false, true, false)), (String ((Ascii (true, false, true, false,
    false, true, true, false)), (String ((Ascii (true, true, false, false,
    true, true, true, false)), (String ((Ascii (true, false, true, false,
    true, true, true, false)), (String ((Ascii (false, false, true, true,
    false, true, true, false)), (String ((Ascii (false, false, true, false,
    true, true, true, false)), EmptyString)))))))))))) :: ((String ((Ascii
    (false, false, true, false, true, false, true, false)), (String ((Ascii
    (true, false, false, false, false, false, true, false)), (String ((Ascii
    (true, true, true, false, false, false, true, false)),
    EmptyString)))))) :: ((String ((Ascii (false, false, true, false, true,
    false, true, false)), (String ((Ascii (true, false, false, false, false,
    true, true, false)), (String ((Ascii (true, true, true, false, false,
    true, true, false)), (String ((Ascii (true, true, false, false, true,
    true, true, false)), EmptyString)))))))) :: ((String ((Ascii (true, true,
    true, true, false, false, true, false)), (String ((Ascii (false, false,
    false, false, true, true, true, false)), (String ((Ascii (true, false,
    true, false, false, true, true, false)), (String ((Ascii (false, true,
    false, false, true, true, true, false)), (String ((Ascii (true, false,
    false, false, false, true, true, false)), (String ((Ascii (false, false,
    true, false, true, true, true, false)), (String ((Ascii (true, false,
    false, true, false, true, true, false)), (String ((Ascii (true, true,
    true, true, false, true, true, false)), (String ((Ascii (false, true,
    true, true, false, true, true, false)), (String ((Ascii (true, false,
    false, true, false, false, true, false)), (String ((Ascii (false, false,
    true, false, false, true, true, false)),
    EmptyString)))))))))))))))))))))) :: []))))))))))))))))))))))))))))))

type lexeme = { lk : lexkind; lb : z; le : z }

type conf = { c_step : state; c_sstack : state list;
              c_finds : (event * z) list; c_estack : (event * z) list;
              c_params : lexeme list; c_cur : z }

type serr =
| EUnexpected of string * string * z * bool
| EBasic of string * z
| EOracle of n * z

type panic =
| PStepStackEmpty
| PEventStackEmpty
| PFindsEmpty
| PIndexRange
| PFallthrough
| PNoState
| PLexemeType
| PValueSlice

type 'a res =
| ROk of 'a
| RErr of serr
| RPanic of panic
| RFuel

type olen_res =
| OLen of z
| OLenErr of n * z

type retk =
| KNil
| KCall of state
| KRedispatch

type flow =
| FFall of conf
| FRet of retk * conf
| FErr of serr
| FPanic of panic

(** val set_step : conf -> state -> conf **)

let set_step cf st =
  { c_step = st; c_sstack = cf.c_sstack; c_finds = cf.c_finds; c_estack =
    cf.c_estack; c_params = cf.c_params; c_cur = cf.c_cur }

(** val set_sstack : conf -> state list -> conf **)

let set_sstack cf ss =
  { c_step = cf.c_step; c_sstack = ss; c_finds = cf.c_finds; c_estack =
    cf.c_estack; c_params = cf.c_params; c_cur = cf.c_cur }

(** val set_finds : conf -> (event * z) list -> conf **)

let set_finds cf fs =
  { c_step = cf.c_step; c_sstack = cf.c_sstack; c_finds = fs; c_estack =
    cf.c_estack; c_params = cf.c_params; c_cur = cf.c_cur }

(** val set_estack : conf -> (event * z) list -> conf **)

let set_estack cf es =
  { c_step = cf.c_step; c_sstack = cf.c_sstack; c_finds = cf.c_finds;
    c_estack = es; c_params = cf.c_params; c_cur = cf.c_cur }

(** val set_params : conf -> lexeme list -> conf **)

let set_params cf ps =
  { c_step = cf.c_step; c_sstack = cf.c_sstack; c_finds = cf.c_finds;
    c_estack = cf.c_estack; c_params = ps; c_cur = cf.c_cur }

(** val set_cur : conf -> z -> conf **)

let set_cur cf i =
  { c_step = cf.c_step; c_sstack = cf.c_sstack; c_finds = cf.c_finds;
    c_estack = cf.c_estack; c_params = cf.c_params; c_cur = i }

(** val init_conf : state -> conf **)

let init_conf st =
  { c_step = st; c_sstack = []; c_finds = []; c_estack = []; c_params = [];
    c_cur = Z0 }

(** val lexeme_value : bytes -> lexeme -> bytes option **)

let lexeme_value data l =
  if (||) ((||) (Z.ltb l.lb Z0) (Z.ltb (Z.add l.le (Zpos XH)) l.lb))
       (Z.ltb (Z.of_nat (length data)) (Z.add l.le (Zpos XH)))
  then None
  else Some (sub0 data l.lb (Z.add l.le (Zpos XH)))

(** val kw_any : bytes **)

let kw_any =
  bytes_of_string (String ((Ascii (true, false, false, false, false, true,
    true, false)), (String ((Ascii (false, true, true, true, false, true,
    true, false)), (String ((Ascii (true, false, false, true, true, true,
    true, false)), EmptyString))))))

(** val kw_empty : bytes **)

let kw_empty =
  bytes_of_string (String ((Ascii (true, false, true, false, false, true,
    true, false)), (String ((Ascii (true, false, true, true, false, true,
    true, false)), (String ((Ascii (false, false, false, false, true, true,
    true, false)), (String ((Ascii (false, false, true, false, true, true,
    true, false)), (String ((Ascii (true, false, false, true, true, true,
    true, false)), EmptyString))))))))))

(** val kw_regex : bytes **)

let kw_regex =
  bytes_of_string (String ((Ascii (false, true, false, false, true, true,
    true, false)), (String ((Ascii (true, false, true, false, false, true,
    true, false)), (String ((Ascii (true, true, true, false, false, true,
    true, false)), (String ((Ascii (true, false, true, false, false, true,
    true, false)), (String ((Ascii (false, false, false, true, true, true,
    true, false)), EmptyString))))))))))

(** val is_response_code3 : bytes -> bool **)

let is_response_code3 = function
| [] -> false
| a :: l ->
  (match l with
   | [] -> false
   | b1 :: l0 ->
     (match l0 with
      | [] -> false
      | b2 :: _ ->
        (&&)
          ((&&)
            ((&&) (N.leb (Npos (XI (XO (XO (XO (XI XH)))))) a)
              (N.leb a (Npos (XI (XO (XI (XO (XI XH)))))))) (is_digit b1))
          (is_digit b2)))

(** val keyword_bytes : bytes list **)

let keyword_bytes =
  map bytes_of_string dir_keywords

(** val real_keywords : bytes list **)

let real_keywords =
  map snd
    (filter (fun p -> negb (N.eqb (fst p) dir_HTTPResponseCode))
      (combine (map N.of_nat (seq O (length keyword_bytes))) keyword_bytes))

(** val is_start_with_directive : bytes -> bool **)

let is_start_with_directive b =
  if Nat.ltb (length b) (S (S (S O)))
  then false
  else (||) (is_response_code3 b)
         (existsb (fun k -> is_prefix k b) real_keywords)

(** val data_size : bytes -> z **)

let data_size data =
  Z.of_nat (length data)

(** val param_values : bytes -> lexeme list -> bytes list option **)

let rec param_values data = function
| [] -> Some []
| p :: rest ->
  (match lexeme_value data p with
   | Some v ->
     (match param_values data rest with
      | Some vs -> Some (v :: vs)
      | None -> None)
   | None -> None)

(** val eval_ctx : bytes -> conf -> ctxq -> bool option **)

let eval_ctx data cf = function
| QTypeOrAnyOrEmpty ->
  (match param_values data cf.c_params with
   | Some vs ->
     Some
       (existsb (fun v ->
         let v' = trim_square_brackets (unquote v) in
         (||) ((||) (beq v' kw_any) (beq v' kw_empty)) (is_user_type_name v'))
         vs)
   | None -> None)
| QAnyOrEmpty ->
  (match param_values data cf.c_params with
   | Some vs ->
     Some
       (negb
         (existsb (fun v ->
           let v' = trim_square_brackets (unquote v) in
           (||) (beq v' kw_any) (beq v' kw_empty)) vs))
   | None -> None)
| QRegex ->
  (match param_values data cf.c_params with
   | Some vs -> Some (existsb (fun v -> beq (unquote v) kw_regex) vs)
   | None -> None)
| QIsDirective ->
  if (||) (Z.ltb cf.c_cur Z0) (Z.ltb (data_size data) cf.c_cur)
  then Some false
  else Some
         (is_start_with_directive
           (to_end_of_line (skipn (Z.to_nat cf.c_cur) data)))

(** val eval_cond_simple : byte -> cond -> bool option **)

let rec eval_cond_simple c = function
| CByte b -> Some (N.eqb c b)
| CNot a -> option_map negb (eval_cond_simple c a)
| CAnd (a, b) ->
  (match eval_cond_simple c a with
   | Some b0 -> if b0 then eval_cond_simple c b else Some false
   | None -> None)
| COr (a, b) ->
  (match eval_cond_simple c a with
   | Some b0 -> if b0 then Some true else eval_cond_simple c b
   | None -> None)
| CTrue -> Some true
| _ -> None

(** val eval_cond :
    cond -> cond -> bytes -> conf -> byte -> cond -> bool option **)

let rec eval_cond nl_cond ws_cond data cf c = function
| CByte b -> Some (N.eqb c b)
| CNewLine -> eval_cond_simple c nl_cond
| CWhitespace -> eval_cond_simple c ws_cond
| CPrevByte (d, b) ->
  (match byte_at data (Z.sub cf.c_cur d) with
   | Some x -> Some (N.eqb x b)
   | None -> None)
| CCtx q -> eval_ctx data cf q
| CNot a -> option_map negb (eval_cond nl_cond ws_cond data cf c a)
| CAnd (a, b) ->
  (match eval_cond nl_cond ws_cond data cf c a with
   | Some b0 ->
     if b0 then eval_cond nl_cond ws_cond data cf c b else Some false
   | None -> None)
| COr (a, b) ->
  (match eval_cond nl_cond ws_cond data cf c a with
   | Some b0 ->
     if b0 then Some true else eval_cond nl_cond ws_cond data cf c b
   | None -> None)
| CTrue -> Some true

(** val mk_unexpected : bytes -> conf -> string -> string -> serr **)

let mk_unexpected data cf w e =
  EUnexpected (w, e, cf.c_cur, (negb (Z.ltb cf.c_cur (data_size data))))

(** val exec_stmt :
    cond -> cond -> bytes -> (okind -> z -> olen_res) -> byte -> stmt -> conf
    -> flow **)

let rec exec_stmt nl_cond ws_cond data olen c s cf =
  match s with
  | SSetStep st -> FFall (set_step cf st)
  | SPush st -> FFall (set_sstack cf (st :: cf.c_sstack))
  | SPushCur -> FFall (set_sstack cf (cf.c_step :: cf.c_sstack))
  | SPop ->
    (match cf.c_sstack with
     | [] -> FPanic PStepStackEmpty
     | st :: ss' -> FFall (set_step (set_sstack cf ss') st))
  | SFound (ev, off) ->
    FFall (set_finds cf (app cf.c_finds ((ev, (Z.add cf.c_cur off)) :: [])))
  | SAddCur dz -> FFall (set_cur cf (Z.add cf.c_cur dz))
  | SIf (k, t, e) ->
    let go =
      let rec go l cf0 =
        match l with
        | [] -> FFall cf0
        | x :: r ->
          (match exec_stmt nl_cond ws_cond data olen c x cf0 with
           | FFall cf' -> go r cf'
           | x0 -> x0)
      in go
    in
    (match eval_cond nl_cond ws_cond data cf c k with
     | Some b -> if b then go t cf else go e cf
     | None -> FPanic PIndexRange)
  | SOracle k ->
    (match olen k cf.c_cur with
     | OLen n0 ->
       FFall
         (if Z.ltb Z0 n0
          then set_cur cf (Z.sub (Z.add cf.c_cur n0) (Zpos XH))
          else cf)
     | OLenErr (m, i) -> FErr (EOracle (m, (Z.add cf.c_cur i))))
  | SRetNil -> FRet (KNil, cf)
  | SRetErr (w, e) -> FErr (mk_unexpected data cf w e)
  | SRetErrBasic m -> FErr (EBasic (m, cf.c_cur))
  | SRetCall st -> FRet ((KCall st), cf)
  | SRetRedispatch -> FRet (KRedispatch, cf)

(** val exec_list :
    cond -> cond -> bytes -> (okind -> z -> olen_res) -> byte -> stmt list ->
    conf -> flow **)

let rec exec_list nl_cond ws_cond data olen c l cf =
  match l with
  | [] -> FFall cf
  | x :: r ->
    (match exec_stmt nl_cond ws_cond data olen c x cf with
     | FFall cf' -> exec_list nl_cond ws_cond data olen c r cf'
     | x0 -> x0)

(** val body_of : (string * stmt list) list -> state -> stmt list option **)

let body_of prog st =
  option_map snd (nth_error prog (N.to_nat st))

(** val run_step :
    (string * stmt list) list -> cond -> cond -> bytes -> (okind -> z ->
    olen_res) -> nat -> state -> byte -> conf -> conf res **)

let rec run_step prog nl_cond ws_cond data olen fuel st c cf =
  match fuel with
  | O -> RFuel
  | S fuel' ->
    (match body_of prog st with
     | Some body ->
       (match exec_list nl_cond ws_cond data olen c body cf with
        | FFall _ -> RPanic PFallthrough
        | FRet (k, cf') ->
          (match k with
           | KNil -> ROk cf'
           | KCall st' ->
             run_step prog nl_cond ws_cond data olen fuel' st' c cf'
           | KRedispatch ->
             run_step prog nl_cond ws_cond data olen fuel' cf'.c_step c cf')
        | FErr e -> RErr e
        | FPanic p -> RPanic p)
     | None -> RPanic PNoState)

(** val pair_ok : event -> event -> bool **)

let pair_ok b e =
  match b with
  | KeywordBegin -> (match e with
                     | KeywordEnd -> true
                     | _ -> false)
  | ParameterBegin -> (match e with
                       | ParameterEnd -> true
                       | _ -> false)
  | AnnotationBegin -> (match e with
                        | AnnotationEnd -> true
                        | _ -> false)
  | SchemaBegin -> (match e with
                    | SchemaEnd -> true
                    | _ -> false)
  | TextBegin -> (match e with
                  | TextEnd -> true
                  | _ -> false)
  | EnumBegin -> (match e with
                  | EnumEnd -> true
                  | _ -> false)
  | _ -> false

(** val process_event : conf -> (event * z) -> (lexeme option * conf) res **)

let process_event cf ev = match ev with
| (t, pos) ->
  if ev_IsBeginning t
  then ROk (None, (set_estack cf (ev :: cf.c_estack)))
  else if ev_IsEnding t
       then (match cf.c_estack with
             | [] -> RPanic PEventStackEmpty
             | p :: es ->
               let (bt, bpos) = p in
               let cf' = set_estack cf es in
               if pair_ok bt t
               then (match ev_ToLexemeType t with
                     | Some k ->
                       ROk ((Some { lk = k; lb = bpos; le = pos }), cf')
                     | None -> RPanic PLexemeType)
               else RErr (EBasic ((String ((Ascii (true, false, true, false,
                      false, false, true, false)), (String ((Ascii (false,
                      true, true, true, false, true, true, false)), (String
                      ((Ascii (false, false, true, false, false, true, true,
                      false)), (String ((Ascii (true, false, false, true,
                      false, true, true, false)), (String ((Ascii (false,
                      true, true, true, false, true, true, false)), (String
                      ((Ascii (true, true, true, false, false, true, true,
                      false)), (String ((Ascii (false, false, false, false,
                      false, true, false, false)), (String ((Ascii (false,
                      false, true, true, false, true, true, false)), (String
                      ((Ascii (true, false, true, false, false, true, true,
                      false)), (String ((Ascii (false, false, false, true,
                      true, true, true, false)), (String ((Ascii (true,
                      false, true, false, false, true, true, false)), (String
                      ((Ascii (true, false, true, true, false, true, true,
                      false)), (String ((Ascii (true, false, true, false,
                      false, true, true, false)), (String ((Ascii (false,
                      false, false, false, false, true, false, false)),
                      (String ((Ascii (true, false, true, false, false, true,
                      true, false)), (String ((Ascii (false, true, true,
                      false, true, true, true, false)), (String ((Ascii
                      (true, false, true, false, false, true, true, false)),
                      (String ((Ascii (false, true, true, true, false, true,
                      true, false)), (String ((Ascii (false, false, true,
                      false, true, true, true, false)), (String ((Ascii
                      (false, false, false, false, false, true, false,
                      false)), (String ((Ascii (false, false, true, false,
                      false, true, true, false)), (String ((Ascii (true,
                      true, true, true, false, true, true, false)), (String
                      ((Ascii (true, false, true, false, false, true, true,
                      false)), (String ((Ascii (true, true, false, false,
                      true, true, true, false)), (String ((Ascii (false,
                      false, false, false, false, true, false, false)),
                      (String ((Ascii (false, true, true, true, false, true,
                      true, false)), (String ((Ascii (true, true, true, true,
                      false, true, true, false)), (String ((Ascii (false,
                      false, true, false, true, true, true, false)), (String
                      ((Ascii (false, false, false, false, false, true,
                      false, false)), (String ((Ascii (true, false, true,
                      true, false, true, true, false)), (String ((Ascii
                      (true, false, false, false, false, true, true, false)),
                      (String ((Ascii (false, false, true, false, true, true,
                      true, false)), (String ((Ascii (true, true, false,
                      false, false, true, true, false)), (String ((Ascii
                      (false, false, false, true, false, true, true, false)),
                      (String ((Ascii (false, false, false, false, false,
                      true, false, false)), (String ((Ascii (false, true,
                      false, false, false, true, true, false)), (String
                      ((Ascii (true, false, true, false, false, true, true,
                      false)), (String ((Ascii (true, true, true, false,
                      false, true, true, false)), (String ((Ascii (true,
                      false, false, true, false, true, true, false)), (String
                      ((Ascii (false, true, true, true, false, true, true,
                      false)), (String ((Ascii (false, true, true, true,
                      false, true, true, false)), (String ((Ascii (true,
                      false, false, true, false, true, true, false)), (String
                      ((Ascii (false, true, true, true, false, true, true,
                      false)), (String ((Ascii (true, true, true, false,
                      false, true, true, false)), (String ((Ascii (false,
                      false, false, false, false, true, false, false)),
                      (String ((Ascii (true, false, true, false, false, true,
                      true, false)), (String ((Ascii (false, true, true,
                      false, true, true, true, false)), (String ((Ascii
                      (true, false, true, false, false, true, true, false)),
                      (String ((Ascii (false, true, true, true, false, true,
                      true, false)), (String ((Ascii (false, false, true,
                      false, true, true, true, false)),
                      EmptyString)))))))))))))))))))))))))))))))))))))))))))))))))))))))))))))))))))))))))))))))))))))))))))))))))))),
                      cf.c_cur)))
       else if ev_IsSingle t
            then (match ev_ToLexemeType t with
                  | Some k -> ROk ((Some { lk = k; lb = pos; le = pos }), cf)
                  | None -> RPanic PLexemeType)
            else RErr (EBasic ((String ((Ascii (true, false, true, false,
                   true, false, true, false)), (String ((Ascii (false, true,
                   true, true, false, true, true, false)), (String ((Ascii
                   (true, true, false, false, true, true, true, false)),
                   (String ((Ascii (true, false, true, false, true, true,
                   true, false)), (String ((Ascii (false, false, false,
                   false, true, true, true, false)), (String ((Ascii (false,
                   false, false, false, true, true, true, false)), (String
                   ((Ascii (true, true, true, true, false, true, true,
                   false)), (String ((Ascii (false, true, false, false, true,
                   true, true, false)), (String ((Ascii (false, false, true,
                   false, true, true, true, false)), (String ((Ascii (true,
                   false, true, false, false, true, true, false)), (String
                   ((Ascii (false, false, true, false, false, true, true,
                   false)), (String ((Ascii (false, false, false, false,
                   false, true, false, false)), (String ((Ascii (false,
                   false, true, true, false, true, true, false)), (String
                   ((Ascii (true, false, true, false, false, true, true,
                   false)), (String ((Ascii (false, false, false, true, true,
                   true, true, false)), (String ((Ascii (true, false, true,
                   false, false, true, true, false)), (String ((Ascii (true,
                   false, true, true, false, true, true, false)), (String
                   ((Ascii (true, false, true, false, false, true, true,
                   false)), (String ((Ascii (false, false, false, false,
                   false, true, false, false)), (String ((Ascii (true, false,
                   true, false, false, true, true, false)), (String ((Ascii
                   (false, true, true, false, true, true, true, false)),
                   (String ((Ascii (true, false, true, false, false, true,
                   true, false)), (String ((Ascii (false, true, true, true,
                   false, true, true, false)), (String ((Ascii (false, false,
                   true, false, true, true, true, false)), (String ((Ascii
                   (false, false, false, false, false, true, false, false)),
                   (String ((Ascii (false, false, true, false, true, true,
                   true, false)), (String ((Ascii (true, false, false, true,
                   true, true, true, false)), (String ((Ascii (false, false,
                   false, false, true, true, true, false)), (String ((Ascii
                   (true, false, true, false, false, true, true, false)),
                   EmptyString)))))))))))))))))))))))))))))))))))))))))))))))))))))))))),
                   cf.c_cur))

(** val note_lexeme : conf -> lexeme -> conf **)

let note_lexeme cf l =
  match l.lk with
  | LKeyword -> set_params cf []
  | LParameter -> set_params cf (app cf.c_params (l :: []))
  | _ -> cf

(** val drain : nat -> conf -> (lexeme option * conf) res **)

let rec drain n0 cf =
  match n0 with
  | O -> ROk (None, cf)
  | S n' ->
    (match cf.c_finds with
     | [] -> RPanic PFindsEmpty
     | ev :: fs ->
       (match process_event (set_finds cf fs) ev with
        | ROk a ->
          let (o, cf') = a in
          (match o with
           | Some l -> ROk ((Some l), (note_lexeme cf' l))
           | None -> drain n' cf')
        | x -> x))

(** val step_fuel : nat **)

let step_fuel =
  S (S (S (S (S (S (S (S O)))))))

(** val next_loop :
    (string * stmt list) list -> cond -> cond -> bytes -> (okind -> z ->
    olen_res) -> nat -> conf -> (lexeme option * conf) res **)

let rec next_loop prog nl_cond ws_cond data olen fuel cf =
  match fuel with
  | O -> RFuel
  | S fuel' ->
    if Z.ltb (data_size data) cf.c_cur
    then ROk (None, cf)
    else if Z.ltb cf.c_cur Z0
         then RPanic PIndexRange
         else let at_end = Z.eqb cf.c_cur (data_size data) in
              let c =
                if at_end
                then N0
                else (match byte_at data cf.c_cur with
                      | Some b -> b
                      | None -> N0)
              in
              if (&&) (negb at_end) (N.eqb c N0)
              then RErr (EBasic ((String ((Ascii (false, true, true, false,
                     false, false, true, false)), (String ((Ascii (true,
                     false, false, true, false, true, true, false)), (String
                     ((Ascii (false, false, true, true, false, true, true,
                     false)), (String ((Ascii (true, false, true, false,
                     false, true, true, false)), (String ((Ascii (false,
                     false, false, false, false, true, false, false)),
                     (String ((Ascii (true, true, false, false, false, true,
                     true, false)), (String ((Ascii (true, false, false,
                     false, false, true, true, false)), (String ((Ascii
                     (false, true, true, true, false, true, true, false)),
                     (String ((Ascii (false, true, true, true, false, true,
                     true, false)), (String ((Ascii (true, true, true, true,
                     false, true, true, false)), (String ((Ascii (false,
                     false, true, false, true, true, true, false)), (String
                     ((Ascii (false, false, false, false, false, true, false,
                     false)), (String ((Ascii (true, true, false, false,
                     false, true, true, false)), (String ((Ascii (true, true,
                     true, true, false, true, true, false)), (String ((Ascii
                     (false, true, true, true, false, true, true, false)),
                     (String ((Ascii (false, false, true, false, true, true,
                     true, false)), (String ((Ascii (true, false, false,
                     false, false, true, true, false)), (String ((Ascii
                     (true, false, false, true, false, true, true, false)),
                     (String ((Ascii (false, true, true, true, false, true,
                     true, false)), (String ((Ascii (false, false, false,
                     false, false, true, false, false)), (String ((Ascii
                     (false, true, false, false, false, true, true, false)),
                     (String ((Ascii (true, false, false, true, true, true,
                     true, false)), (String ((Ascii (false, false, true,
                     false, true, true, true, false)), (String ((Ascii (true,
                     false, true, false, false, true, true, false)), (String
                     ((Ascii (false, false, false, false, false, true, false,
                     false)), (String ((Ascii (false, true, false, true,
                     true, true, true, false)), (String ((Ascii (true, false,
                     true, false, false, true, true, false)), (String ((Ascii
                     (false, true, false, false, true, true, true, false)),
                     (String ((Ascii (true, true, true, true, false, true,
                     true, false)),
                     EmptyString)))))))))))))))))))))))))))))))))))))))))))))))))))))))))),
                     cf.c_cur))
              else (match run_step prog nl_cond ws_cond data olen step_fuel
                            cf.c_step c cf with
                    | ROk cf1 ->
                      let cf2 = set_cur cf1 (Z.add cf1.c_cur (Zpos XH)) in
                      (match drain (length cf2.c_finds) cf2 with
                       | ROk a ->
                         let (o, cf3) = a in
                         (match o with
                          | Some l -> ROk ((Some l), cf3)
                          | None ->
                            next_loop prog nl_cond ws_cond data olen fuel' cf3)
                       | x -> x)
                    | RErr e -> RErr e
                    | RPanic p -> RPanic p
                    | RFuel -> RFuel)

(** val loop_fuel : bytes -> nat **)

let loop_fuel data =
  add (mul (S (S (S (S O)))) (length data)) (S (S (S (S (S (S (S (S (S (S (S
    (S (S (S (S (S O))))))))))))))))

(** val next :
    (string * stmt list) list -> cond -> cond -> bytes -> (okind -> z ->
    olen_res) -> conf -> (lexeme option * conf) res **)

let next prog nl_cond ws_cond data olen cf =
  match cf.c_finds with
  | [] -> next_loop prog nl_cond ws_cond data olen (loop_fuel data) cf
  | ev :: fs ->
    (match process_event (set_finds cf fs) ev with
     | ROk a ->
       let (o, cf') = a in
       (match o with
        | Some l -> ROk ((Some l), cf')
        | None ->
          next_loop prog nl_cond ws_cond data olen (loop_fuel data) cf')
     | x -> x)

type scan_end =
| EndOk
| EndErr of serr
| EndPanic of panic
| EndFuel

(** val st_stateAnnotation : state **)

let st_stateAnnotation =
  N0

(** val st_stateAnnotationSign2 : state **)

let st_stateAnnotationSign2 =
  Npos XH

(** val st_stateAnnotationTextStart : state **)

let st_stateAnnotationTextStart =
  Npos (XO XH)

(** val st_stateB : state **)

let st_stateB =
  Npos (XI XH)

(** val st_stateBa : state **)

let st_stateBa =
  Npos (XO (XO XH))

(** val st_stateBas : state **)

let st_stateBas =
  Npos (XI (XO XH))

(** val st_stateBase : state **)

let st_stateBase =
  Npos (XO (XI XH))

(** val st_stateBaseU : state **)

let st_stateBaseU =
  Npos (XI (XI XH))

(** val st_stateBaseUr : state **)

let st_stateBaseUr =
  Npos (XO (XO (XO XH)))

(** val st_stateBo : state **)

let st_stateBo =
  Npos (XI (XO (XO XH)))

(** val st_stateBod : state **)

let st_stateBod =
  Npos (XO (XI (XO XH)))

(** val st_stateBodyBody : state **)

let st_stateBodyBody =
  Npos (XI (XI (XO XH)))

(** val st_stateBodyBodyOrKeyword : state **)

let st_stateBodyBodyOrKeyword =
  Npos (XO (XO (XI XH)))

(** val st_stateBodyEnded : state **)

let st_stateBodyEnded =
  Npos (XI (XO (XI XH)))

(** val st_stateCommentBlock : state **)

let st_stateCommentBlock =
  Npos (XO (XI (XI XH)))

(** val st_stateCommentDouble : state **)

let st_stateCommentDouble =
  Npos (XI (XI (XI XH)))

(** val st_stateCommentOnceClosed : state **)

let st_stateCommentOnceClosed =
  Npos (XO (XO (XO (XO XH))))

(** val st_stateCommentStarted : state **)

let st_stateCommentStarted =
  Npos (XI (XO (XO (XO XH))))

(** val st_stateCommentTwiceClosed : state **)

let st_stateCommentTwiceClosed =
  Npos (XO (XI (XO (XO XH))))

(** val st_stateContextClosed : state **)

let st_stateContextClosed =
  Npos (XI (XI (XO (XO XH))))

(** val st_stateContextOpenedOnNewline : state **)

let st_stateContextOpenedOnNewline =
  Npos (XO (XO (XI (XO XH))))

(** val st_stateD : state **)

let st_stateD =
  Npos (XI (XO (XI (XO XH))))

(** val st_stateDE : state **)

let st_stateDE =
  Npos (XO (XI (XI (XO XH))))

(** val st_stateDEL : state **)

let st_stateDEL =
  Npos (XI (XI (XI (XO XH))))

(** val st_stateDELE : state **)

let st_stateDELE =
  Npos (XO (XO (XO (XI XH))))

(** val st_stateDELET : state **)

let st_stateDELET =
  Npos (XI (XO (XO (XI XH))))

(** val st_stateDe : state **)

let st_stateDe =
  Npos (XO (XI (XO (XI XH))))

(** val st_stateDes : state **)

let st_stateDes =
  Npos (XI (XI (XO (XI XH))))

(** val st_stateDesc : state **)

let st_stateDesc =
  Npos (XO (XO (XI (XI XH))))

(** val st_stateDescr : state **)

let st_stateDescr =
  Npos (XI (XO (XI (XI XH))))

(** val st_stateDescri : state **)

let st_stateDescri =
  Npos (XO (XI (XI (XI XH))))

(** val st_stateDescrip : state **)

let st_stateDescrip =
  Npos (XI (XI (XI (XI XH))))

(** val st_stateDescript : state **)

let st_stateDescript =
  Npos (XO (XO (XO (XO (XO XH)))))

(** val st_stateDescripti : state **)

let st_stateDescripti =
  Npos (XI (XO (XO (XO (XO XH)))))

(** val st_stateDescriptio : state **)

let st_stateDescriptio =
  Npos (XO (XI (XO (XO (XO XH)))))

(** val st_stateDescriptionText : state **)

let st_stateDescriptionText =
  Npos (XI (XI (XO (XO (XO XH)))))

(** val st_stateDescriptionTextBegin : state **)

let st_stateDescriptionTextBegin =
  Npos (XO (XO (XI (XO (XO XH)))))

(** val st_stateDescriptionTextBeginStarter : state **)

let st_stateDescriptionTextBeginStarter =
  Npos (XI (XO (XI (XO (XO XH)))))

(** val st_stateDescriptionTextBracketsInner : state **)

let st_stateDescriptionTextBracketsInner =
  Npos (XO (XI (XI (XO (XO XH)))))

(** val st_stateDescriptionTextBracketsInnerNewLine : state **)

let st_stateDescriptionTextBracketsInnerNewLine =
  Npos (XI (XI (XI (XO (XO XH)))))

(** val st_stateDescriptionTextNewline : state **)

let st_stateDescriptionTextNewline =
  Npos (XO (XO (XO (XI (XO XH)))))

(** val st_stateE : state **)

let st_stateE =
  Npos (XI (XO (XO (XI (XO XH)))))

(** val st_stateEN : state **)

let st_stateEN =
  Npos (XO (XI (XO (XI (XO XH)))))

(** val st_stateENU : state **)

let st_stateENU =
  Npos (XI (XI (XO (XI (XO XH)))))

(** val st_stateEnumBody : state **)

let st_stateEnumBody =
  Npos (XO (XO (XI (XI (XO XH)))))

(** val st_stateEnumBodyClose : state **)

let st_stateEnumBodyClose =
  Npos (XI (XO (XI (XI (XO XH)))))

(** val st_stateEnumBodyEnded : state **)

let st_stateEnumBodyEnded =
  Npos (XO (XI (XI (XI (XO XH)))))

(** val st_stateExpectKeyword : state **)

let st_stateExpectKeyword =
  Npos (XI (XI (XI (XI (XO XH)))))

(** val st_stateG : state **)

let st_stateG =
  Npos (XO (XO (XO (XO (XI XH)))))

(** val st_stateGE : state **)

let st_stateGE =
  Npos (XI (XO (XO (XO (XI XH)))))

(** val st_stateH : state **)

let st_stateH =
  Npos (XO (XI (XO (XO (XI XH)))))

(** val st_stateHe : state **)

let st_stateHe =
  Npos (XI (XI (XO (XO (XI XH)))))

(** val st_stateHea : state **)

let st_stateHea =
  Npos (XO (XO (XI (XO (XI XH)))))

(** val st_stateHead : state **)

let st_stateHead =
  Npos (XI (XO (XI (XO (XI XH)))))

(** val st_stateHeade : state **)

let st_stateHeade =
  Npos (XO (XI (XI (XO (XI XH)))))

(** val st_stateHeader : state **)

let st_stateHeader =
  Npos (XI (XI (XI (XO (XI XH)))))

(** val st_stateHeaderBody : state **)

let st_stateHeaderBody =
  Npos (XO (XO (XO (XI (XI XH)))))

(** val st_stateI : state **)

let st_stateI =
  Npos (XI (XO (XO (XI (XI XH)))))

(** val st_stateIN : state **)

let st_stateIN =
  Npos (XO (XI (XO (XI (XI XH)))))

(** val st_stateINC : state **)

let st_stateINC =
  Npos (XI (XI (XO (XI (XI XH)))))

(** val st_stateINCL : state **)

let st_stateINCL =
  Npos (XO (XO (XI (XI (XI XH)))))

(** val st_stateINCLU : state **)

let st_stateINCLU =
  Npos (XI (XO (XI (XI (XI XH)))))

(** val st_stateINCLUD : state **)

let st_stateINCLUD =
  Npos (XO (XI (XI (XI (XI XH)))))

(** val st_stateINF : state **)

let st_stateINF =
  Npos (XI (XI (XI (XI (XI XH)))))

(** val st_stateJ : state **)

let st_stateJ =
  Npos (XO (XO (XO (XO (XO (XO XH))))))

(** val st_stateJS : state **)

let st_stateJS =
  Npos (XI (XO (XO (XO (XO (XO XH))))))

(** val st_stateJSI : state **)

let st_stateJSI =
  Npos (XO (XI (XO (XO (XO (XO XH))))))

(** val st_stateJSIG : state **)

let st_stateJSIG =
  Npos (XI (XI (XO (XO (XO (XO XH))))))

(** val st_stateJSIGH : state **)

let st_stateJSIGH =
  Npos (XO (XO (XI (XO (XO (XO XH))))))

(** val st_stateJSchema : state **)

let st_stateJSchema =
  Npos (XI (XO (XI (XO (XO (XO XH))))))

(** val st_stateM : state **)

let st_stateM =
  Npos (XO (XI (XI (XO (XO (XO XH))))))

(** val st_stateMA : state **)

let st_stateMA =
  Npos (XI (XI (XI (XO (XO (XO XH))))))

(** val st_stateMAC : state **)

let st_stateMAC =
  Npos (XO (XO (XO (XI (XO (XO XH))))))

(** val st_stateMACR : state **)

let st_stateMACR =
  Npos (XI (XO (XO (XI (XO (XO XH))))))

(** val st_stateMe : state **)

let st_stateMe =
  Npos (XO (XI (XO (XI (XO (XO XH))))))

(** val st_stateMet : state **)

let st_stateMet =
  Npos (XI (XI (XO (XI (XO (XO XH))))))

(** val st_stateMeth : state **)

let st_stateMeth =
  Npos (XO (XO (XI (XI (XO (XO XH))))))

(** val st_stateMetho : state **)

let st_stateMetho =
  Npos (XI (XO (XI (XI (XO (XO XH))))))

(** val st_stateMultilineAnnotation : state **)

let st_stateMultilineAnnotation =
  Npos (XO (XI (XI (XI (XO (XO XH))))))

(** val st_stateMultilineAnnotationTextStart : state **)

let st_stateMultilineAnnotationTextStart =
  Npos (XI (XI (XI (XI (XO (XO XH))))))

(** val st_stateO : state **)

let st_stateO =
  Npos (XO (XO (XO (XO (XI (XO XH))))))

(** val st_stateOp : state **)

let st_stateOp =
  Npos (XI (XO (XO (XO (XI (XO XH))))))

(** val st_stateOpe : state **)

let st_stateOpe =
  Npos (XO (XI (XO (XO (XI (XO XH))))))

(** val st_stateOper : state **)

let st_stateOper =
  Npos (XI (XI (XO (XO (XI (XO XH))))))

(** val st_stateOpera : state **)

let st_stateOpera =
  Npos (XO (XO (XI (XO (XI (XO XH))))))

(** val st_stateOperat : state **)

let st_stateOperat =
  Npos (XI (XO (XI (XO (XI (XO XH))))))

(** val st_stateOperati : state **)

let st_stateOperati =
  Npos (XO (XI (XI (XO (XI (XO XH))))))

(** val st_stateOperatio : state **)

let st_stateOperatio =
  Npos (XI (XI (XI (XO (XI (XO XH))))))

(** val st_stateOperation : state **)

let st_stateOperation =
  Npos (XO (XO (XO (XI (XI (XO XH))))))

(** val st_stateOperationI : state **)

let st_stateOperationI =
  Npos (XI (XO (XO (XI (XI (XO XH))))))

(** val st_stateP : state **)

let st_stateP =
  Npos (XO (XI (XO (XI (XI (XO XH))))))

(** val st_statePA : state **)

let st_statePA =
  Npos (XI (XI (XO (XI (XI (XO XH))))))

(** val st_statePAS : state **)

let st_statePAS =
  Npos (XO (XO (XI (XI (XI (XO XH))))))

(** val st_statePAST : state **)

let st_statePAST =
  Npos (XI (XO (XI (XI (XI (XO XH))))))

(** val st_statePAT : state **)

let st_statePAT =
  Npos (XO (XI (XI (XI (XI (XO XH))))))

(** val st_statePATC : state **)

let st_statePATC =
  Npos (XI (XI (XI (XI (XI (XO XH))))))

(** val st_statePO : state **)

let st_statePO =
  Npos (XO (XO (XO (XO (XO (XI XH))))))

(** val st_statePOS : state **)

let st_statePOS =
  Npos (XI (XO (XO (XO (XO (XI XH))))))

(** val st_statePU : state **)

let st_statePU =
  Npos (XO (XI (XO (XO (XO (XI XH))))))

(** val st_statePa : state **)

let st_statePa =
  Npos (XI (XI (XO (XO (XO (XI XH))))))

(** val st_statePar : state **)

let st_statePar =
  Npos (XO (XO (XI (XO (XO (XI XH))))))

(** val st_statePara : state **)

let st_statePara =
  Npos (XI (XO (XI (XO (XO (XI XH))))))

(** val st_stateParam : state **)

let st_stateParam =
  Npos (XO (XI (XI (XO (XO (XI XH))))))

(** val st_stateParameterInQuoted : state **)

let st_stateParameterInQuoted =
  Npos (XI (XI (XI (XO (XO (XI XH))))))

(** val st_stateParameterInQuotedSlash : state **)

let st_stateParameterInQuotedSlash =
  Npos (XO (XO (XO (XI (XO (XI XH))))))

(** val st_stateParameterOrAnnotation : state **)

let st_stateParameterOrAnnotation =
  Npos (XI (XO (XO (XI (XO (XI XH))))))

(** val st_stateParameterOrAnnotationAfterFirstSpace : state **)

let st_stateParameterOrAnnotationAfterFirstSpace =
  Npos (XO (XI (XO (XI (XO (XI XH))))))

(** val st_stateParameterStart : state **)

let st_stateParameterStart =
  Npos (XI (XI (XO (XI (XO (XI XH))))))

(** val st_stateParameterWoQuoted : state **)

let st_stateParameterWoQuoted =
  Npos (XO (XO (XI (XI (XO (XI XH))))))

(** val st_stateParamsBody : state **)

let st_stateParamsBody =
  Npos (XI (XO (XI (XI (XO (XI XH))))))

(** val st_statePat : state **)

let st_statePat =
  Npos (XO (XI (XI (XI (XO (XI XH))))))

(** val st_statePathBody : state **)

let st_statePathBody =
  Npos (XI (XI (XI (XI (XO (XI XH))))))

(** val st_statePr : state **)

let st_statePr =
  Npos (XO (XO (XO (XO (XI (XI XH))))))

(** val st_statePro : state **)

let st_statePro =
  Npos (XI (XO (XO (XO (XI (XI XH))))))

(** val st_stateProt : state **)

let st_stateProt =
  Npos (XO (XI (XO (XO (XI (XI XH))))))

(** val st_stateProto : state **)

let st_stateProto =
  Npos (XI (XI (XO (XO (XI (XI XH))))))

(** val st_stateProtoc : state **)

let st_stateProtoc =
  Npos (XO (XO (XI (XO (XI (XI XH))))))

(** val st_stateProtoco : state **)

let st_stateProtoco =
  Npos (XI (XO (XI (XO (XI (XI XH))))))

(** val st_stateQ : state **)

let st_stateQ =
  Npos (XO (XI (XI (XO (XI (XI XH))))))

(** val st_stateQu : state **)

let st_stateQu =
  Npos (XI (XI (XI (XO (XI (XI XH))))))

(** val st_stateQue : state **)

let st_stateQue =
  Npos (XO (XO (XO (XI (XI (XI XH))))))

(** val st_stateQuer : state **)

let st_stateQuer =
  Npos (XI (XO (XO (XI (XI (XI XH))))))

(** val st_stateQueryBodyOrKeyword : state **)

let st_stateQueryBodyOrKeyword =
  Npos (XO (XI (XO (XI (XI (XI XH))))))

(** val st_stateR : state **)

let st_stateR =
  Npos (XI (XI (XO (XI (XI (XI XH))))))

(** val st_stateRe : state **)

let st_stateRe =
  Npos (XO (XO (XI (XI (XI (XI XH))))))

(** val st_stateRegex : state **)

let st_stateRegex =
  Npos (XI (XO (XI (XI (XI (XI XH))))))

(** val st_stateRegexBody : state **)

let st_stateRegexBody =
  Npos (XO (XI (XI (XI (XI (XI XH))))))

(** val st_stateRegexBodyAfterSlash : state **)

let st_stateRegexBodyAfterSlash =
  Npos (XI (XI (XI (XI (XI (XI XH))))))

(** val st_stateRegexFirstChar : state **)

let st_stateRegexFirstChar =
  Npos (XO (XO (XO (XO (XO (XO (XO XH)))))))

(** val st_stateReq : state **)

let st_stateReq =
  Npos (XI (XO (XO (XO (XO (XO (XO XH)))))))

(** val st_stateRequ : state **)

let st_stateRequ =
  Npos (XO (XI (XO (XO (XO (XO (XO XH)))))))

(** val st_stateReque : state **)

let st_stateReque =
  Npos (XI (XI (XO (XO (XO (XO (XO XH)))))))

(** val st_stateReques : state **)

let st_stateReques =
  Npos (XO (XO (XI (XO (XO (XO (XO XH)))))))

(** val st_stateRequestBody : state **)

let st_stateRequestBody =
  Npos (XI (XO (XI (XO (XO (XO (XO XH)))))))

(** val st_stateRequestBodyOrKeyword : state **)

let st_stateRequestBodyOrKeyword =
  Npos (XO (XI (XI (XO (XO (XO (XO XH)))))))

(** val st_stateRes : state **)

let st_stateRes =
  Npos (XI (XI (XI (XO (XO (XO (XO XH)))))))

(** val st_stateResponseBody : state **)

let st_stateResponseBody =
  Npos (XO (XO (XO (XI (XO (XO (XO XH)))))))

(** val st_stateResponseBodyOrKeyword : state **)

let st_stateResponseBodyOrKeyword =
  Npos (XI (XO (XO (XI (XO (XO (XO XH)))))))

(** val st_stateResponseKeywordSecond : state **)

let st_stateResponseKeywordSecond =
  Npos (XO (XI (XO (XI (XO (XO (XO XH)))))))

(** val st_stateResponseKeywordStarted : state **)

let st_stateResponseKeywordStarted =
  Npos (XI (XI (XO (XI (XO (XO (XO XH)))))))

(** val st_stateResu : state **)

let st_stateResu =
  Npos (XO (XO (XI (XI (XO (XO (XO XH)))))))

(** val st_stateResul : state **)

let st_stateResul =
  Npos (XI (XO (XI (XI (XO (XO (XO XH)))))))

(** val st_stateResultBody : state **)

let st_stateResultBody =
  Npos (XO (XI (XI (XI (XO (XO (XO XH)))))))

(** val st_stateRoot : state **)

let st_stateRoot =
  Npos (XI (XI (XI (XI (XO (XO (XO XH)))))))

(** val st_stateS : state **)

let st_stateS =
  Npos (XO (XO (XO (XO (XI (XO (XO XH)))))))

(** val st_stateSchemaClosed : state **)

let st_stateSchemaClosed =
  Npos (XI (XO (XO (XO (XI (XO (XO XH)))))))

(** val st_stateSe : state **)

let st_stateSe =
  Npos (XO (XI (XO (XO (XI (XO (XO XH)))))))

(** val st_stateSer : state **)

let st_stateSer =
  Npos (XI (XI (XO (XO (XI (XO (XO XH)))))))

(** val st_stateServ : state **)

let st_stateServ =
  Npos (XO (XO (XI (XO (XI (XO (XO XH)))))))

(** val st_stateServe : state **)

let st_stateServe =
  Npos (XI (XO (XI (XO (XI (XO (XO XH)))))))

(** val st_stateSingleComment : state **)

let st_stateSingleComment =
  Npos (XO (XI (XI (XO (XI (XO (XO XH)))))))

(** val st_stateT : state **)

let st_stateT =
  Npos (XI (XI (XI (XO (XI (XO (XO XH)))))))

(** val st_stateTA : state **)

let st_stateTA =
  Npos (XO (XO (XO (XI (XI (XO (XO XH)))))))

(** val st_stateTa : state **)

let st_stateTa =
  Npos (XI (XO (XO (XI (XI (XO (XO XH)))))))

(** val st_stateTag : state **)

let st_stateTag =
  Npos (XO (XI (XO (XI (XI (XO (XO XH)))))))

(** val st_stateTi : state **)

let st_stateTi =
  Npos (XI (XI (XO (XI (XI (XO (XO XH)))))))

(** val st_stateTit : state **)

let st_stateTit =
  Npos (XO (XO (XI (XI (XI (XO (XO XH)))))))

(** val st_stateTitl : state **)

let st_stateTitl =
  Npos (XI (XO (XI (XI (XI (XO (XO XH)))))))

(** val st_stateTy : state **)

let st_stateTy =
  Npos (XO (XI (XI (XI (XI (XO (XO XH)))))))

(** val st_stateTyp : state **)

let st_stateTyp =
  Npos (XI (XI (XI (XI (XI (XO (XO XH)))))))

(** val st_stateTypeBody : state **)

let st_stateTypeBody =
  Npos (XO (XO (XO (XO (XO (XI (XO XH)))))))

(** val st_stateTypeBodyOrKeyword : state **)

let st_stateTypeBodyOrKeyword =
  Npos (XI (XO (XO (XO (XO (XI (XO XH)))))))

(** val st_stateU : state **)

let st_stateU =
  Npos (XO (XI (XO (XO (XO (XI (XO XH)))))))

(** val st_stateUR : state **)

let st_stateUR =
  Npos (XI (XI (XO (XO (XO (XI (XO XH)))))))

(** val st_stateV : state **)

let st_stateV =
  Npos (XO (XO (XI (XO (XO (XI (XO XH)))))))

(** val st_stateVe : state **)

let st_stateVe =
  Npos (XI (XO (XI (XO (XO (XI (XO XH)))))))

(** val st_stateVer : state **)

let st_stateVer =
  Npos (XO (XI (XI (XO (XO (XI (XO XH)))))))

(** val st_stateVers : state **)

let st_stateVers =
  Npos (XI (XI (XI (XO (XO (XI (XO XH)))))))

(** val st_stateVersi : state **)

let st_stateVersi =
  Npos (XO (XO (XO (XI (XO (XI (XO XH)))))))

(** val st_stateVersio : state **)

let st_stateVersio =
  Npos (XI (XO (XO (XI (XO (XI (XO XH)))))))

(** val prog_table : (string * stmt list) list **)

let prog_table =
  ((String ((Ascii (true, true, false, false, true, true, true, false)),
    (String ((Ascii (false, false, true, false, true, true, true, false)),
    (String ((Ascii (true, false, false, false, false, true, true, false)),
    (String ((Ascii (false, false, true, false, true, true, true, false)),
    (String ((Ascii (true, false, true, false, false, true, true, false)),
    (String ((Ascii (true, false, false, false, false, false, true, false)),
    (String ((Ascii (false, true, true, true, false, true, true, false)),
    (String ((Ascii (false, true, true, true, false, true, true, false)),
    (String ((Ascii (true, true, true, true, false, true, true, false)),
    (String ((Ascii (false, false, true, false, true, true, true, false)),
    (String ((Ascii (true, false, false, false, false, true, true, false)),
    (String ((Ascii (false, false, true, false, true, true, true, false)),
    (String ((Ascii (true, false, false, true, false, true, true, false)),
    (String ((Ascii (true, true, true, true, false, true, true, false)),
    (String ((Ascii (false, true, true, true, false, true, true, false)),
    EmptyString)))))))))))))))))))))))))))))), ((SIf ((CByte (Npos (XI (XI
    (XO (XO (XO XH))))))), ((SFound (AnnotationEnd, (Zneg XH))) :: ((SSetStep
    st_stateSingleComment) :: (SRetNil :: []))), ((SIf ((COr (CNewLine,
    (CByte N0))), ((SFound (AnnotationEnd, (Zneg
    XH))) :: (SPop :: (SRetRedispatch :: []))),
    [])) :: []))) :: (SRetNil :: []))) :: (((String ((Ascii (true, true,
    false, false, true, true, true, false)), (String ((Ascii (false, false,
    true, false, true, true, true, false)), (String ((Ascii (true, false,
    false, false, false, true, true, false)), (String ((Ascii (false, false,
    true, false, true, true, true, false)), (String ((Ascii (true, false,
    true, false, false, true, true, false)), (String ((Ascii (true, false,
    false, false, false, false, true, false)), (String ((Ascii (false, true,
    true, true, false, true, true, false)), (String ((Ascii (false, true,
    true, true, false, true, true, false)), (String ((Ascii (true, true,
    true, true, false, true, true, false)), (String ((Ascii (false, false,
    true, false, true, true, true, false)), (String ((Ascii (true, false,
    false, false, false, true, true, false)), (String ((Ascii (false, false,
    true, false, true, true, true, false)), (String ((Ascii (true, false,
    false, true, false, true, true, false)), (String ((Ascii (true, true,
    true, true, false, true, true, false)), (String ((Ascii (false, true,
    true, true, false, true, true, false)), (String ((Ascii (true, true,
    false, false, true, false, true, false)), (String ((Ascii (true, false,
    false, true, false, true, true, false)), (String ((Ascii (true, true,
    true, false, false, true, true, false)), (String ((Ascii (false, true,
    true, true, false, true, true, false)), (String ((Ascii (false, true,
    false, false, true, true, false, false)),
    EmptyString)))))))))))))))))))))))))))))))))))))))), ((SIf ((CByte (Npos
    (XI (XI (XI (XI (XO XH))))))), ((SSetStep
    st_stateAnnotationTextStart) :: []), ((SIf ((CByte (Npos (XO (XI (XO (XI
    (XO XH))))))), ((SSetStep st_stateMultilineAnnotationTextStart) :: []),
    ((SAddCur (Zneg (XO XH))) :: ((SSetStep
    st_stateParameterStart) :: [])))) :: []))) :: (SRetNil :: []))) :: (((String
    ((Ascii (true, true, false, false, true, true, true, false)), (String
    ((Ascii (false, false, true, false, true, true, true, false)), (String
    ((Ascii (true, false, false, false, false, true, true, false)), (String
    ((Ascii (false, false, true, false, true, true, true, false)), (String
    ((Ascii (true, false, true, false, false, true, true, false)), (String
    ((Ascii (true, false, false, false, false, false, true, false)), (String
    ((Ascii (false, true, true, true, false, true, true, false)), (String
    ((Ascii (false, true, true, true, false, true, true, false)), (String
    ((Ascii (true, true, true, true, false, true, true, false)), (String
    ((Ascii (false, false, true, false, true, true, true, false)), (String
    ((Ascii (true, false, false, false, false, true, true, false)), (String
    ((Ascii (false, false, true, false, true, true, true, false)), (String
    ((Ascii (true, false, false, true, false, true, true, false)), (String
    ((Ascii (true, true, true, true, false, true, true, false)), (String
    ((Ascii (false, true, true, true, false, true, true, false)), (String
    ((Ascii (false, false, true, false, true, false, true, false)), (String
    ((Ascii (true, false, true, false, false, true, true, false)), (String
    ((Ascii (false, false, false, true, true, true, true, false)), (String
    ((Ascii (false, false, true, false, true, true, true, false)), (String
    ((Ascii (true, true, false, false, true, false, true, false)), (String
    ((Ascii (false, false, true, false, true, true, true, false)), (String
    ((Ascii (true, false, false, false, false, true, true, false)), (String
    ((Ascii (false, true, false, false, true, true, true, false)), (String
    ((Ascii (false, false, true, false, true, true, true, false)),
    EmptyString)))))))))))))))))))))))))))))))))))))))))))))))), ((SFound
    (AnnotationBegin, Z0)) :: ((SSetStep st_stateAnnotation) :: ((SRetCall
    st_stateAnnotation) :: [])))) :: (((String ((Ascii (true, true, false,
    false, true, true, true, false)), (String ((Ascii (false, false, true,
    false, true, true, true, false)), (String ((Ascii (true, false, false,
    false, false, true, true, false)), (String ((Ascii (false, false, true,
    false, true, true, true, false)), (String ((Ascii (true, false, true,
    false, false, true, true, false)), (String ((Ascii (false, true, false,
    false, false, false, true, false)), EmptyString)))))))))))), ((SIf
    ((CByte (Npos (XI (XI (XI (XI (XO (XI XH)))))))), ((SSetStep
    st_stateBo) :: (SRetNil :: [])), ((SIf ((CByte (Npos (XI (XO (XO (XO (XO
    (XI XH)))))))), ((SSetStep st_stateBa) :: (SRetNil :: [])), ((SRetErr
    ((String ((Ascii (true, false, false, true, false, true, true, false)),
    (String ((Ascii (false, true, true, true, false, true, true, false)),
    (String ((Ascii (false, false, false, false, false, true, false, false)),
    (String ((Ascii (false, false, true, false, false, true, true, false)),
    (String ((Ascii (true, false, false, true, false, true, true, false)),
    (String ((Ascii (false, true, false, false, true, true, true, false)),
    (String ((Ascii (true, false, true, false, false, true, true, false)),
    (String ((Ascii (true, true, false, false, false, true, true, false)),
    (String ((Ascii (false, false, true, false, true, true, true, false)),
    (String ((Ascii (true, false, false, true, false, true, true, false)),
    (String ((Ascii (false, true, true, false, true, true, true, false)),
    (String ((Ascii (true, false, true, false, false, true, true, false)),
    (String ((Ascii (false, false, false, false, false, true, false, false)),
    (String ((Ascii (false, true, true, true, false, true, true, false)),
    (String ((Ascii (true, false, false, false, false, true, true, false)),
    (String ((Ascii (true, false, true, true, false, true, true, false)),
    (String ((Ascii (true, false, true, false, false, true, true, false)),
    EmptyString)))))))))))))))))))))))))))))))))),
    EmptyString)) :: []))) :: []))) :: [])) :: (((String ((Ascii (true, true,
    false, false, true, true, true, false)), (String ((Ascii (false, false,
    true, false, true, true, true, false)), (String ((Ascii (true, false,
    false, false, false, true, true, false)), (String ((Ascii (false, false,
    true, false, true, true, true, false)), (String ((Ascii (true, false,
    true, false, false, true, true, false)), (String ((Ascii (false, true,
    false, false, false, false, true, false)), (String ((Ascii (true, false,
    false, false, false, true, true, false)), EmptyString)))))))))))))),
    ((SIf ((CByte (Npos (XI (XI (XO (XO (XI (XI XH)))))))), ((SSetStep
    st_stateBas) :: (SRetNil :: [])), ((SRetErr ((String ((Ascii (true,
    false, false, true, false, true, true, false)), (String ((Ascii (false,
    true, true, true, false, true, true, false)), (String ((Ascii (false,
    false, false, false, false, true, false, false)), (String ((Ascii (true,
    true, false, true, false, true, true, false)), (String ((Ascii (true,
    false, true, false, false, true, true, false)), (String ((Ascii (true,
    false, false, true, true, true, true, false)), (String ((Ascii (true,
    true, true, false, true, true, true, false)), (String ((Ascii (true,
    true, true, true, false, true, true, false)), (String ((Ascii (false,
    true, false, false, true, true, true, false)), (String ((Ascii (false,
    false, true, false, false, true, true, false)), (String ((Ascii (false,
    false, false, false, false, true, false, false)), (String ((Ascii (false,
    true, false, false, false, false, true, false)), (String ((Ascii (true,
    false, false, false, false, true, true, false)), (String ((Ascii (true,
    true, false, false, true, true, true, false)), (String ((Ascii (true,
    false, true, false, false, true, true, false)), (String ((Ascii (true,
    false, true, false, true, false, true, false)), (String ((Ascii (false,
    true, false, false, true, true, true, false)), (String ((Ascii (false,
    false, true, true, false, true, true, false)),
    EmptyString)))))))))))))))))))))))))))))))))))), (String ((Ascii (true,
    true, false, false, true, true, true, false)),
    EmptyString)))) :: []))) :: [])) :: (((String ((Ascii (true, true, false,
    false, true, true, true, false)), (String ((Ascii (false, false, true,
    false, true, true, true, false)), (String ((Ascii (true, false, false,
    false, false, true, true, false)), (String ((Ascii (false, false, true,
    false, true, true, true, false)), (String ((Ascii (true, false, true,
    false, false, true, true, false)), (String ((Ascii (false, true, false,
    false, false, false, true, false)), (String ((Ascii (true, false, false,
    false, false, true, true, false)), (String ((Ascii (true, true, false,
    false, true, true, true, false)), EmptyString)))))))))))))))), ((SIf
    ((CByte (Npos (XI (XO (XI (XO (XO (XI XH)))))))), ((SSetStep
    st_stateBase) :: (SRetNil :: [])), ((SRetErr ((String ((Ascii (true,
    false, false, true, false, true, true, false)), (String ((Ascii (false,
    true, true, true, false, true, true, false)), (String ((Ascii (false,
    false, false, false, false, true, false, false)), (String ((Ascii (true,
    true, false, true, false, true, true, false)), (String ((Ascii (true,
    false, true, false, false, true, true, false)), (String ((Ascii (true,
    false, false, true, true, true, true, false)), (String ((Ascii (true,
    true, true, false, true, true, true, false)), (String ((Ascii (true,
    true, true, true, false, true, true, false)), (String ((Ascii (false,
    true, false, false, true, true, true, false)), (String ((Ascii (false,
    false, true, false, false, true, true, false)), (String ((Ascii (false,
    false, false, false, false, true, false, false)), (String ((Ascii (false,
    true, false, false, false, false, true, false)), (String ((Ascii (true,
    false, false, false, false, true, true, false)), (String ((Ascii (true,
    true, false, false, true, true, true, false)), (String ((Ascii (true,
    false, true, false, false, true, true, false)), (String ((Ascii (true,
    false, true, false, true, false, true, false)), (String ((Ascii (false,
    true, false, false, true, true, true, false)), (String ((Ascii (false,
    false, true, true, false, true, true, false)),
    EmptyString)))))))))))))))))))))))))))))))))))), (String ((Ascii (true,
    false, true, false, false, true, true, false)),
    EmptyString)))) :: []))) :: [])) :: (((String ((Ascii (true, true, false,
    false, true, true, true, false)), (String ((Ascii (false, false, true,
    false, true, true, true, false)), (String ((Ascii (true, false, false,
    false, false, true, true, false)), (String ((Ascii (false, false, true,
    false, true, true, true, false)), (String ((Ascii (true, false, true,
    false, false, true, true, false)), (String ((Ascii (false, true, false,
    false, false, false, true, false)), (String ((Ascii (true, false, false,
    false, false, true, true, false)), (String ((Ascii (true, true, false,
    false, true, true, true, false)), (String ((Ascii (true, false, true,
    false, false, true, true, false)), EmptyString)))))))))))))))))), ((SIf
    ((CByte (Npos (XI (XO (XI (XO (XI (XO XH)))))))), ((SSetStep
    st_stateBaseU) :: (SRetNil :: [])), ((SRetErr ((String ((Ascii (true,
    false, false, true, false, true, true, false)), (String ((Ascii (false,
    true, true, true, false, true, true, false)), (String ((Ascii (false,
    false, false, false, false, true, false, false)), (String ((Ascii (true,
    true, false, true, false, true, true, false)), (String ((Ascii (true,
    false, true, false, false, true, true, false)), (String ((Ascii (true,
    false, false, true, true, true, true, false)), (String ((Ascii (true,
    true, true, false, true, true, true, false)), (String ((Ascii (true,
    true, true, true, false, true, true, false)), (String ((Ascii (false,
    true, false, false, true, true, true, false)), (String ((Ascii (false,
    false, true, false, false, true, true, false)), (String ((Ascii (false,
    false, false, false, false, true, false, false)), (String ((Ascii (false,
    true, false, false, false, false, true, false)), (String ((Ascii (true,
    false, false, false, false, true, true, false)), (String ((Ascii (true,
    true, false, false, true, true, true, false)), (String ((Ascii (true,
    false, true, false, false, true, true, false)), (String ((Ascii (true,
    false, true, false, true, false, true, false)), (String ((Ascii (false,
    true, false, false, true, true, true, false)), (String ((Ascii (false,
    false, true, true, false, true, true, false)),
    EmptyString)))))))))))))))))))))))))))))))))))), (String ((Ascii (true,
    false, true, false, true, false, true, false)),
    EmptyString)))) :: []))) :: [])) :: (((String ((Ascii (true, true, false,
    false, true, true, true, false)), (String ((Ascii (false, false, true,
    false, true, true, true, false)), (String ((Ascii (true, false, false,
    false, false, true, true, false)), (String ((Ascii (false, false, true,
    false, true, true, true, false)), (String ((Ascii (true, false, true,
    false, false, true, true, false)), (String ((Ascii (false, true, false,
    false, false, false, true, false)), (String ((Ascii (true, false, false,
    false, false, true, true, false)), (String ((Ascii (true, true, false,
    false, true, true, true, false)), (String ((Ascii (true, false, true,
    false, false, true, true, false)), (String ((Ascii (true, false, true,
    false, true, false, true, false)), EmptyString)))))))))))))))))))), ((SIf
    ((CByte (Npos (XO (XI (XO (XO (XI (XI XH)))))))), ((SSetStep
    st_stateBaseUr) :: (SRetNil :: [])), ((SRetErr ((String ((Ascii (true,
    false, false, true, false, true, true, false)), (String ((Ascii (false,
    true, true, true, false, true, true, false)), (String ((Ascii (false,
    false, false, false, false, true, false, false)), (String ((Ascii (true,
    true, false, true, false, true, true, false)), (String ((Ascii (true,
    false, true, false, false, true, true, false)), (String ((Ascii (true,
    false, false, true, true, true, true, false)), (String ((Ascii (true,
    true, true, false, true, true, true, false)), (String ((Ascii (true,
    true, true, true, false, true, true, false)), (String ((Ascii (false,
    true, false, false, true, true, true, false)), (String ((Ascii (false,
    false, true, false, false, true, true, false)), (String ((Ascii (false,
    false, false, false, false, true, false, false)), (String ((Ascii (false,
    true, false, false, false, false, true, false)), (String ((Ascii (true,
    false, false, false, false, true, true, false)), (String ((Ascii (true,
    true, false, false, true, true, true, false)), (String ((Ascii (true,
    false, true, false, false, true, true, false)), (String ((Ascii (true,
    false, true, false, true, false, true, false)), (String ((Ascii (false,
    true, false, false, true, true, true, false)), (String ((Ascii (false,
    false, true, true, false, true, true, false)),
    EmptyString)))))))))))))))))))))))))))))))))))), (String ((Ascii (false,
    true, false, false, true, true, true, false)),
    EmptyString)))) :: []))) :: [])) :: (((String ((Ascii (true, true, false,
    false, true, true, true, false)), (String ((Ascii (false, false, true,
    false, true, true, true, false)), (String ((Ascii (true, false, false,
    false, false, true, true, false)), (String ((Ascii (false, false, true,
    false, true, true, true, false)), (String ((Ascii (true, false, true,
    false, false, true, true, false)), (String ((Ascii (false, true, false,
    false, false, false, true, false)), (String ((Ascii (true, false, false,
    false, false, true, true, false)), (String ((Ascii (true, true, false,
    false, true, true, true, false)), (String ((Ascii (true, false, true,
    false, false, true, true, false)), (String ((Ascii (true, false, true,
    false, true, false, true, false)), (String ((Ascii (false, true, false,
    false, true, true, true, false)), EmptyString)))))))))))))))))))))),
    ((SIf ((CByte (Npos (XO (XO (XI (XI (XO (XI XH)))))))), ((SFound
    (KeywordEnd, Z0)) :: ((SPush st_stateExpectKeyword) :: ((SSetStep
    st_stateParameterOrAnnotation) :: (SRetNil :: [])))), ((SRetErr ((String
    ((Ascii (true, false, false, true, false, true, true, false)), (String
    ((Ascii (false, true, true, true, false, true, true, false)), (String
    ((Ascii (false, false, false, false, false, true, false, false)), (String
    ((Ascii (true, true, false, true, false, true, true, false)), (String
    ((Ascii (true, false, true, false, false, true, true, false)), (String
    ((Ascii (true, false, false, true, true, true, true, false)), (String
    ((Ascii (true, true, true, false, true, true, true, false)), (String
    ((Ascii (true, true, true, true, false, true, true, false)), (String
    ((Ascii (false, true, false, false, true, true, true, false)), (String
    ((Ascii (false, false, true, false, false, true, true, false)), (String
    ((Ascii (false, false, false, false, false, true, false, false)), (String
    ((Ascii (false, true, false, false, false, false, true, false)), (String
    ((Ascii (true, false, false, false, false, true, true, false)), (String
    ((Ascii (true, true, false, false, true, true, true, false)), (String
    ((Ascii (true, false, true, false, false, true, true, false)), (String
    ((Ascii (true, false, true, false, true, false, true, false)), (String
    ((Ascii (false, true, false, false, true, true, true, false)), (String
    ((Ascii (false, false, true, true, false, true, true, false)),
    EmptyString)))))))))))))))))))))))))))))))))))), (String ((Ascii (false,
    false, true, true, false, true, true, false)),
    EmptyString)))) :: []))) :: [])) :: (((String ((Ascii (true, true, false,
    false, true, true, true, false)), (String ((Ascii (false, false, true,
    false, true, true, true, false)), (String ((Ascii (true, false, false,
    false, false, true, true, false)), (String ((Ascii (false, false, true,
    false, true, true, true, false)), (String ((Ascii (true, false, true,
    false, false, true, true, false)), (String ((Ascii (false, true, false,
    false, false, false, true, false)), (String ((Ascii (true, true, true,
    true, false, true, true, false)), EmptyString)))))))))))))), ((SIf
    ((CByte (Npos (XO (XO (XI (XO (XO (XI XH)))))))), ((SSetStep
    st_stateBod) :: (SRetNil :: [])), ((SRetErr ((String ((Ascii (true,
    false, false, true, false, true, true, false)), (String ((Ascii (false,
    true, true, true, false, true, true, false)), (String ((Ascii (false,
    false, false, false, false, true, false, false)), (String ((Ascii (true,
    true, false, true, false, true, true, false)), (String ((Ascii (true,
    false, true, false, false, true, true, false)), (String ((Ascii (true,
    false, false, true, true, true, true, false)), (String ((Ascii (true,
    true, true, false, true, true, true, false)), (String ((Ascii (true,
    true, true, true, false, true, true, false)), (String ((Ascii (false,
    true, false, false, true, true, true, false)), (String ((Ascii (false,
    false, true, false, false, true, true, false)), (String ((Ascii (false,
    false, false, false, false, true, false, false)), (String ((Ascii (false,
    true, false, false, false, false, true, false)), (String ((Ascii (true,
    true, true, true, false, true, true, false)), (String ((Ascii (false,
    false, true, false, false, true, true, false)), (String ((Ascii (true,
    false, false, true, true, true, true, false)),
    EmptyString)))))))))))))))))))))))))))))), (String ((Ascii (false, false,
    true, false, false, true, true, false)),
    EmptyString)))) :: []))) :: [])) :: (((String ((Ascii (true, true, false,
    false, true, true, true, false)), (String ((Ascii (false, false, true,
    false, true, true, true, false)), (String ((Ascii (true, false, false,
    false, false, true, true, false)), (String ((Ascii (false, false, true,
    false, true, true, true, false)), (String ((Ascii (true, false, true,
    false, false, true, true, false)), (String ((Ascii (false, true, false,
    false, false, false, true, false)), (String ((Ascii (true, true, true,
    true, false, true, true, false)), (String ((Ascii (false, false, true,
    false, false, true, true, false)), EmptyString)))))))))))))))), ((SIf
    ((CByte (Npos (XI (XO (XO (XI (XI (XI XH)))))))), ((SFound (KeywordEnd,
    Z0)) :: ((SPush st_stateBodyBodyOrKeyword) :: ((SSetStep
    st_stateParameterOrAnnotation) :: (SRetNil :: [])))), ((SRetErr ((String
    ((Ascii (true, false, false, true, false, true, true, false)), (String
    ((Ascii (false, true, true, true, false, true, true, false)), (String
    ((Ascii (false, false, false, false, false, true, false, false)), (String
    ((Ascii (true, true, false, true, false, true, true, false)), (String
    ((Ascii (true, false, true, false, false, true, true, false)), (String
    ((Ascii (true, false, false, true, true, true, true, false)), (String
    ((Ascii (true, true, true, false, true, true, true, false)), (String
    ((Ascii (true, true, true, true, false, true, true, false)), (String
    ((Ascii (false, true, false, false, true, true, true, false)), (String
    ((Ascii (false, false, true, false, false, true, true, false)), (String
    ((Ascii (false, false, false, false, false, true, false, false)), (String
    ((Ascii (false, true, false, false, false, false, true, false)), (String
    ((Ascii (true, true, true, true, false, true, true, false)), (String
    ((Ascii (false, false, true, false, false, true, true, false)), (String
    ((Ascii (true, false, false, true, true, true, true, false)),
    EmptyString)))))))))))))))))))))))))))))), (String ((Ascii (true, false,
    false, true, true, true, true, false)),
    EmptyString)))) :: []))) :: [])) :: (((String ((Ascii (true, true, false,
    false, true, true, true, false)), (String ((Ascii (false, false, true,
    false, true, true, true, false)), (String ((Ascii (true, false, false,
    false, false, true, true, false)), (String ((Ascii (false, false, true,
    false, true, true, true, false)), (String ((Ascii (true, false, true,
    false, false, true, true, false)), (String ((Ascii (false, true, false,
    false, false, false, true, false)), (String ((Ascii (true, true, true,
    true, false, true, true, false)), (String ((Ascii (false, false, true,
    false, false, true, true, false)), (String ((Ascii (true, false, false,
    true, true, true, true, false)), (String ((Ascii (false, true, false,
    false, false, false, true, false)), (String ((Ascii (true, true, true,
    true, false, true, true, false)), (String ((Ascii (false, false, true,
    false, false, true, true, false)), (String ((Ascii (true, false, false,
    true, true, true, true, false)), EmptyString)))))))))))))))))))))))))),
    ((SIf ((COr (CWhitespace, CNewLine)), (SRetNil :: []), ((SIf ((CByte
    (Npos (XO (XO (XO (XI (XO XH))))))), ((SFound (ContextOpen,
    Z0)) :: (SRetNil :: [])),
    (SPop :: (SRetRedispatch :: [])))) :: []))) :: [])) :: (((String ((Ascii
    (true, true, false, false, true, true, true, false)), (String ((Ascii
    (false, false, true, false, true, true, true, false)), (String ((Ascii
    (true, false, false, false, false, true, true, false)), (String ((Ascii
    (false, false, true, false, true, true, true, false)), (String ((Ascii
    (true, false, true, false, false, true, true, false)), (String ((Ascii
    (false, true, false, false, false, false, true, false)), (String ((Ascii
    (true, true, true, true, false, true, true, false)), (String ((Ascii
    (false, false, true, false, false, true, true, false)), (String ((Ascii
    (true, false, false, true, true, true, true, false)), (String ((Ascii
    (false, true, false, false, false, false, true, false)), (String ((Ascii
    (true, true, true, true, false, true, true, false)), (String ((Ascii
    (false, false, true, false, false, true, true, false)), (String ((Ascii
    (true, false, false, true, true, true, true, false)), (String ((Ascii
    (true, true, true, true, false, false, true, false)), (String ((Ascii
    (false, true, false, false, true, true, true, false)), (String ((Ascii
    (true, true, false, true, false, false, true, false)), (String ((Ascii
    (true, false, true, false, false, true, true, false)), (String ((Ascii
    (true, false, false, true, true, true, true, false)), (String ((Ascii
    (true, true, true, false, true, true, true, false)), (String ((Ascii
    (true, true, true, true, false, true, true, false)), (String ((Ascii
    (false, true, false, false, true, true, true, false)), (String ((Ascii
    (false, false, true, false, false, true, true, false)),
    EmptyString)))))))))))))))))))))))))))))))))))))))))))), ((SIf ((CNot
    (CCtx QTypeOrAnyOrEmpty)), ((SIf ((CCtx QRegex), ((SPush
    st_stateRegex) :: []), ((SPush st_stateJSchema) :: []))) :: ((SSetStep
    st_stateBodyBody) :: [])), ((SSetStep
    st_stateExpectKeyword) :: []))) :: (SRetRedispatch :: []))) :: (((String
    ((Ascii (true, true, false, false, true, true, true, false)), (String
    ((Ascii (false, false, true, false, true, true, true, false)), (String
    ((Ascii (true, false, false, false, false, true, true, false)), (String
    ((Ascii (false, false, true, false, true, true, true, false)), (String
    ((Ascii (true, false, true, false, false, true, true, false)), (String
    ((Ascii (false, true, false, false, false, false, true, false)), (String
    ((Ascii (true, true, true, true, false, true, true, false)), (String
    ((Ascii (false, false, true, false, false, true, true, false)), (String
    ((Ascii (true, false, false, true, true, true, true, false)), (String
    ((Ascii (true, false, true, false, false, false, true, false)), (String
    ((Ascii (false, true, true, true, false, true, true, false)), (String
    ((Ascii (false, false, true, false, false, true, true, false)), (String
    ((Ascii (true, false, true, false, false, true, true, false)), (String
    ((Ascii (false, false, true, false, false, true, true, false)),
    EmptyString)))))))))))))))))))))))))))), ((SIf (CWhitespace,
    (SRetNil :: []), ((SIf ((COr (CNewLine, (CByte N0))), ((SSetStep
    st_stateExpectKeyword) :: (SRetNil :: [])), ((SIf ((CByte (Npos (XI (XI
    (XO (XO (XO XH))))))), (SPushCur :: ((SSetStep
    st_stateCommentStarted) :: (SRetNil :: []))), ((SRetErr ((String ((Ascii
    (true, false, false, false, false, true, true, false)), (String ((Ascii
    (false, true, true, false, false, true, true, false)), (String ((Ascii
    (false, false, true, false, true, true, true, false)), (String ((Ascii
    (true, false, true, false, false, true, true, false)), (String ((Ascii
    (false, true, false, false, true, true, true, false)), (String ((Ascii
    (false, false, false, false, false, true, false, false)), (String ((Ascii
    (false, true, false, false, false, true, true, false)), (String ((Ascii
    (true, true, true, true, false, true, true, false)), (String ((Ascii
    (false, false, true, false, false, true, true, false)), (String ((Ascii
    (true, false, false, true, true, true, true, false)),
    EmptyString)))))))))))))))))))),
    EmptyString)) :: []))) :: []))) :: []))) :: [])) :: (((String ((Ascii
    (true, true, false, false, true, true, true, false)), (String ((Ascii
    (false, false, true, false, true, true, true, false)), (String ((Ascii
    (true, false, false, false, false, true, true, false)), (String ((Ascii
    (false, false, true, false, true, true, true, false)), (String ((Ascii
    (true, false, true, false, false, true, true, false)), (String ((Ascii
    (true, true, false, false, false, false, true, false)), (String ((Ascii
    (true, true, true, true, false, true, true, false)), (String ((Ascii
    (true, false, true, true, false, true, true, false)), (String ((Ascii
    (true, false, true, true, false, true, true, false)), (String ((Ascii
    (true, false, true, false, false, true, true, false)), (String ((Ascii
    (false, true, true, true, false, true, true, false)), (String ((Ascii
    (false, false, true, false, true, true, true, false)), (String ((Ascii
    (false, true, false, false, false, false, true, false)), (String ((Ascii
    (false, false, true, true, false, true, true, false)), (String ((Ascii
    (true, true, true, true, false, true, true, false)), (String ((Ascii
    (true, true, false, false, false, true, true, false)), (String ((Ascii
    (true, true, false, true, false, true, true, false)),
    EmptyString)))))))))))))))))))))))))))))))))), ((SIf ((CByte N0),
    ((SRetErr ((String ((Ascii (false, true, true, true, false, true, true,
    false)), (String ((Ascii (true, true, true, true, false, true, true,
    false)), (String ((Ascii (false, false, true, false, true, true, true,
    false)), (String ((Ascii (false, false, false, false, false, true, false,
    false)), (String ((Ascii (false, true, true, false, false, true, true,
    false)), (String ((Ascii (true, true, true, true, false, true, true,
    false)), (String ((Ascii (true, false, true, false, true, true, true,
    false)), (String ((Ascii (false, true, true, true, false, true, true,
    false)), (String ((Ascii (false, false, true, false, false, true, true,
    false)), (String ((Ascii (false, false, false, false, false, true, false,
    false)), (String ((Ascii (false, true, false, false, false, true, true,
    false)), (String ((Ascii (true, true, true, true, false, true, true,
    false)), (String ((Ascii (true, false, true, false, true, true, true,
    false)), (String ((Ascii (false, true, true, true, false, true, true,
    false)), (String ((Ascii (false, false, true, false, false, true, true,
    false)), (String ((Ascii (true, false, false, false, false, true, true,
    false)), (String ((Ascii (false, true, false, false, true, true, true,
    false)), (String ((Ascii (true, false, false, true, true, true, true,
    false)), (String ((Ascii (false, false, false, false, false, true, false,
    false)), (String ((Ascii (true, false, true, false, false, true, true,
    false)), (String ((Ascii (false, true, true, true, false, true, true,
    false)), (String ((Ascii (false, false, true, false, false, true, true,
    false)), (String ((Ascii (false, false, false, false, false, true, false,
    false)), (String ((Ascii (true, true, false, false, true, true, true,
    false)), (String ((Ascii (true, false, false, true, true, true, true,
    false)), (String ((Ascii (true, false, true, true, false, true, true,
    false)), (String ((Ascii (false, true, false, false, false, true, true,
    false)), (String ((Ascii (true, true, true, true, false, true, true,
    false)), (String ((Ascii (false, false, true, true, false, true, true,
    false)), (String ((Ascii (true, true, false, false, true, true, true,
    false)),
    EmptyString)))))))))))))))))))))))))))))))))))))))))))))))))))))))))))),
    (String ((Ascii (true, true, false, false, false, true, false, false)),
    (String ((Ascii (true, true, false, false, false, true, false, false)),
    (String ((Ascii (true, true, false, false, false, true, false, false)),
    EmptyString)))))))) :: []), ((SIf ((CByte (Npos (XI (XI (XO (XO (XO
    XH))))))), ((SSetStep st_stateCommentOnceClosed) :: (SRetNil :: [])),
    (SRetNil :: []))) :: []))) :: [])) :: (((String ((Ascii (true, true,
    false, false, true, true, true, false)), (String ((Ascii (false, false,
    true, false, true, true, true, false)), (String ((Ascii (true, false,
    false, false, false, true, true, false)), (String ((Ascii (false, false,
    true, false, true, true, true, false)), (String ((Ascii (true, false,
    true, false, false, true, true, false)), (String ((Ascii (true, true,
    false, false, false, false, true, false)), (String ((Ascii (true, true,
    true, true, false, true, true, false)), (String ((Ascii (true, false,
    true, true, false, true, true, false)), (String ((Ascii (true, false,
    true, true, false, true, true, false)), (String ((Ascii (true, false,
    true, false, false, true, true, false)), (String ((Ascii (false, true,
    true, true, false, true, true, false)), (String ((Ascii (false, false,
    true, false, true, true, true, false)), (String ((Ascii (false, false,
    true, false, false, false, true, false)), (String ((Ascii (true, true,
    true, true, false, true, true, false)), (String ((Ascii (true, false,
    true, false, true, true, true, false)), (String ((Ascii (false, true,
    false, false, false, true, true, false)), (String ((Ascii (false, false,
    true, true, false, true, true, false)), (String ((Ascii (true, false,
    true, false, false, true, true, false)),
    EmptyString)))))))))))))))))))))))))))))))))))), ((SIf ((CByte (Npos (XI
    (XI (XO (XO (XO XH))))))), ((SSetStep
    st_stateCommentBlock) :: (SRetNil :: [])), ((SRetCall
    st_stateSingleComment) :: []))) :: [])) :: (((String ((Ascii (true, true,
    false, false, true, true, true, false)), (String ((Ascii (false, false,
    true, false, true, true, true, false)), (String ((Ascii (true, false,
    false, false, false, true, true, false)), (String ((Ascii (false, false,
    true, false, true, true, true, false)), (String ((Ascii (true, false,
    true, false, false, true, true, false)), (String ((Ascii (true, true,
    false, false, false, false, true, false)), (String ((Ascii (true, true,
    true, true, false, true, true, false)), (String ((Ascii (true, false,
    true, true, false, true, true, false)), (String ((Ascii (true, false,
    true, true, false, true, true, false)), (String ((Ascii (true, false,
    true, false, false, true, true, false)), (String ((Ascii (false, true,
    true, true, false, true, true, false)), (String ((Ascii (false, false,
    true, false, true, true, true, false)), (String ((Ascii (true, true,
    true, true, false, false, true, false)), (String ((Ascii (false, true,
    true, true, false, true, true, false)), (String ((Ascii (true, true,
    false, false, false, true, true, false)), (String ((Ascii (true, false,
    true, false, false, true, true, false)), (String ((Ascii (true, true,
    false, false, false, false, true, false)), (String ((Ascii (false, false,
    true, true, false, true, true, false)), (String ((Ascii (true, true,
    true, true, false, true, true, false)), (String ((Ascii (true, true,
    false, false, true, true, true, false)), (String ((Ascii (true, false,
    true, false, false, true, true, false)), (String ((Ascii (false, false,
    true, false, false, true, true, false)),
    EmptyString)))))))))))))))))))))))))))))))))))))))))))), ((SIf ((CByte
    (Npos (XI (XI (XO (XO (XO XH))))))), ((SSetStep
    st_stateCommentTwiceClosed) :: (SRetNil :: [])), ((SSetStep
    st_stateCommentBlock) :: (SRetRedispatch :: [])))) :: [])) :: (((String
    ((Ascii (true, true, false, false, true, true, true, false)), (String
    ((Ascii (false, false, true, false, true, true, true, false)), (String
    ((Ascii (true, false, false, false, false, true, true, false)), (String
    ((Ascii (false, false, true, false, true, true, true, false)), (String
    ((Ascii (true, false, true, false, false, true, true, false)), (String
    ((Ascii (true, true, false, false, false, false, true, false)), (String
    ((Ascii (true, true, true, true, false, true, true, false)), (String
    ((Ascii (true, false, true, true, false, true, true, false)), (String
    ((Ascii (true, false, true, true, false, true, true, false)), (String
    ((Ascii (true, false, true, false, false, true, true, false)), (String
    ((Ascii (false, true, true, true, false, true, true, false)), (String
    ((Ascii (false, false, true, false, true, true, true, false)), (String
    ((Ascii (true, true, false, false, true, false, true, false)), (String
    ((Ascii (false, false, true, false, true, true, true, false)), (String
    ((Ascii (true, false, false, false, false, true, true, false)), (String
    ((Ascii (false, true, false, false, true, true, true, false)), (String
    ((Ascii (false, false, true, false, true, true, true, false)), (String
    ((Ascii (true, false, true, false, false, true, true, false)), (String
    ((Ascii (false, false, true, false, false, true, true, false)),
    EmptyString)))))))))))))))))))))))))))))))))))))), ((SIf ((CByte (Npos
    (XI (XI (XO (XO (XO XH))))))), ((SSetStep
    st_stateCommentDouble) :: (SRetNil :: [])), ((SRetCall
    st_stateSingleComment) :: []))) :: [])) :: (((String ((Ascii (true, true,
    false, false, true, true, true, false)), (String ((Ascii (false, false,
    true, false, true, true, true, false)), (String ((Ascii (true, false,
    false, false, false, true, true, false)), (String ((Ascii (false, false,
    true, false, true, true, true, false)), (String ((Ascii (true, false,
    true, false, false, true, true, false)), (String ((Ascii (true, true,
    false, false, false, false, true, false)), (String ((Ascii (true, true,
    true, true, false, true, true, false)), (String ((Ascii (true, false,
    true, true, false, true, true, false)), (String ((Ascii (true, false,
    true, true, false, true, true, false)), (String ((Ascii (true, false,
    true, false, false, true, true, false)), (String ((Ascii (false, true,
    true, true, false, true, true, false)), (String ((Ascii (false, false,
    true, false, true, true, true, false)), (String ((Ascii (false, false,
    true, false, true, false, true, false)), (String ((Ascii (true, true,
    true, false, true, true, true, false)), (String ((Ascii (true, false,
    false, true, false, true, true, false)), (String ((Ascii (true, true,
    false, false, false, true, true, false)), (String ((Ascii (true, false,
    true, false, false, true, true, false)), (String ((Ascii (true, true,
    false, false, false, false, true, false)), (String ((Ascii (false, false,
    true, true, false, true, true, false)), (String ((Ascii (true, true,
    true, true, false, true, true, false)), (String ((Ascii (true, true,
    false, false, true, true, true, false)), (String ((Ascii (true, false,
    true, false, false, true, true, false)), (String ((Ascii (false, false,
    true, false, false, true, true, false)),
    EmptyString)))))))))))))))))))))))))))))))))))))))))))))), ((SIf ((CByte
    (Npos (XI (XI (XO (XO (XO XH))))))), (SPop :: (SRetNil :: [])),
    ((SSetStep
    st_stateCommentBlock) :: (SRetRedispatch :: [])))) :: [])) :: (((String
    ((Ascii (true, true, false, false, true, true, true, false)), (String
    ((Ascii (false, false, true, false, true, true, true, false)), (String
    ((Ascii (true, false, false, false, false, true, true, false)), (String
    ((Ascii (false, false, true, false, true, true, true, false)), (String
    ((Ascii (true, false, true, false, false, true, true, false)), (String
    ((Ascii (true, true, false, false, false, false, true, false)), (String
    ((Ascii (true, true, true, true, false, true, true, false)), (String
    ((Ascii (false, true, true, true, false, true, true, false)), (String
    ((Ascii (false, false, true, false, true, true, true, false)), (String
    ((Ascii (true, false, true, false, false, true, true, false)), (String
    ((Ascii (false, false, false, true, true, true, true, false)), (String
    ((Ascii (false, false, true, false, true, true, true, false)), (String
    ((Ascii (true, true, false, false, false, false, true, false)), (String
    ((Ascii (false, false, true, true, false, true, true, false)), (String
    ((Ascii (true, true, true, true, false, true, true, false)), (String
    ((Ascii (true, true, false, false, true, true, true, false)), (String
    ((Ascii (true, false, true, false, false, true, true, false)), (String
    ((Ascii (false, false, true, false, false, true, true, false)),
    EmptyString)))))))))))))))))))))))))))))))))))), ((SIf ((COr
    (CWhitespace, (CByte N0))), (SRetNil :: []), ((SIf (CNewLine, ((SSetStep
    st_stateExpectKeyword) :: (SRetNil :: [])), ((SIf ((CByte (Npos (XI (XI
    (XO (XO (XO XH))))))), (SPushCur :: ((SSetStep
    st_stateCommentStarted) :: (SRetNil :: []))), ((SRetErr ((String ((Ascii
    (true, false, false, false, false, true, true, false)), (String ((Ascii
    (false, true, true, false, false, true, true, false)), (String ((Ascii
    (false, false, true, false, true, true, true, false)), (String ((Ascii
    (true, false, true, false, false, true, true, false)), (String ((Ascii
    (false, true, false, false, true, true, true, false)), (String ((Ascii
    (false, false, false, false, false, true, false, false)), (String ((Ascii
    (true, false, true, false, false, true, true, false)), (String ((Ascii
    (false, false, false, true, true, true, true, false)), (String ((Ascii
    (false, false, false, false, true, true, true, false)), (String ((Ascii
    (false, false, true, true, false, true, true, false)), (String ((Ascii
    (true, false, false, true, false, true, true, false)), (String ((Ascii
    (true, true, false, false, false, true, true, false)), (String ((Ascii
    (true, false, false, true, false, true, true, false)), (String ((Ascii
    (false, false, true, false, true, true, true, false)), (String ((Ascii
    (false, false, false, false, false, true, false, false)), (String ((Ascii
    (true, true, false, false, false, true, true, false)), (String ((Ascii
    (true, true, true, true, false, true, true, false)), (String ((Ascii
    (false, true, true, true, false, true, true, false)), (String ((Ascii
    (false, false, true, false, true, true, true, false)), (String ((Ascii
    (true, false, true, false, false, true, true, false)), (String ((Ascii
    (false, false, false, true, true, true, true, false)), (String ((Ascii
    (false, false, true, false, true, true, true, false)), (String ((Ascii
    (false, false, false, false, false, true, false, false)), (String ((Ascii
    (true, true, false, false, false, true, true, false)), (String ((Ascii
    (false, false, true, true, false, true, true, false)), (String ((Ascii
    (true, true, true, true, false, true, true, false)), (String ((Ascii
    (true, true, false, false, true, true, true, false)), (String ((Ascii
    (true, false, true, false, false, true, true, false)),
    EmptyString)))))))))))))))))))))))))))))))))))))))))))))))))))))))),
    EmptyString)) :: []))) :: []))) :: []))) :: [])) :: (((String ((Ascii
    (true, true, false, false, true, true, true, false)), (String ((Ascii
    (false, false, true, false, true, true, true, false)), (String ((Ascii
    (true, false, false, false, false, true, true, false)), (String ((Ascii
    (false, false, true, false, true, true, true, false)), (String ((Ascii
    (true, false, true, false, false, true, true, false)), (String ((Ascii
    (true, true, false, false, false, false, true, false)), (String ((Ascii
    (true, true, true, true, false, true, true, false)), (String ((Ascii
    (false, true, true, true, false, true, true, false)), (String ((Ascii
    (false, false, true, false, true, true, true, false)), (String ((Ascii
    (true, false, true, false, false, true, true, false)), (String ((Ascii
    (false, false, false, true, true, true, true, false)), (String ((Ascii
    (false, false, true, false, true, true, true, false)), (String ((Ascii
    (true, true, true, true, false, false, true, false)), (String ((Ascii
    (false, false, false, false, true, true, true, false)), (String ((Ascii
    (true, false, true, false, false, true, true, false)), (String ((Ascii
    (false, true, true, true, false, true, true, false)), (String ((Ascii
    (true, false, true, false, false, true, true, false)), (String ((Ascii
    (false, false, true, false, false, true, true, false)), (String ((Ascii
    (true, true, true, true, false, false, true, false)), (String ((Ascii
    (false, true, true, true, false, true, true, false)), (String ((Ascii
    (false, true, true, true, false, false, true, false)), (String ((Ascii
    (true, false, true, false, false, true, true, false)), (String ((Ascii
    (true, true, true, false, true, true, true, false)), (String ((Ascii
    (false, false, true, true, false, true, true, false)), (String ((Ascii
    (true, false, false, true, false, true, true, false)), (String ((Ascii
    (false, true, true, true, false, true, true, false)), (String ((Ascii
    (true, false, true, false, false, true, true, false)),
    EmptyString)))))))))))))))))))))))))))))))))))))))))))))))))))))), ((SIf
    (CWhitespace, (SRetNil :: []), ((SIf (CNewLine, ((SSetStep
    st_stateExpectKeyword) :: (SRetNil :: [])), ((SIf ((CByte (Npos (XI (XI
    (XO (XO (XO XH))))))), (SPushCur :: ((SSetStep
    st_stateCommentStarted) :: (SRetNil :: []))), ((SRetErrBasic (String
    ((Ascii (true, false, false, false, false, true, true, false)), (String
    ((Ascii (false, false, false, false, true, true, true, false)), (String
    ((Ascii (true, false, false, false, false, true, true, false)), (String
    ((Ascii (false, true, false, false, true, true, true, false)), (String
    ((Ascii (false, false, true, false, true, true, true, false)), (String
    ((Ascii (false, false, false, false, false, true, false, false)), (String
    ((Ascii (false, true, true, false, false, true, true, false)), (String
    ((Ascii (false, true, false, false, true, true, true, false)), (String
    ((Ascii (true, true, true, true, false, true, true, false)), (String
    ((Ascii (true, false, true, true, false, true, true, false)), (String
    ((Ascii (false, false, false, false, false, true, false, false)), (String
    ((Ascii (false, false, true, false, true, true, true, false)), (String
    ((Ascii (false, false, false, true, false, true, true, false)), (String
    ((Ascii (true, false, true, false, false, true, true, false)), (String
    ((Ascii (false, false, false, false, false, true, false, false)), (String
    ((Ascii (true, true, true, true, false, true, true, false)), (String
    ((Ascii (false, false, false, false, true, true, true, false)), (String
    ((Ascii (true, false, true, false, false, true, true, false)), (String
    ((Ascii (false, true, true, true, false, true, true, false)), (String
    ((Ascii (true, false, false, true, false, true, true, false)), (String
    ((Ascii (false, true, true, true, false, true, true, false)), (String
    ((Ascii (true, true, true, false, false, true, true, false)), (String
    ((Ascii (false, false, false, false, false, true, false, false)), (String
    ((Ascii (false, false, false, false, true, true, true, false)), (String
    ((Ascii (true, false, false, false, false, true, true, false)), (String
    ((Ascii (false, true, false, false, true, true, true, false)), (String
    ((Ascii (true, false, true, false, false, true, true, false)), (String
    ((Ascii (false, true, true, true, false, true, true, false)), (String
    ((Ascii (false, false, true, false, true, true, true, false)), (String
    ((Ascii (false, false, false, true, false, true, true, false)), (String
    ((Ascii (true, false, true, false, false, true, true, false)), (String
    ((Ascii (true, true, false, false, true, true, true, false)), (String
    ((Ascii (true, false, false, true, false, true, true, false)), (String
    ((Ascii (true, true, false, false, true, true, true, false)), (String
    ((Ascii (false, false, true, true, false, true, false, false)), (String
    ((Ascii (false, false, false, false, false, true, false, false)), (String
    ((Ascii (false, false, true, false, true, true, true, false)), (String
    ((Ascii (false, false, false, true, false, true, true, false)), (String
    ((Ascii (true, false, true, false, false, true, true, false)), (String
    ((Ascii (false, true, false, false, true, true, true, false)), (String
    ((Ascii (true, false, true, false, false, true, true, false)), (String
    ((Ascii (false, false, false, false, false, true, false, false)), (String
    ((Ascii (true, true, false, false, true, true, true, false)), (String
    ((Ascii (false, false, false, true, false, true, true, false)), (String
    ((Ascii (true, true, true, true, false, true, true, false)), (String
    ((Ascii (true, false, true, false, true, true, true, false)), (String
    ((Ascii (false, false, true, true, false, true, true, false)), (String
    ((Ascii (false, false, true, false, false, true, true, false)), (String
    ((Ascii (false, false, false, false, false, true, false, false)), (String
    ((Ascii (false, true, false, false, false, true, true, false)), (String
    ((Ascii (true, false, true, false, false, true, true, false)), (String
    ((Ascii (false, false, false, false, false, true, false, false)), (String
    ((Ascii (false, true, true, true, false, true, true, false)), (String
    ((Ascii (true, true, true, true, false, true, true, false)), (String
    ((Ascii (false, false, true, false, true, true, true, false)), (String
    ((Ascii (false, false, false, true, false, true, true, false)), (String
    ((Ascii (true, false, false, true, false, true, true, false)), (String
    ((Ascii (false, true, true, true, false, true, true, false)), (String
    ((Ascii (true, true, true, false, false, true, true, false)), (String
    ((Ascii (false, false, false, false, false, true, false, false)), (String
    ((Ascii (true, false, true, false, false, true, true, false)), (String
    ((Ascii (false, false, true, true, false, true, true, false)), (String
    ((Ascii (true, true, false, false, true, true, true, false)), (String
    ((Ascii (true, false, true, false, false, true, true, false)), (String
    ((Ascii (false, false, false, false, false, true, false, false)), (String
    ((Ascii (true, true, true, true, false, true, true, false)), (String
    ((Ascii (false, true, true, true, false, true, true, false)), (String
    ((Ascii (false, false, false, false, false, true, false, false)), (String
    ((Ascii (false, false, true, false, true, true, true, false)), (String
    ((Ascii (false, false, false, true, false, true, true, false)), (String
    ((Ascii (true, false, false, true, false, true, true, false)), (String
    ((Ascii (true, true, false, false, true, true, true, false)), (String
    ((Ascii (false, false, false, false, false, true, false, false)), (String
    ((Ascii (false, false, true, true, false, true, true, false)), (String
    ((Ascii (true, false, false, true, false, true, true, false)), (String
    ((Ascii (false, true, true, true, false, true, true, false)), (String
    ((Ascii (true, false, true, false, false, true, true, false)), (String
    ((Ascii (false, false, true, true, false, true, false, false)), (String
    ((Ascii (false, false, false, false, false, true, false, false)), (String
    ((Ascii (false, false, true, true, false, true, true, false)), (String
    ((Ascii (true, false, true, false, false, true, true, false)), (String
    ((Ascii (true, false, false, false, false, true, true, false)), (String
    ((Ascii (false, true, false, false, true, true, true, false)), (String
    ((Ascii (false, true, true, true, false, true, true, false)), (String
    ((Ascii (false, false, false, false, false, true, false, false)), (String
    ((Ascii (true, false, true, true, false, true, true, false)), (String
    ((Ascii (true, true, true, true, false, true, true, false)), (String
    ((Ascii (false, true, false, false, true, true, true, false)), (String
    ((Ascii (true, false, true, false, false, true, true, false)), (String
    ((Ascii (false, false, false, false, false, true, false, false)), (String
    ((Ascii (true, false, false, false, false, true, true, false)), (String
    ((Ascii (false, true, false, false, false, true, true, false)), (String
    ((Ascii (true, true, true, true, false, true, true, false)), (String
    ((Ascii (true, false, true, false, true, true, true, false)), (String
    ((Ascii (false, false, true, false, true, true, true, false)), (String
    ((Ascii (false, false, false, false, false, true, false, false)), (String
    ((Ascii (false, false, true, false, true, true, true, false)), (String
    ((Ascii (false, false, false, true, false, true, true, false)), (String
    ((Ascii (true, false, true, false, false, true, true, false)), (String
    ((Ascii (false, false, false, false, false, true, false, false)), (String
    ((Ascii (true, false, true, false, false, true, true, false)), (String
    ((Ascii (false, false, false, true, true, true, true, false)), (String
    ((Ascii (false, false, false, false, true, true, true, false)), (String
    ((Ascii (false, false, true, true, false, true, true, false)), (String
    ((Ascii (true, false, false, true, false, true, true, false)), (String
    ((Ascii (true, true, false, false, false, true, true, false)), (String
    ((Ascii (true, false, false, true, false, true, true, false)), (String
    ((Ascii (false, false, true, false, true, true, true, false)), (String
    ((Ascii (false, false, false, false, false, true, false, false)), (String
    ((Ascii (false, false, true, false, false, true, true, false)), (String
    ((Ascii (true, false, false, true, false, true, true, false)), (String
    ((Ascii (false, true, false, false, true, true, true, false)), (String
    ((Ascii (true, false, true, false, false, true, true, false)), (String
    ((Ascii (true, true, false, false, false, true, true, false)), (String
    ((Ascii (true, false, false, true, false, true, true, false)), (String
    ((Ascii (false, false, true, false, true, true, true, false)), (String
    ((Ascii (false, true, true, false, true, true, true, false)), (String
    ((Ascii (true, false, true, false, false, true, true, false)), (String
    ((Ascii (false, false, false, false, false, true, false, false)), (String
    ((Ascii (false, true, false, false, false, true, true, false)), (String
    ((Ascii (true, true, true, true, false, true, true, false)), (String
    ((Ascii (true, false, true, false, true, true, true, false)), (String
    ((Ascii (false, true, true, true, false, true, true, false)), (String
    ((Ascii (false, false, true, false, false, true, true, false)), (String
    ((Ascii (true, false, false, false, false, true, true, false)), (String
    ((Ascii (false, true, false, false, true, true, true, false)), (String
    ((Ascii (true, false, false, true, false, true, true, false)), (String
    ((Ascii (true, false, true, false, false, true, true, false)), (String
    ((Ascii (true, true, false, false, true, true, true, false)), (String
    ((Ascii (false, false, false, false, false, true, false, false)), (String
    ((Ascii (false, false, false, true, false, true, true, false)), (String
    ((Ascii (true, false, true, false, false, true, true, false)), (String
    ((Ascii (false, true, false, false, true, true, true, false)), (String
    ((Ascii (true, false, true, false, false, true, true, false)), (String
    ((Ascii (false, true, false, true, true, true, false, false)), (String
    ((Ascii (false, false, false, false, false, true, false, false)), (String
    ((Ascii (false, false, false, true, false, true, true, false)), (String
    ((Ascii (false, false, true, false, true, true, true, false)), (String
    ((Ascii (false, false, true, false, true, true, true, false)), (String
    ((Ascii (false, false, false, false, true, true, true, false)), (String
    ((Ascii (true, true, false, false, true, true, true, false)), (String
    ((Ascii (false, true, false, true, true, true, false, false)), (String
    ((Ascii (true, true, true, true, false, true, false, false)), (String
    ((Ascii (true, true, true, true, false, true, false, false)), (String
    ((Ascii (false, true, false, true, false, true, true, false)), (String
    ((Ascii (true, true, false, false, true, true, true, false)), (String
    ((Ascii (true, false, false, true, false, true, true, false)), (String
    ((Ascii (true, true, true, false, false, true, true, false)), (String
    ((Ascii (false, false, false, true, false, true, true, false)), (String
    ((Ascii (false, false, true, false, true, true, true, false)), (String
    ((Ascii (false, true, true, true, false, true, false, false)), (String
    ((Ascii (true, false, false, true, false, true, true, false)), (String
    ((Ascii (true, true, true, true, false, true, true, false)), (String
    ((Ascii (true, true, true, true, false, true, false, false)), (String
    ((Ascii (false, false, true, false, false, true, true, false)), (String
    ((Ascii (true, true, true, true, false, true, true, false)), (String
    ((Ascii (true, true, false, false, false, true, true, false)), (String
    ((Ascii (true, true, false, false, true, true, true, false)), (String
    ((Ascii (true, true, true, true, false, true, false, false)), (String
    ((Ascii (false, true, false, true, false, true, true, false)), (String
    ((Ascii (true, true, false, false, true, true, true, false)), (String
    ((Ascii (true, false, false, true, false, true, true, false)), (String
    ((Ascii (true, true, true, false, false, true, true, false)), (String
    ((Ascii (false, false, false, true, false, true, true, false)), (String
    ((Ascii (false, false, true, false, true, true, true, false)), (String
    ((Ascii (true, false, true, true, false, true, false, false)), (String
    ((Ascii (true, false, false, false, false, true, true, false)), (String
    ((Ascii (false, false, false, false, true, true, true, false)), (String
    ((Ascii (true, false, false, true, false, true, true, false)), (String
    ((Ascii (true, false, true, true, false, true, false, false)), (String
    ((Ascii (false, false, false, false, true, true, false, false)), (String
    ((Ascii (true, false, true, true, false, true, false, false)), (String
    ((Ascii (true, true, false, false, true, true, false, false)), (String
    ((Ascii (true, true, false, false, false, true, false, false)), (String
    ((Ascii (false, true, false, false, false, true, true, false)), (String
    ((Ascii (true, true, true, true, false, true, true, false)), (String
    ((Ascii (true, false, true, false, true, true, true, false)), (String
    ((Ascii (false, true, true, true, false, true, true, false)), (String
    ((Ascii (false, false, true, false, false, true, true, false)), (String
    ((Ascii (true, false, false, false, false, true, true, false)), (String
    ((Ascii (false, true, false, false, true, true, true, false)), (String
    ((Ascii (true, false, false, true, false, true, true, false)), (String
    ((Ascii (true, false, true, false, false, true, true, false)), (String
    ((Ascii (true, true, false, false, true, true, true, false)), (String
    ((Ascii (true, false, true, true, false, true, false, false)), (String
    ((Ascii (true, true, true, true, false, true, true, false)), (String
    ((Ascii (false, true, true, false, false, true, true, false)), (String
    ((Ascii (true, false, true, true, false, true, false, false)), (String
    ((Ascii (false, false, true, false, true, true, true, false)), (String
    ((Ascii (false, false, false, true, false, true, true, false)), (String
    ((Ascii (true, false, true, false, false, true, true, false)), (String
    ((Ascii (true, false, true, true, false, true, false, false)), (String
    ((Ascii (false, true, false, false, false, true, true, false)), (String
    ((Ascii (true, true, true, true, false, true, true, false)), (String
    ((Ascii (false, false, true, false, false, true, true, false)), (String
    ((Ascii (true, false, false, true, true, true, true, false)), (String
    ((Ascii (true, false, true, true, false, true, false, false)), (String
    ((Ascii (true, true, true, true, false, true, true, false)), (String
    ((Ascii (false, true, true, false, false, true, true, false)), (String
    ((Ascii (true, false, true, true, false, true, false, false)), (String
    ((Ascii (false, false, true, false, true, true, true, false)), (String
    ((Ascii (false, false, false, true, false, true, true, false)), (String
    ((Ascii (true, false, true, false, false, true, true, false)), (String
    ((Ascii (true, false, true, true, false, true, false, false)), (String
    ((Ascii (false, false, true, false, false, true, true, false)), (String
    ((Ascii (true, false, false, true, false, true, true, false)), (String
    ((Ascii (false, true, false, false, true, true, true, false)), (String
    ((Ascii (true, false, true, false, false, true, true, false)), (String
    ((Ascii (true, true, false, false, false, true, true, false)), (String
    ((Ascii (false, false, true, false, true, true, true, false)), (String
    ((Ascii (true, false, false, true, false, true, true, false)), (String
    ((Ascii (false, true, true, false, true, true, true, false)), (String
    ((Ascii (true, false, true, false, false, true, true, false)),
    EmptyString))))))))))))))))))))))))))))))))))))))))))))))))))))))))))))))))))))))))))))))))))))))))))))))))))))))))))))))))))))))))))))))))))))))))))))))))))))))))))))))))))))))))))))))))))))))))))))))))))))))))))))))))))))))))))))))))))))))))))))))))))))))))))))))))))))))))))))))))))))))))))))))))))))))))))))))))))))))))))))))))))))))))))))))))))))))))))))))))))))))))))))))))))))))))))))))))))))))))))))))))))))))))))))))))))))))))))) :: []))) :: []))) :: []))) :: [])) :: (((String
    ((Ascii (true, true, false, false, true, true, true, false)), (String
    ((Ascii (false, false, true, false, true, true, true, false)), (String
    ((Ascii (true, false, false, false, false, true, true, false)), (String
    ((Ascii (false, false, true, false, true, true, true, false)), (String
    ((Ascii (true, false, true, false, false, true, true, false)), (String
    ((Ascii (false, false, true, false, false, false, true, false)),
    EmptyString)))))))))))), ((SIf ((CByte (Npos (XI (XO (XI (XO (XO (XO
    XH)))))))), ((SSetStep st_stateDE) :: (SRetNil :: [])), ((SIf ((CByte
    (Npos (XI (XO (XI (XO (XO (XI XH)))))))), ((SSetStep
    st_stateDe) :: (SRetNil :: [])), ((SRetErr ((String ((Ascii (true, false,
    false, true, false, true, true, false)), (String ((Ascii (false, true,
    true, true, false, true, true, false)), (String ((Ascii (false, false,
    false, false, false, true, false, false)), (String ((Ascii (false, false,
    true, false, false, true, true, false)), (String ((Ascii (true, false,
    false, true, false, true, true, false)), (String ((Ascii (false, true,
    false, false, true, true, true, false)), (String ((Ascii (true, false,
    true, false, false, true, true, false)), (String ((Ascii (true, true,
    false, false, false, true, true, false)), (String ((Ascii (false, false,
    true, false, true, true, true, false)), (String ((Ascii (true, false,
    false, true, false, true, true, false)), (String ((Ascii (false, true,
    true, false, true, true, true, false)), (String ((Ascii (true, false,
    true, false, false, true, true, false)), (String ((Ascii (false, false,
    false, false, false, true, false, false)), (String ((Ascii (false, true,
    true, true, false, true, true, false)), (String ((Ascii (true, false,
    false, false, false, true, true, false)), (String ((Ascii (true, false,
    true, true, false, true, true, false)), (String ((Ascii (true, false,
    true, false, false, true, true, false)),
    EmptyString)))))))))))))))))))))))))))))))))),
    EmptyString)) :: []))) :: []))) :: [])) :: (((String ((Ascii (true, true,
    false, false, true, true, true, false)), (String ((Ascii (false, false,
    true, false, true, true, true, false)), (String ((Ascii (true, false,
    false, false, false, true, true, false)), (String ((Ascii (false, false,
    true, false, true, true, true, false)), (String ((Ascii (true, false,
    true, false, false, true, true, false)), (String ((Ascii (false, false,
    true, false, false, false, true, false)), (String ((Ascii (true, false,
    true, false, false, false, true, false)), EmptyString)))))))))))))),
    ((SIf ((CByte (Npos (XO (XO (XI (XI (XO (XO XH)))))))), ((SSetStep
    st_stateDEL) :: (SRetNil :: [])), ((SRetErr ((String ((Ascii (true,
    false, false, true, false, true, true, false)), (String ((Ascii (false,
    true, true, true, false, true, true, false)), (String ((Ascii (false,
    false, false, false, false, true, false, false)), (String ((Ascii (true,
    true, false, true, false, true, true, false)), (String ((Ascii (true,
    false, true, false, false, true, true, false)), (String ((Ascii (true,
    false, false, true, true, true, true, false)), (String ((Ascii (true,
    true, true, false, true, true, true, false)), (String ((Ascii (true,
    true, true, true, false, true, true, false)), (String ((Ascii (false,
    true, false, false, true, true, true, false)), (String ((Ascii (false,
    false, true, false, false, true, true, false)), (String ((Ascii (false,
    false, false, false, false, true, false, false)), (String ((Ascii (false,
    false, true, false, false, false, true, false)), (String ((Ascii (true,
    false, true, false, false, false, true, false)), (String ((Ascii (false,
    false, true, true, false, false, true, false)), (String ((Ascii (true,
    false, true, false, false, false, true, false)), (String ((Ascii (false,
    false, true, false, true, false, true, false)), (String ((Ascii (true,
    false, true, false, false, false, true, false)),
    EmptyString)))))))))))))))))))))))))))))))))), (String ((Ascii (false,
    false, true, true, false, false, true, false)),
    EmptyString)))) :: []))) :: [])) :: (((String ((Ascii (true, true, false,
    false, true, true, true, false)), (String ((Ascii (false, false, true,
    false, true, true, true, false)), (String ((Ascii (true, false, false,
    false, false, true, true, false)), (String ((Ascii (false, false, true,
    false, true, true, true, false)), (String ((Ascii (true, false, true,
    false, false, true, true, false)), (String ((Ascii (false, false, true,
    false, false, false, true, false)), (String ((Ascii (true, false, true,
    false, false, false, true, false)), (String ((Ascii (false, false, true,
    true, false, false, true, false)), EmptyString)))))))))))))))), ((SIf
    ((CByte (Npos (XI (XO (XI (XO (XO (XO XH)))))))), ((SSetStep
    st_stateDELE) :: (SRetNil :: [])), ((SRetErr ((String ((Ascii (true,
    false, false, true, false, true, true, false)), (String ((Ascii (false,
    true, true, true, false, true, true, false)), (String ((Ascii (false,
    false, false, false, false, true, false, false)), (String ((Ascii (true,
    true, false, true, false, true, true, false)), (String ((Ascii (true,
    false, true, false, false, true, true, false)), (String ((Ascii (true,
    false, false, true, true, true, true, false)), (String ((Ascii (true,
    true, true, false, true, true, true, false)), (String ((Ascii (true,
    true, true, true, false, true, true, false)), (String ((Ascii (false,
    true, false, false, true, true, true, false)), (String ((Ascii (false,
    false, true, false, false, true, true, false)), (String ((Ascii (false,
    false, false, false, false, true, false, false)), (String ((Ascii (false,
    false, true, false, false, false, true, false)), (String ((Ascii (true,
    false, true, false, false, false, true, false)), (String ((Ascii (false,
    false, true, true, false, false, true, false)), (String ((Ascii (true,
    false, true, false, false, false, true, false)), (String ((Ascii (false,
    false, true, false, true, false, true, false)), (String ((Ascii (true,
    false, true, false, false, false, true, false)),
    EmptyString)))))))))))))))))))))))))))))))))), (String ((Ascii (true,
    false, true, false, false, false, true, false)),
    EmptyString)))) :: []))) :: [])) :: (((String ((Ascii (true, true, false,
    false, true, true, true, false)), (String ((Ascii (false, false, true,
    false, true, true, true, false)), (String ((Ascii (true, false, false,
    false, false, true, true, false)), (String ((Ascii (false, false, true,
    false, true, true, true, false)), (String ((Ascii (true, false, true,
    false, false, true, true, false)), (String ((Ascii (false, false, true,
    false, false, false, true, false)), (String ((Ascii (true, false, true,
    false, false, false, true, false)), (String ((Ascii (false, false, true,
    true, false, false, true, false)), (String ((Ascii (true, false, true,
    false, false, false, true, false)), EmptyString)))))))))))))))))), ((SIf
    ((CByte (Npos (XO (XO (XI (XO (XI (XO XH)))))))), ((SSetStep
    st_stateDELET) :: (SRetNil :: [])), ((SRetErr ((String ((Ascii (true,
    false, false, true, false, true, true, false)), (String ((Ascii (false,
    true, true, true, false, true, true, false)), (String ((Ascii (false,
    false, false, false, false, true, false, false)), (String ((Ascii (true,
    true, false, true, false, true, true, false)), (String ((Ascii (true,
    false, true, false, false, true, true, false)), (String ((Ascii (true,
    false, false, true, true, true, true, false)), (String ((Ascii (true,
    true, true, false, true, true, true, false)), (String ((Ascii (true,
    true, true, true, false, true, true, false)), (String ((Ascii (false,
    true, false, false, true, true, true, false)), (String ((Ascii (false,
    false, true, false, false, true, true, false)), (String ((Ascii (false,
    false, false, false, false, true, false, false)), (String ((Ascii (false,
    false, true, false, false, false, true, false)), (String ((Ascii (true,
    false, true, false, false, false, true, false)), (String ((Ascii (false,
    false, true, true, false, false, true, false)), (String ((Ascii (true,
    false, true, false, false, false, true, false)), (String ((Ascii (false,
    false, true, false, true, false, true, false)), (String ((Ascii (true,
    false, true, false, false, false, true, false)),
    EmptyString)))))))))))))))))))))))))))))))))), (String ((Ascii (false,
    false, true, false, true, false, true, false)),
    EmptyString)))) :: []))) :: [])) :: (((String ((Ascii (true, true, false,
    false, true, true, true, false)), (String ((Ascii (false, false, true,
    false, true, true, true, false)), (String ((Ascii (true, false, false,
    false, false, true, true, false)), (String ((Ascii (false, false, true,
    false, true, true, true, false)), (String ((Ascii (true, false, true,
    false, false, true, true, false)), (String ((Ascii (false, false, true,
    false, false, false, true, false)), (String ((Ascii (true, false, true,
    false, false, false, true, false)), (String ((Ascii (false, false, true,
    true, false, false, true, false)), (String ((Ascii (true, false, true,
    false, false, false, true, false)), (String ((Ascii (false, false, true,
    false, true, false, true, false)), EmptyString)))))))))))))))))))), ((SIf
    ((CByte (Npos (XI (XO (XI (XO (XO (XO XH)))))))), ((SFound (KeywordEnd,
    Z0)) :: ((SPush st_stateExpectKeyword) :: ((SSetStep
    st_stateParameterOrAnnotation) :: (SRetNil :: [])))), ((SRetErr ((String
    ((Ascii (true, false, false, true, false, true, true, false)), (String
    ((Ascii (false, true, true, true, false, true, true, false)), (String
    ((Ascii (false, false, false, false, false, true, false, false)), (String
    ((Ascii (true, true, false, true, false, true, true, false)), (String
    ((Ascii (true, false, true, false, false, true, true, false)), (String
    ((Ascii (true, false, false, true, true, true, true, false)), (String
    ((Ascii (true, true, true, false, true, true, true, false)), (String
    ((Ascii (true, true, true, true, false, true, true, false)), (String
    ((Ascii (false, true, false, false, true, true, true, false)), (String
    ((Ascii (false, false, true, false, false, true, true, false)), (String
    ((Ascii (false, false, false, false, false, true, false, false)), (String
    ((Ascii (false, false, true, false, false, false, true, false)), (String
    ((Ascii (true, false, true, false, false, false, true, false)), (String
    ((Ascii (false, false, true, true, false, false, true, false)), (String
    ((Ascii (true, false, true, false, false, false, true, false)), (String
    ((Ascii (false, false, true, false, true, false, true, false)), (String
    ((Ascii (true, false, true, false, false, false, true, false)),
    EmptyString)))))))))))))))))))))))))))))))))), (String ((Ascii (true,
    false, true, false, false, false, true, false)),
    EmptyString)))) :: []))) :: [])) :: (((String ((Ascii (true, true, false,
    false, true, true, true, false)), (String ((Ascii (false, false, true,
    false, true, true, true, false)), (String ((Ascii (true, false, false,
    false, false, true, true, false)), (String ((Ascii (false, false, true,
    false, true, true, true, false)), (String ((Ascii (true, false, true,
    false, false, true, true, false)), (String ((Ascii (false, false, true,
    false, false, false, true, false)), (String ((Ascii (true, false, true,
    false, false, true, true, false)), EmptyString)))))))))))))), ((SIf
    ((CByte (Npos (XI (XI (XO (XO (XI (XI XH)))))))), ((SSetStep
    st_stateDes) :: (SRetNil :: [])), ((SRetErr ((String ((Ascii (true,
    false, false, true, false, true, true, false)), (String ((Ascii (false,
    true, true, true, false, true, true, false)), (String ((Ascii (false,
    false, false, false, false, true, false, false)), (String ((Ascii (true,
    true, false, true, false, true, true, false)), (String ((Ascii (true,
    false, true, false, false, true, true, false)), (String ((Ascii (true,
    false, false, true, true, true, true, false)), (String ((Ascii (true,
    true, true, false, true, true, true, false)), (String ((Ascii (true,
    true, true, true, false, true, true, false)), (String ((Ascii (false,
    true, false, false, true, true, true, false)), (String ((Ascii (false,
    false, true, false, false, true, true, false)), (String ((Ascii (false,
    false, false, false, false, true, false, false)), (String ((Ascii (false,
    false, true, false, false, false, true, false)), (String ((Ascii (true,
    false, true, false, false, true, true, false)), (String ((Ascii (true,
    true, false, false, true, true, true, false)), (String ((Ascii (true,
    true, false, false, false, true, true, false)), (String ((Ascii (false,
    true, false, false, true, true, true, false)), (String ((Ascii (true,
    false, false, true, false, true, true, false)), (String ((Ascii (false,
    false, false, false, true, true, true, false)), (String ((Ascii (false,
    false, true, false, true, true, true, false)), (String ((Ascii (true,
    false, false, true, false, true, true, false)), (String ((Ascii (true,
    true, true, true, false, true, true, false)), (String ((Ascii (false,
    true, true, true, false, true, true, false)),
    EmptyString)))))))))))))))))))))))))))))))))))))))))))), (String ((Ascii
    (true, true, false, false, true, true, true, false)),
    EmptyString)))) :: []))) :: [])) :: (((String ((Ascii (true, true, false,
    false, true, true, true, false)), (String ((Ascii (false, false, true,
    false, true, true, true, false)), (String ((Ascii (true, false, false,
    false, false, true, true, false)), (String ((Ascii (false, false, true,
    false, true, true, true, false)), (String ((Ascii (true, false, true,
    false, false, true, true, false)), (String ((Ascii (false, false, true,
    false, false, false, true, false)), (String ((Ascii (true, false, true,
    false, false, true, true, false)), (String ((Ascii (true, true, false,
    false, true, true, true, false)), EmptyString)))))))))))))))), ((SIf
    ((CByte (Npos (XI (XI (XO (XO (XO (XI XH)))))))), ((SSetStep
    st_stateDesc) :: (SRetNil :: [])), ((SRetErr ((String ((Ascii (true,
    false, false, true, false, true, true, false)), (String ((Ascii (false,
    true, true, true, false, true, true, false)), (String ((Ascii (false,
    false, false, false, false, true, false, false)), (String ((Ascii (true,
    true, false, true, false, true, true, false)), (String ((Ascii (true,
    false, true, false, false, true, true, false)), (String ((Ascii (true,
    false, false, true, true, true, true, false)), (String ((Ascii (true,
    true, true, false, true, true, true, false)), (String ((Ascii (true,
    true, true, true, false, true, true, false)), (String ((Ascii (false,
    true, false, false, true, true, true, false)), (String ((Ascii (false,
    false, true, false, false, true, true, false)), (String ((Ascii (false,
    false, false, false, false, true, false, false)), (String ((Ascii (false,
    false, true, false, false, false, true, false)), (String ((Ascii (true,
    false, true, false, false, true, true, false)), (String ((Ascii (true,
    true, false, false, true, true, true, false)), (String ((Ascii (true,
    true, false, false, false, true, true, false)), (String ((Ascii (false,
    true, false, false, true, true, true, false)), (String ((Ascii (true,
    false, false, true, false, true, true, false)), (String ((Ascii (false,
    false, false, false, true, true, true, false)), (String ((Ascii (false,
    false, true, false, true, true, true, false)), (String ((Ascii (true,
    false, false, true, false, true, true, false)), (String ((Ascii (true,
    true, true, true, false, true, true, false)), (String ((Ascii (false,
    true, true, true, false, true, true, false)),
    EmptyString)))))))))))))))))))))))))))))))))))))))))))), (String ((Ascii
    (true, true, false, false, false, true, true, false)),
    EmptyString)))) :: []))) :: [])) :: (((String ((Ascii (true, true, false,
    false, true, true, true, false)), (String ((Ascii (false, false, true,
    false, true, true, true, false)), (String ((Ascii (true, false, false,
    false, false, true, true, false)), (String ((Ascii (false, false, true,
    false, true, true, true, false)), (String ((Ascii (true, false, true,
    false, false, true, true, false)), (String ((Ascii (false, false, true,
    false, false, false, true, false)), (String ((Ascii (true, false, true,
    false, false, true, true, false)), (String ((Ascii (true, true, false,
    false, true, true, true, false)), (String ((Ascii (true, true, false,
    false, false, true, true, false)), EmptyString)))))))))))))))))), ((SIf
    ((CByte (Npos (XO (XI (XO (XO (XI (XI XH)))))))), ((SSetStep
    st_stateDescr) :: (SRetNil :: [])), ((SRetErr ((String ((Ascii (true,
    false, false, true, false, true, true, false)), (String ((Ascii (false,
    true, true, true, false, true, true, false)), (String ((Ascii (false,
    false, false, false, false, true, false, false)), (String ((Ascii (true,
    true, false, true, false, true, true, false)), (String ((Ascii (true,
    false, true, false, false, true, true, false)), (String ((Ascii (true,
    false, false, true, true, true, true, false)), (String ((Ascii (true,
    true, true, false, true, true, true, false)), (String ((Ascii (true,
    true, true, true, false, true, true, false)), (String ((Ascii (false,
    true, false, false, true, true, true, false)), (String ((Ascii (false,
    false, true, false, false, true, true, false)), (String ((Ascii (false,
    false, false, false, false, true, false, false)), (String ((Ascii (false,
    false, true, false, false, false, true, false)), (String ((Ascii (true,
    false, true, false, false, true, true, false)), (String ((Ascii (true,
    true, false, false, true, true, true, false)), (String ((Ascii (true,
    true, false, false, false, true, true, false)), (String ((Ascii (false,
    true, false, false, true, true, true, false)), (String ((Ascii (true,
    false, false, true, false, true, true, false)), (String ((Ascii (false,
    false, false, false, true, true, true, false)), (String ((Ascii (false,
    false, true, false, true, true, true, false)), (String ((Ascii (true,
    false, false, true, false, true, true, false)), (String ((Ascii (true,
    true, true, true, false, true, true, false)), (String ((Ascii (false,
    true, true, true, false, true, true, false)),
    EmptyString)))))))))))))))))))))))))))))))))))))))))))), (String ((Ascii
    (false, true, false, false, true, true, true, false)),
    EmptyString)))) :: []))) :: [])) :: (((String ((Ascii (true, true, false,
    false, true, true, true, false)), (String ((Ascii (false, false, true,
    false, true, true, true, false)), (String ((Ascii (true, false, false,
    false, false, true, true, false)), (String ((Ascii (false, false, true,
    false, true, true, true, false)), (String ((Ascii (true, false, true,
    false, false, true, true, false)), (String ((Ascii (false, false, true,
    false, false, false, true, false)), (String ((Ascii (true, false, true,
    false, false, true, true, false)), (String ((Ascii (true, true, false,
    false, true, true, true, false)), (String ((Ascii (true, true, false,
    false, false, true, true, false)), (String ((Ascii (false, true, false,
    false, true, true, true, false)), EmptyString)))))))))))))))))))), ((SIf
    ((CByte (Npos (XI (XO (XO (XI (XO (XI XH)))))))), ((SSetStep
    st_stateDescri) :: (SRetNil :: [])), ((SRetErr ((String ((Ascii (true,
    false, false, true, false, true, true, false)), (String ((Ascii (false,
    true, true, true, false, true, true, false)), (String ((Ascii (false,
    false, false, false, false, true, false, false)), (String ((Ascii (true,
    true, false, true, false, true, true, false)), (String ((Ascii (true,
    false, true, false, false, true, true, false)), (String ((Ascii (true,
    false, false, true, true, true, true, false)), (String ((Ascii (true,
    true, true, false, true, true, true, false)), (String ((Ascii (true,
    true, true, true, false, true, true, false)), (String ((Ascii (false,
    true, false, false, true, true, true, false)), (String ((Ascii (false,
    false, true, false, false, true, true, false)), (String ((Ascii (false,
    false, false, false, false, true, false, false)), (String ((Ascii (false,
    false, true, false, false, false, true, false)), (String ((Ascii (true,
    false, true, false, false, true, true, false)), (String ((Ascii (true,
    true, false, false, true, true, true, false)), (String ((Ascii (true,
    true, false, false, false, true, true, false)), (String ((Ascii (false,
    true, false, false, true, true, true, false)), (String ((Ascii (true,
    false, false, true, false, true, true, false)), (String ((Ascii (false,
    false, false, false, true, true, true, false)), (String ((Ascii (false,
    false, true, false, true, true, true, false)), (String ((Ascii (true,
    false, false, true, false, true, true, false)), (String ((Ascii (true,
    true, true, true, false, true, true, false)), (String ((Ascii (false,
    true, true, true, false, true, true, false)),
    EmptyString)))))))))))))))))))))))))))))))))))))))))))), (String ((Ascii
    (true, false, false, true, false, true, true, false)),
    EmptyString)))) :: []))) :: [])) :: (((String ((Ascii (true, true, false,
    false, true, true, true, false)), (String ((Ascii (false, false, true,
    false, true, true, true, false)), (String ((Ascii (true, false, false,
    false, false, true, true, false)), (String ((Ascii (false, false, true,
    false, true, true, true, false)), (String ((Ascii (true, false, true,
    false, false, true, true, false)), (String ((Ascii (false, false, true,
    false, false, false, true, false)), (String ((Ascii (true, false, true,
    false, false, true, true, false)), (String ((Ascii (true, true, false,
    false, true, true, true, false)), (String ((Ascii (true, true, false,
    false, false, true, true, false)), (String ((Ascii (false, true, false,
    false, true, true, true, false)), (String ((Ascii (true, false, false,
    true, false, true, true, false)), EmptyString)))))))))))))))))))))),
    ((SIf ((CByte (Npos (XO (XO (XO (XO (XI (XI XH)))))))), ((SSetStep
    st_stateDescrip) :: (SRetNil :: [])), ((SRetErr ((String ((Ascii (true,
    false, false, true, false, true, true, false)), (String ((Ascii (false,
    true, true, true, false, true, true, false)), (String ((Ascii (false,
    false, false, false, false, true, false, false)), (String ((Ascii (true,
    true, false, true, false, true, true, false)), (String ((Ascii (true,
    false, true, false, false, true, true, false)), (String ((Ascii (true,
    false, false, true, true, true, true, false)), (String ((Ascii (true,
    true, true, false, true, true, true, false)), (String ((Ascii (true,
    true, true, true, false, true, true, false)), (String ((Ascii (false,
    true, false, false, true, true, true, false)), (String ((Ascii (false,
    false, true, false, false, true, true, false)), (String ((Ascii (false,
    false, false, false, false, true, false, false)), (String ((Ascii (false,
    false, true, false, false, false, true, false)), (String ((Ascii (true,
    false, true, false, false, true, true, false)), (String ((Ascii (true,
    true, false, false, true, true, true, false)), (String ((Ascii (true,
    true, false, false, false, true, true, false)), (String ((Ascii (false,
    true, false, false, true, true, true, false)), (String ((Ascii (true,
    false, false, true, false, true, true, false)), (String ((Ascii (false,
    false, false, false, true, true, true, false)), (String ((Ascii (false,
    false, true, false, true, true, true, false)), (String ((Ascii (true,
    false, false, true, false, true, true, false)), (String ((Ascii (true,
    true, true, true, false, true, true, false)), (String ((Ascii (false,
    true, true, true, false, true, true, false)),
    EmptyString)))))))))))))))))))))))))))))))))))))))))))), (String ((Ascii
    (false, false, false, false, true, true, true, false)),
    EmptyString)))) :: []))) :: [])) :: (((String ((Ascii (true, true, false,
    false, true, true, true, false)), (String ((Ascii (false, false, true,
    false, true, true, true, false)), (String ((Ascii (true, false, false,
    false, false, true, true, false)), (String ((Ascii (false, false, true,
    false, true, true, true, false)), (String ((Ascii (true, false, true,
    false, false, true, true, false)), (String ((Ascii (false, false, true,
    false, false, false, true, false)), (String ((Ascii (true, false, true,
    false, false, true, true, false)), (String ((Ascii (true, true, false,
    false, true, true, true, false)), (String ((Ascii (true, true, false,
    false, false, true, true, false)), (String ((Ascii (false, true, false,
    false, true, true, true, false)), (String ((Ascii (true, false, false,
    true, false, true, true, false)), (String ((Ascii (false, false, false,
    false, true, true, true, false)), EmptyString)))))))))))))))))))))))),
    ((SIf ((CByte (Npos (XO (XO (XI (XO (XI (XI XH)))))))), ((SSetStep
    st_stateDescript) :: (SRetNil :: [])), ((SRetErr ((String ((Ascii (true,
    false, false, true, false, true, true, false)), (String ((Ascii (false,
    true, true, true, false, true, true, false)), (String ((Ascii (false,
    false, false, false, false, true, false, false)), (String ((Ascii (true,
    true, false, true, false, true, true, false)), (String ((Ascii (true,
    false, true, false, false, true, true, false)), (String ((Ascii (true,
    false, false, true, true, true, true, false)), (String ((Ascii (true,
    true, true, false, true, true, true, false)), (String ((Ascii (true,
    true, true, true, false, true, true, false)), (String ((Ascii (false,
    true, false, false, true, true, true, false)), (String ((Ascii (false,
    false, true, false, false, true, true, false)), (String ((Ascii (false,
    false, false, false, false, true, false, false)), (String ((Ascii (false,
    false, true, false, false, false, true, false)), (String ((Ascii (true,
    false, true, false, false, true, true, false)), (String ((Ascii (true,
    true, false, false, true, true, true, false)), (String ((Ascii (true,
    true, false, false, false, true, true, false)), (String ((Ascii (false,
    true, false, false, true, true, true, false)), (String ((Ascii (true,
    false, false, true, false, true, true, false)), (String ((Ascii (false,
    false, false, false, true, true, true, false)), (String ((Ascii (false,
    false, true, false, true, true, true, false)), (String ((Ascii (true,
    false, false, true, false, true, true, false)), (String ((Ascii (true,
    true, true, true, false, true, true, false)), (String ((Ascii (false,
    true, true, true, false, true, true, false)),
    EmptyString)))))))))))))))))))))))))))))))))))))))))))), (String ((Ascii
    (false, false, true, false, true, true, true, false)),
    EmptyString)))) :: []))) :: [])) :: (((String ((Ascii (true, true, false,
    false, true, true, true, false)), (String ((Ascii (false, false, true,
    false, true, true, true, false)), (String ((Ascii (true, false, false,
    false, false, true, true, false)), (String ((Ascii (false, false, true,
    false, true, true, true, false)), (String ((Ascii (true, false, true,
    false, false, true, true, false)), (String ((Ascii (false, false, true,
    false, false, false, true, false)), (String ((Ascii (true, false, true,
    false, false, true, true, false)), (String ((Ascii (true, true, false,
    false, true, true, true, false)), (String ((Ascii (true, true, false,
    false, false, true, true, false)), (String ((Ascii (false, true, false,
    false, true, true, true, false)), (String ((Ascii (true, false, false,
    true, false, true, true, false)), (String ((Ascii (false, false, false,
    false, true, true, true, false)), (String ((Ascii (false, false, true,
    false, true, true, true, false)), EmptyString)))))))))))))))))))))))))),
    ((SIf ((CByte (Npos (XI (XO (XO (XI (XO (XI XH)))))))), ((SSetStep
    st_stateDescripti) :: (SRetNil :: [])), ((SRetErr ((String ((Ascii (true,
    false, false, true, false, true, true, false)), (String ((Ascii (false,
    true, true, true, false, true, true, false)), (String ((Ascii (false,
    false, false, false, false, true, false, false)), (String ((Ascii (true,
    true, false, true, false, true, true, false)), (String ((Ascii (true,
    false, true, false, false, true, true, false)), (String ((Ascii (true,
    false, false, true, true, true, true, false)), (String ((Ascii (true,
    true, true, false, true, true, true, false)), (String ((Ascii (true,
    true, true, true, false, true, true, false)), (String ((Ascii (false,
    true, false, false, true, true, true, false)), (String ((Ascii (false,
    false, true, false, false, true, true, false)), (String ((Ascii (false,
    false, false, false, false, true, false, false)), (String ((Ascii (false,
    false, true, false, false, false, true, false)), (String ((Ascii (true,
    false, true, false, false, true, true, false)), (String ((Ascii (true,
    true, false, false, true, true, true, false)), (String ((Ascii (true,
    true, false, false, false, true, true, false)), (String ((Ascii (false,
    true, false, false, true, true, true, false)), (String ((Ascii (true,
    false, false, true, false, true, true, false)), (String ((Ascii (false,
    false, false, false, true, true, true, false)), (String ((Ascii (false,
    false, true, false, true, true, true, false)), (String ((Ascii (true,
    false, false, true, false, true, true, false)), (String ((Ascii (true,
    true, true, true, false, true, true, false)), (String ((Ascii (false,
    true, true, true, false, true, true, false)),
    EmptyString)))))))))))))))))))))))))))))))))))))))))))), (String ((Ascii
    (true, false, false, true, false, true, true, false)),
    EmptyString)))) :: []))) :: [])) :: (((String ((Ascii (true, true, false,
    false, true, true, true, false)), (String ((Ascii (false, false, true,
    false, true, true, true, false)), (String ((Ascii (true, false, false,
    false, false, true, true, false)), (String ((Ascii (false, false, true,
    false, true, true, true, false)), (String ((Ascii (true, false, true,
    false, false, true, true, false)), (String ((Ascii (false, false, true,
    false, false, false, true, false)), (String ((Ascii (true, false, true,
    false, false, true, true, false)), (String ((Ascii (true, true, false,
    false, true, true, true, false)), (String ((Ascii (true, true, false,
    false, false, true, true, false)), (String ((Ascii (false, true, false,
    false, true, true, true, false)), (String ((Ascii (true, false, false,
    true, false, true, true, false)), (String ((Ascii (false, false, false,
    false, true, true, true, false)), (String ((Ascii (false, false, true,
    false, true, true, true, false)), (String ((Ascii (true, false, false,
    true, false, true, true, false)),
    EmptyString)))))))))))))))))))))))))))), ((SIf ((CByte (Npos (XI (XI (XI
    (XI (XO (XI XH)))))))), ((SSetStep
    st_stateDescriptio) :: (SRetNil :: [])), ((SRetErr ((String ((Ascii
    (true, false, false, true, false, true, true, false)), (String ((Ascii
    (false, true, true, true, false, true, true, false)), (String ((Ascii
    (false, false, false, false, false, true, false, false)), (String ((Ascii
    (true, true, false, true, false, true, true, false)), (String ((Ascii
    (true, false, true, false, false, true, true, false)), (String ((Ascii
    (true, false, false, true, true, true, true, false)), (String ((Ascii
    (true, true, true, false, true, true, true, false)), (String ((Ascii
    (true, true, true, true, false, true, true, false)), (String ((Ascii
    (false, true, false, false, true, true, true, false)), (String ((Ascii
    (false, false, true, false, false, true, true, false)), (String ((Ascii
    (false, false, false, false, false, true, false, false)), (String ((Ascii
    (false, false, true, false, false, false, true, false)), (String ((Ascii
    (true, false, true, false, false, true, true, false)), (String ((Ascii
    (true, true, false, false, true, true, true, false)), (String ((Ascii
    (true, true, false, false, false, true, true, false)), (String ((Ascii
    (false, true, false, false, true, true, true, false)), (String ((Ascii
    (true, false, false, true, false, true, true, false)), (String ((Ascii
    (false, false, false, false, true, true, true, false)), (String ((Ascii
    (false, false, true, false, true, true, true, false)), (String ((Ascii
    (true, false, false, true, false, true, true, false)), (String ((Ascii
    (true, true, true, true, false, true, true, false)), (String ((Ascii
    (false, true, true, true, false, true, true, false)),
    EmptyString)))))))))))))))))))))))))))))))))))))))))))), (String ((Ascii
    (true, true, true, true, false, true, true, false)),
    EmptyString)))) :: []))) :: [])) :: (((String ((Ascii (true, true, false,
    false, true, true, true, false)), (String ((Ascii (false, false, true,
    false, true, true, true, false)), (String ((Ascii (true, false, false,
    false, false, true, true, false)), (String ((Ascii (false, false, true,
    false, true, true, true, false)), (String ((Ascii (true, false, true,
    false, false, true, true, false)), (String ((Ascii (false, false, true,
    false, false, false, true, false)), (String ((Ascii (true, false, true,
    false, false, true, true, false)), (String ((Ascii (true, true, false,
    false, true, true, true, false)), (String ((Ascii (true, true, false,
    false, false, true, true, false)), (String ((Ascii (false, true, false,
    false, true, true, true, false)), (String ((Ascii (true, false, false,
    true, false, true, true, false)), (String ((Ascii (false, false, false,
    false, true, true, true, false)), (String ((Ascii (false, false, true,
    false, true, true, true, false)), (String ((Ascii (true, false, false,
    true, false, true, true, false)), (String ((Ascii (true, true, true,
    true, false, true, true, false)),
    EmptyString)))))))))))))))))))))))))))))), ((SIf ((CByte (Npos (XO (XI
    (XI (XI (XO (XI XH)))))))), ((SFound (KeywordEnd, Z0)) :: ((SPush
    st_stateDescriptionTextBeginStarter) :: ((SSetStep
    st_stateParameterOrAnnotation) :: (SRetNil :: [])))), ((SRetErr ((String
    ((Ascii (true, false, false, true, false, true, true, false)), (String
    ((Ascii (false, true, true, true, false, true, true, false)), (String
    ((Ascii (false, false, false, false, false, true, false, false)), (String
    ((Ascii (true, true, false, true, false, true, true, false)), (String
    ((Ascii (true, false, true, false, false, true, true, false)), (String
    ((Ascii (true, false, false, true, true, true, true, false)), (String
    ((Ascii (true, true, true, false, true, true, true, false)), (String
    ((Ascii (true, true, true, true, false, true, true, false)), (String
    ((Ascii (false, true, false, false, true, true, true, false)), (String
    ((Ascii (false, false, true, false, false, true, true, false)), (String
    ((Ascii (false, false, false, false, false, true, false, false)), (String
    ((Ascii (false, false, true, false, false, false, true, false)), (String
    ((Ascii (true, false, true, false, false, true, true, false)), (String
    ((Ascii (true, true, false, false, true, true, true, false)), (String
    ((Ascii (true, true, false, false, false, true, true, false)), (String
    ((Ascii (false, true, false, false, true, true, true, false)), (String
    ((Ascii (true, false, false, true, false, true, true, false)), (String
    ((Ascii (false, false, false, false, true, true, true, false)), (String
    ((Ascii (false, false, true, false, true, true, true, false)), (String
    ((Ascii (true, false, false, true, false, true, true, false)), (String
    ((Ascii (true, true, true, true, false, true, true, false)), (String
    ((Ascii (false, true, true, true, false, true, true, false)),
    EmptyString)))))))))))))))))))))))))))))))))))))))))))), (String ((Ascii
    (false, true, true, true, false, true, true, false)),
    EmptyString)))) :: []))) :: [])) :: (((String ((Ascii (true, true, false,
    false, true, true, true, false)), (String ((Ascii (false, false, true,
    false, true, true, true, false)), (String ((Ascii (true, false, false,
    false, false, true, true, false)), (String ((Ascii (false, false, true,
    false, true, true, true, false)), (String ((Ascii (true, false, true,
    false, false, true, true, false)), (String ((Ascii (false, false, true,
    false, false, false, true, false)), (String ((Ascii (true, false, true,
    false, false, true, true, false)), (String ((Ascii (true, true, false,
    false, true, true, true, false)), (String ((Ascii (true, true, false,
    false, false, true, true, false)), (String ((Ascii (false, true, false,
    false, true, true, true, false)), (String ((Ascii (true, false, false,
    true, false, true, true, false)), (String ((Ascii (false, false, false,
    false, true, true, true, false)), (String ((Ascii (false, false, true,
    false, true, true, true, false)), (String ((Ascii (true, false, false,
    true, false, true, true, false)), (String ((Ascii (true, true, true,
    true, false, true, true, false)), (String ((Ascii (false, true, true,
    true, false, true, true, false)), (String ((Ascii (false, false, true,
    false, true, false, true, false)), (String ((Ascii (true, false, true,
    false, false, true, true, false)), (String ((Ascii (false, false, false,
    true, true, true, true, false)), (String ((Ascii (false, false, true,
    false, true, true, true, false)),
    EmptyString)))))))))))))))))))))))))))))))))))))))), ((SIf (CNewLine,
    ((SSetStep st_stateDescriptionTextNewline) :: (SRetNil :: [])), ((SIf
    ((CByte N0), ((SFound (TextEnd, (Zneg XH))) :: (SRetNil :: [])),
    (SRetNil :: []))) :: []))) :: [])) :: (((String ((Ascii (true, true,
    false, false, true, true, true, false)), (String ((Ascii (false, false,
    true, false, true, true, true, false)), (String ((Ascii (true, false,
    false, false, false, true, true, false)), (String ((Ascii (false, false,
    true, false, true, true, true, false)), (String ((Ascii (true, false,
    true, false, false, true, true, false)), (String ((Ascii (false, false,
    true, false, false, false, true, false)), (String ((Ascii (true, false,
    true, false, false, true, true, false)), (String ((Ascii (true, true,
    false, false, true, true, true, false)), (String ((Ascii (true, true,
    false, false, false, true, true, false)), (String ((Ascii (false, true,
    false, false, true, true, true, false)), (String ((Ascii (true, false,
    false, true, false, true, true, false)), (String ((Ascii (false, false,
    false, false, true, true, true, false)), (String ((Ascii (false, false,
    true, false, true, true, true, false)), (String ((Ascii (true, false,
    false, true, false, true, true, false)), (String ((Ascii (true, true,
    true, true, false, true, true, false)), (String ((Ascii (false, true,
    true, true, false, true, true, false)), (String ((Ascii (false, false,
    true, false, true, false, true, false)), (String ((Ascii (true, false,
    true, false, false, true, true, false)), (String ((Ascii (false, false,
    false, true, true, true, true, false)), (String ((Ascii (false, false,
    true, false, true, true, true, false)), (String ((Ascii (false, true,
    false, false, false, false, true, false)), (String ((Ascii (true, false,
    true, false, false, true, true, false)), (String ((Ascii (true, true,
    true, false, false, true, true, false)), (String ((Ascii (true, false,
    false, true, false, true, true, false)), (String ((Ascii (false, true,
    true, true, false, true, true, false)),
    EmptyString)))))))))))))))))))))))))))))))))))))))))))))))))), ((SIf
    ((COr (CNewLine, CWhitespace)), (SRetNil :: []), ((SIf ((CByte N0),
    ((SFound (TextEnd, (Zneg XH))) :: (SRetNil :: [])), ((SIf ((CByte (Npos
    (XO (XO (XO (XI (XO XH))))))), ((SSetStep
    st_stateDescriptionTextBracketsInner) :: (SRetNil :: [])), ((SSetStep
    st_stateDescriptionTextNewline) :: ((SRetCall
    st_stateDescriptionTextNewline) :: [])))) :: []))) :: []))) :: [])) :: (((String
    ((Ascii (true, true, false, false, true, true, true, false)), (String
    ((Ascii (false, false, true, false, true, true, true, false)), (String
    ((Ascii (true, false, false, false, false, true, true, false)), (String
    ((Ascii (false, false, true, false, true, true, true, false)), (String
    ((Ascii (true, false, true, false, false, true, true, false)), (String
    ((Ascii (false, false, true, false, false, false, true, false)), (String
    ((Ascii (true, false, true, false, false, true, true, false)), (String
    ((Ascii (true, true, false, false, true, true, true, false)), (String
    ((Ascii (true, true, false, false, false, true, true, false)), (String
    ((Ascii (false, true, false, false, true, true, true, false)), (String
    ((Ascii (true, false, false, true, false, true, true, false)), (String
    ((Ascii (false, false, false, false, true, true, true, false)), (String
    ((Ascii (false, false, true, false, true, true, true, false)), (String
    ((Ascii (true, false, false, true, false, true, true, false)), (String
    ((Ascii (true, true, true, true, false, true, true, false)), (String
    ((Ascii (false, true, true, true, false, true, true, false)), (String
    ((Ascii (false, false, true, false, true, false, true, false)), (String
    ((Ascii (true, false, true, false, false, true, true, false)), (String
    ((Ascii (false, false, false, true, true, true, true, false)), (String
    ((Ascii (false, false, true, false, true, true, true, false)), (String
    ((Ascii (false, true, false, false, false, false, true, false)), (String
    ((Ascii (true, false, true, false, false, true, true, false)), (String
    ((Ascii (true, true, true, false, false, true, true, false)), (String
    ((Ascii (true, false, false, true, false, true, true, false)), (String
    ((Ascii (false, true, true, true, false, true, true, false)), (String
    ((Ascii (true, true, false, false, true, false, true, false)), (String
    ((Ascii (false, false, true, false, true, true, true, false)), (String
    ((Ascii (true, false, false, false, false, true, true, false)), (String
    ((Ascii (false, true, false, false, true, true, true, false)), (String
    ((Ascii (false, false, true, false, true, true, true, false)), (String
    ((Ascii (true, false, true, false, false, true, true, false)), (String
    ((Ascii (false, true, false, false, true, true, true, false)),
    EmptyString)))))))))))))))))))))))))))))))))))))))))))))))))))))))))))))))),
    ((SFound (TextBegin, Z0)) :: ((SSetStep
    st_stateDescriptionTextBegin) :: ((SRetCall
    st_stateDescriptionTextBegin) :: [])))) :: (((String ((Ascii (true, true,
    false, false, true, true, true, false)), (String ((Ascii (false, false,
    true, false, true, true, true, false)), (String ((Ascii (true, false,
    false, false, false, true, true, false)), (String ((Ascii (false, false,
    true, false, true, true, true, false)), (String ((Ascii (true, false,
    true, false, false, true, true, false)), (String ((Ascii (false, false,
    true, false, false, false, true, false)), (String ((Ascii (true, false,
    true, false, false, true, true, false)), (String ((Ascii (true, true,
    false, false, true, true, true, false)), (String ((Ascii (true, true,
    false, false, false, true, true, false)), (String ((Ascii (false, true,
    false, false, true, true, true, false)), (String ((Ascii (true, false,
    false, true, false, true, true, false)), (String ((Ascii (false, false,
    false, false, true, true, true, false)), (String ((Ascii (false, false,
    true, false, true, true, true, false)), (String ((Ascii (true, false,
    false, true, false, true, true, false)), (String ((Ascii (true, true,
    true, true, false, true, true, false)), (String ((Ascii (false, true,
    true, true, false, true, true, false)), (String ((Ascii (false, false,
    true, false, true, false, true, false)), (String ((Ascii (true, false,
    true, false, false, true, true, false)), (String ((Ascii (false, false,
    false, true, true, true, true, false)), (String ((Ascii (false, false,
    true, false, true, true, true, false)), (String ((Ascii (false, true,
    false, false, false, false, true, false)), (String ((Ascii (false, true,
    false, false, true, true, true, false)), (String ((Ascii (true, false,
    false, false, false, true, true, false)), (String ((Ascii (true, true,
    false, false, false, true, true, false)), (String ((Ascii (true, true,
    false, true, false, true, true, false)), (String ((Ascii (true, false,
    true, false, false, true, true, false)), (String ((Ascii (false, false,
    true, false, true, true, true, false)), (String ((Ascii (true, true,
    false, false, true, true, true, false)), (String ((Ascii (true, false,
    false, true, false, false, true, false)), (String ((Ascii (false, true,
    true, true, false, true, true, false)), (String ((Ascii (false, true,
    true, true, false, true, true, false)), (String ((Ascii (true, false,
    true, false, false, true, true, false)), (String ((Ascii (false, true,
    false, false, true, true, true, false)),
    EmptyString)))))))))))))))))))))))))))))))))))))))))))))))))))))))))))))))))),
    ((SIf (CNewLine, ((SSetStep
    st_stateDescriptionTextBracketsInnerNewLine) :: []),
    [])) :: (SRetNil :: []))) :: (((String ((Ascii (true, true, false, false,
    true, true, true, false)), (String ((Ascii (false, false, true, false,
    true, true, true, false)), (String ((Ascii (true, false, false, false,
    false, true, true, false)), (String ((Ascii (false, false, true, false,
    true, true, true, false)), (String ((Ascii (true, false, true, false,
    false, true, true, false)), (String ((Ascii (false, false, true, false,
    false, false, true, false)), (String ((Ascii (true, false, true, false,
    false, true, true, false)), (String ((Ascii (true, true, false, false,
    true, true, true, false)), (String ((Ascii (true, true, false, false,
    false, true, true, false)), (String ((Ascii (false, true, false, false,
    true, true, true, false)), (String ((Ascii (true, false, false, true,
    false, true, true, false)), (String ((Ascii (false, false, false, false,
    true, true, true, false)), (String ((Ascii (false, false, true, false,
    true, true, true, false)), (String ((Ascii (true, false, false, true,
    false, true, true, false)), (String ((Ascii (true, true, true, true,
    false, true, true, false)), (String ((Ascii (false, true, true, true,
    false, true, true, false)), (String ((Ascii (false, false, true, false,
    true, false, true, false)), (String ((Ascii (true, false, true, false,
    false, true, true, false)), (String ((Ascii (false, false, false, true,
    true, true, true, false)), (String ((Ascii (false, false, true, false,
    true, true, true, false)), (String ((Ascii (false, true, false, false,
    false, false, true, false)), (String ((Ascii (false, true, false, false,
    true, true, true, false)), (String ((Ascii (true, false, false, false,
    false, true, true, false)), (String ((Ascii (true, true, false, false,
    false, true, true, false)), (String ((Ascii (true, true, false, true,
    false, true, true, false)), (String ((Ascii (true, false, true, false,
    false, true, true, false)), (String ((Ascii (false, false, true, false,
    true, true, true, false)), (String ((Ascii (true, true, false, false,
    true, true, true, false)), (String ((Ascii (true, false, false, true,
    false, false, true, false)), (String ((Ascii (false, true, true, true,
    false, true, true, false)), (String ((Ascii (false, true, true, true,
    false, true, true, false)), (String ((Ascii (true, false, true, false,
    false, true, true, false)), (String ((Ascii (false, true, false, false,
    true, true, true, false)), (String ((Ascii (false, true, true, true,
    false, false, true, false)), (String ((Ascii (true, false, true, false,
    false, true, true, false)), (String ((Ascii (true, true, true, false,
    true, true, true, false)), (String ((Ascii (false, false, true, true,
    false, false, true, false)), (String ((Ascii (true, false, false, true,
    false, true, true, false)), (String ((Ascii (false, true, true, true,
    false, true, true, false)), (String ((Ascii (true, false, true, false,
    false, true, true, false)),
    EmptyString)))))))))))))))))))))))))))))))))))))))))))))))))))))))))))))))))))))))))))))))),
    ((SIf ((COr (CWhitespace, CNewLine)), (SRetNil :: []), ((SIf ((CByte
    (Npos (XI (XO (XO (XI (XO XH))))))), ((SFound (TextEnd,
    Z0)) :: ((SSetStep st_stateExpectKeyword) :: (SRetNil :: []))),
    ((SSetStep
    st_stateDescriptionTextBracketsInner) :: (SRetNil :: [])))) :: []))) :: [])) :: (((String
    ((Ascii (true, true, false, false, true, true, true, false)), (String
    ((Ascii (false, false, true, false, true, true, true, false)), (String
    ((Ascii (true, false, false, false, false, true, true, false)), (String
    ((Ascii (false, false, true, false, true, true, true, false)), (String
    ((Ascii (true, false, true, false, false, true, true, false)), (String
    ((Ascii (false, false, true, false, false, false, true, false)), (String
    ((Ascii (true, false, true, false, false, true, true, false)), (String
    ((Ascii (true, true, false, false, true, true, true, false)), (String
    ((Ascii (true, true, false, false, false, true, true, false)), (String
    ((Ascii (false, true, false, false, true, true, true, false)), (String
    ((Ascii (true, false, false, true, false, true, true, false)), (String
    ((Ascii (false, false, false, false, true, true, true, false)), (String
    ((Ascii (false, false, true, false, true, true, true, false)), (String
    ((Ascii (true, false, false, true, false, true, true, false)), (String
    ((Ascii (true, true, true, true, false, true, true, false)), (String
    ((Ascii (false, true, true, true, false, true, true, false)), (String
    ((Ascii (false, false, true, false, true, false, true, false)), (String
    ((Ascii (true, false, true, false, false, true, true, false)), (String
    ((Ascii (false, false, false, true, true, true, true, false)), (String
    ((Ascii (false, false, true, false, true, true, true, false)), (String
    ((Ascii (false, true, true, true, false, false, true, false)), (String
    ((Ascii (true, false, true, false, false, true, true, false)), (String
    ((Ascii (true, true, true, false, true, true, true, false)), (String
    ((Ascii (false, false, true, true, false, true, true, false)), (String
    ((Ascii (true, false, false, true, false, true, true, false)), (String
    ((Ascii (false, true, true, true, false, true, true, false)), (String
    ((Ascii (true, false, true, false, false, true, true, false)),
    EmptyString)))))))))))))))))))))))))))))))))))))))))))))))))))))), ((SIf
    ((COr (CWhitespace, CNewLine)), (SRetNil :: []), ((SIf ((CByte N0),
    ((SFound (TextEnd, (Zneg XH))) :: (SRetNil :: [])), ((SIf ((CCtx
    QIsDirective), ((SFound (TextEnd, (Zneg XH))) :: ((SSetStep
    st_stateExpectKeyword) :: ((SAddCur (Zneg XH)) :: (SRetNil :: [])))),
    ((SIf ((CByte (Npos (XI (XO (XO (XI (XO XH))))))), ((SFound (TextEnd,
    (Zneg XH))) :: ((SFound (ContextClose, Z0)) :: ((SSetStep
    st_stateExpectKeyword) :: (SRetNil :: [])))), ((SSetStep
    st_stateDescriptionText) :: (SRetNil :: [])))) :: []))) :: []))) :: []))) :: [])) :: (((String
    ((Ascii (true, true, false, false, true, true, true, false)), (String
    ((Ascii (false, false, true, false, true, true, true, false)), (String
    ((Ascii (true, false, false, false, false, true, true, false)), (String
    ((Ascii (false, false, true, false, true, true, true, false)), (String
    ((Ascii (true, false, true, false, false, true, true, false)), (String
    ((Ascii (true, false, true, false, false, false, true, false)),
    EmptyString)))))))))))), ((SIf ((CByte (Npos (XO (XI (XI (XI (XO (XO
    XH)))))))), ((SSetStep st_stateEN) :: (SRetNil :: [])), ((SRetErr
    ((String ((Ascii (true, false, false, true, false, true, true, false)),
    (String ((Ascii (false, true, true, true, false, true, true, false)),
    (String ((Ascii (false, false, false, false, false, true, false, false)),
    (String ((Ascii (true, true, false, true, false, true, true, false)),
    (String ((Ascii (true, false, true, false, false, true, true, false)),
    (String ((Ascii (true, false, false, true, true, true, true, false)),
    (String ((Ascii (true, true, true, false, true, true, true, false)),
    (String ((Ascii (true, true, true, true, false, true, true, false)),
    (String ((Ascii (false, true, false, false, true, true, true, false)),
    (String ((Ascii (false, false, true, false, false, true, true, false)),
    (String ((Ascii (false, false, false, false, false, true, false, false)),
    (String ((Ascii (true, false, true, false, false, false, true, false)),
    (String ((Ascii (false, true, true, true, false, false, true, false)),
    (String ((Ascii (true, false, true, false, true, false, true, false)),
    (String ((Ascii (true, false, true, true, false, false, true, false)),
    EmptyString)))))))))))))))))))))))))))))), (String ((Ascii (false, true,
    true, true, false, false, true, false)),
    EmptyString)))) :: []))) :: [])) :: (((String ((Ascii (true, true, false,
    false, true, true, true, false)), (String ((Ascii (false, false, true,
    false, true, true, true, false)), (String ((Ascii (true, false, false,
    false, false, true, true, false)), (String ((Ascii (false, false, true,
    false, true, true, true, false)), (String ((Ascii (true, false, true,
    false, false, true, true, false)), (String ((Ascii (true, false, true,
    false, false, false, true, false)), (String ((Ascii (false, true, true,
    true, false, false, true, false)), EmptyString)))))))))))))), ((SIf
    ((CByte (Npos (XI (XO (XI (XO (XI (XO XH)))))))), ((SSetStep
    st_stateENU) :: (SRetNil :: [])), ((SRetErr ((String ((Ascii (true,
    false, false, true, false, true, true, false)), (String ((Ascii (false,
    true, true, true, false, true, true, false)), (String ((Ascii (false,
    false, false, false, false, true, false, false)), (String ((Ascii (true,
    true, false, true, false, true, true, false)), (String ((Ascii (true,
    false, true, false, false, true, true, false)), (String ((Ascii (true,
    false, false, true, true, true, true, false)), (String ((Ascii (true,
    true, true, false, true, true, true, false)), (String ((Ascii (true,
    true, true, true, false, true, true, false)), (String ((Ascii (false,
    true, false, false, true, true, true, false)), (String ((Ascii (false,
    false, true, false, false, true, true, false)), (String ((Ascii (false,
    false, false, false, false, true, false, false)), (String ((Ascii (true,
    false, true, false, false, false, true, false)), (String ((Ascii (false,
    true, true, true, false, false, true, false)), (String ((Ascii (true,
    false, true, false, true, false, true, false)), (String ((Ascii (true,
    false, true, true, false, false, true, false)),
    EmptyString)))))))))))))))))))))))))))))), (String ((Ascii (true, false,
    true, false, true, false, true, false)),
    EmptyString)))) :: []))) :: [])) :: (((String ((Ascii (true, true, false,
    false, true, true, true, false)), (String ((Ascii (false, false, true,
    false, true, true, true, false)), (String ((Ascii (true, false, false,
    false, false, true, true, false)), (String ((Ascii (false, false, true,
    false, true, true, true, false)), (String ((Ascii (true, false, true,
    false, false, true, true, false)), (String ((Ascii (true, false, true,
    false, false, false, true, false)), (String ((Ascii (false, true, true,
    true, false, false, true, false)), (String ((Ascii (true, false, true,
    false, true, false, true, false)), EmptyString)))))))))))))))), ((SIf
    ((CByte (Npos (XI (XO (XI (XI (XO (XO XH)))))))), ((SFound (KeywordEnd,
    Z0)) :: ((SPush st_stateEnumBody) :: ((SSetStep
    st_stateParameterOrAnnotation) :: (SRetNil :: [])))), ((SRetErr ((String
    ((Ascii (true, false, false, true, false, true, true, false)), (String
    ((Ascii (false, true, true, true, false, true, true, false)), (String
    ((Ascii (false, false, false, false, false, true, false, false)), (String
    ((Ascii (true, true, false, true, false, true, true, false)), (String
    ((Ascii (true, false, true, false, false, true, true, false)), (String
    ((Ascii (true, false, false, true, true, true, true, false)), (String
    ((Ascii (true, true, true, false, true, true, true, false)), (String
    ((Ascii (true, true, true, true, false, true, true, false)), (String
    ((Ascii (false, true, false, false, true, true, true, false)), (String
    ((Ascii (false, false, true, false, false, true, true, false)), (String
    ((Ascii (false, false, false, false, false, true, false, false)), (String
    ((Ascii (true, false, true, false, false, false, true, false)), (String
    ((Ascii (false, true, true, true, false, false, true, false)), (String
    ((Ascii (true, false, true, false, true, false, true, false)), (String
    ((Ascii (true, false, true, true, false, false, true, false)),
    EmptyString)))))))))))))))))))))))))))))), (String ((Ascii (true, false,
    true, true, false, false, true, false)),
    EmptyString)))) :: []))) :: [])) :: (((String ((Ascii (true, true, false,
    false, true, true, true, false)), (String ((Ascii (false, false, true,
    false, true, true, true, false)), (String ((Ascii (true, false, false,
    false, false, true, true, false)), (String ((Ascii (false, false, true,
    false, true, true, true, false)), (String ((Ascii (true, false, true,
    false, false, true, true, false)), (String ((Ascii (true, false, true,
    false, false, false, true, false)), (String ((Ascii (false, true, true,
    true, false, true, true, false)), (String ((Ascii (true, false, true,
    false, true, true, true, false)), (String ((Ascii (true, false, true,
    true, false, true, true, false)), (String ((Ascii (false, true, false,
    false, false, false, true, false)), (String ((Ascii (true, true, true,
    true, false, true, true, false)), (String ((Ascii (false, false, true,
    false, false, true, true, false)), (String ((Ascii (true, false, false,
    true, true, true, true, false)), EmptyString)))))))))))))))))))))))))),
    ((SIf ((CByte (Npos (XO (XO (XO (XI (XO XH))))))), ((SFound (ContextOpen,
    Z0)) :: (SRetNil :: [])), ((SIf ((COr (CWhitespace, CNewLine)),
    (SRetNil :: []), ((SIf ((CByte (Npos (XI (XI (XO (XO (XO XH))))))),
    (SPushCur :: ((SSetStep st_stateCommentStarted) :: (SRetNil :: []))),
    ((SIf ((CByte (Npos (XI (XI (XO (XI (XI (XO XH)))))))), ((SFound
    (EnumBegin, Z0)) :: ((SOracle OEnum) :: ((SSetStep
    st_stateEnumBodyClose) :: (SRetNil :: [])))), ((SRetErr ((String ((Ascii
    (true, false, false, false, false, true, true, false)), (String ((Ascii
    (false, true, true, false, false, true, true, false)), (String ((Ascii
    (false, false, true, false, true, true, true, false)), (String ((Ascii
    (true, false, true, false, false, true, true, false)), (String ((Ascii
    (false, true, false, false, true, true, true, false)), (String ((Ascii
    (false, false, false, false, false, true, false, false)), (String ((Ascii
    (true, false, true, false, false, false, true, false)), (String ((Ascii
    (false, true, true, true, false, true, true, false)), (String ((Ascii
    (true, false, true, false, true, true, true, false)), (String ((Ascii
    (true, false, true, true, false, true, true, false)), (String ((Ascii
    (false, false, false, false, false, true, false, false)), (String ((Ascii
    (false, false, true, false, false, true, true, false)), (String ((Ascii
    (true, false, false, true, false, true, true, false)), (String ((Ascii
    (false, true, false, false, true, true, true, false)), (String ((Ascii
    (true, false, true, false, false, true, true, false)), (String ((Ascii
    (true, true, false, false, false, true, true, false)), (String ((Ascii
    (false, false, true, false, true, true, true, false)), (String ((Ascii
    (true, false, false, true, false, true, true, false)), (String ((Ascii
    (false, true, true, false, true, true, true, false)), (String ((Ascii
    (true, false, true, false, false, true, true, false)),
    EmptyString)))))))))))))))))))))))))))))))))))))))),
    EmptyString)) :: []))) :: []))) :: []))) :: []))) :: [])) :: (((String
    ((Ascii (true, true, false, false, true, true, true, false)), (String
    ((Ascii (false, false, true, false, true, true, true, false)), (String
    ((Ascii (true, false, false, false, false, true, true, false)), (String
    ((Ascii (false, false, true, false, true, true, true, false)), (String
    ((Ascii (true, false, true, false, false, true, true, false)), (String
    ((Ascii (true, false, true, false, false, false, true, false)), (String
    ((Ascii (false, true, true, true, false, true, true, false)), (String
    ((Ascii (true, false, true, false, true, true, true, false)), (String
    ((Ascii (true, false, true, true, false, true, true, false)), (String
    ((Ascii (false, true, false, false, false, false, true, false)), (String
    ((Ascii (true, true, true, true, false, true, true, false)), (String
    ((Ascii (false, false, true, false, false, true, true, false)), (String
    ((Ascii (true, false, false, true, true, true, true, false)), (String
    ((Ascii (true, true, false, false, false, false, true, false)), (String
    ((Ascii (false, false, true, true, false, true, true, false)), (String
    ((Ascii (true, true, true, true, false, true, true, false)), (String
    ((Ascii (true, true, false, false, true, true, true, false)), (String
    ((Ascii (true, false, true, false, false, true, true, false)),
    EmptyString)))))))))))))))))))))))))))))))))))), ((SIf (CWhitespace,
    ((SFound (EnumEnd, (Zneg XH))) :: ((SSetStep
    st_stateEnumBodyEnded) :: (SRetNil :: []))), ((SIf ((COr (CNewLine,
    (CByte N0))), ((SFound (EnumEnd, (Zneg XH))) :: ((SSetStep
    st_stateExpectKeyword) :: (SRetNil :: []))), ((SRetErr ((String ((Ascii
    (true, false, false, false, false, true, true, false)), (String ((Ascii
    (false, true, true, false, false, true, true, false)), (String ((Ascii
    (false, false, true, false, true, true, true, false)), (String ((Ascii
    (true, false, true, false, false, true, true, false)), (String ((Ascii
    (false, true, false, false, true, true, true, false)), (String ((Ascii
    (false, false, false, false, false, true, false, false)), (String ((Ascii
    (true, false, true, false, false, true, true, false)), (String ((Ascii
    (false, true, true, true, false, true, true, false)), (String ((Ascii
    (true, false, true, false, true, true, true, false)), (String ((Ascii
    (true, false, true, true, false, true, true, false)),
    EmptyString)))))))))))))))))))),
    EmptyString)) :: []))) :: []))) :: [])) :: (((String ((Ascii (true, true,
    false, false, true, true, true, false)), (String ((Ascii (false, false,
    true, false, true, true, true, false)), (String ((Ascii (true, false,
    false, false, false, true, true, false)), (String ((Ascii (false, false,
    true, false, true, true, true, false)), (String ((Ascii (true, false,
    true, false, false, true, true, false)), (String ((Ascii (true, false,
    true, false, false, false, true, false)), (String ((Ascii (false, true,
    true, true, false, true, true, false)), (String ((Ascii (true, false,
    true, false, true, true, true, false)), (String ((Ascii (true, false,
    true, true, false, true, true, false)), (String ((Ascii (false, true,
    false, false, false, false, true, false)), (String ((Ascii (true, true,
    true, true, false, true, true, false)), (String ((Ascii (false, false,
    true, false, false, true, true, false)), (String ((Ascii (true, false,
    false, true, true, true, true, false)), (String ((Ascii (true, false,
    true, false, false, false, true, false)), (String ((Ascii (false, true,
    true, true, false, true, true, false)), (String ((Ascii (false, false,
    true, false, false, true, true, false)), (String ((Ascii (true, false,
    true, false, false, true, true, false)), (String ((Ascii (false, false,
    true, false, false, true, true, false)),
    EmptyString)))))))))))))))))))))))))))))))))))), ((SIf (CWhitespace,
    (SRetNil :: []), ((SIf ((COr (CNewLine, (CByte N0))), ((SSetStep
    st_stateExpectKeyword) :: (SRetNil :: [])), ((SIf ((CByte (Npos (XI (XI
    (XO (XO (XO XH))))))), (SPushCur :: ((SSetStep
    st_stateCommentStarted) :: (SRetNil :: []))), ((SRetErr ((String ((Ascii
    (true, false, false, false, false, true, true, false)), (String ((Ascii
    (false, true, true, false, false, true, true, false)), (String ((Ascii
    (false, false, true, false, true, true, true, false)), (String ((Ascii
    (true, false, true, false, false, true, true, false)), (String ((Ascii
    (false, true, false, false, true, true, true, false)), (String ((Ascii
    (false, false, false, false, false, true, false, false)), (String ((Ascii
    (true, false, true, false, false, true, true, false)), (String ((Ascii
    (false, true, true, true, false, true, true, false)), (String ((Ascii
    (true, false, true, false, true, true, true, false)), (String ((Ascii
    (true, false, true, true, false, true, true, false)), (String ((Ascii
    (false, false, false, false, false, true, false, false)), (String ((Ascii
    (false, true, false, false, false, true, true, false)), (String ((Ascii
    (true, true, true, true, false, true, true, false)), (String ((Ascii
    (false, false, true, false, false, true, true, false)), (String ((Ascii
    (true, false, false, true, true, true, true, false)),
    EmptyString)))))))))))))))))))))))))))))),
    EmptyString)) :: []))) :: []))) :: []))) :: [])) :: (((String ((Ascii
    (true, true, false, false, true, true, true, false)), (String ((Ascii
    (false, false, true, false, true, true, true, false)), (String ((Ascii
    (true, false, false, false, false, true, true, false)), (String ((Ascii
    (false, false, true, false, true, true, true, false)), (String ((Ascii
    (true, false, true, false, false, true, true, false)), (String ((Ascii
    (true, false, true, false, false, false, true, false)), (String ((Ascii
    (false, false, false, true, true, true, true, false)), (String ((Ascii
    (false, false, false, false, true, true, true, false)), (String ((Ascii
    (true, false, true, false, false, true, true, false)), (String ((Ascii
    (true, true, false, false, false, true, true, false)), (String ((Ascii
    (false, false, true, false, true, true, true, false)), (String ((Ascii
    (true, true, false, true, false, false, true, false)), (String ((Ascii
    (true, false, true, false, false, true, true, false)), (String ((Ascii
    (true, false, false, true, true, true, true, false)), (String ((Ascii
    (true, true, true, false, true, true, true, false)), (String ((Ascii
    (true, true, true, true, false, true, true, false)), (String ((Ascii
    (false, true, false, false, true, true, true, false)), (String ((Ascii
    (false, false, true, false, false, true, true, false)),
    EmptyString)))))))))))))))))))))))))))))))))))), ((SIf ((COr (CNewLine,
    (COr (CWhitespace, (CByte N0))))), (SRetNil :: []), ((SIf ((CByte (Npos
    (XI (XI (XO (XO (XO XH))))))), (SPushCur :: ((SSetStep
    st_stateCommentStarted) :: (SRetNil :: []))), ((SIf ((CByte (Npos (XO (XO
    (XO (XI (XO XH))))))), ((SFound (ContextOpen, Z0)) :: ((SSetStep
    st_stateContextOpenedOnNewline) :: (SRetNil :: []))), ((SIf ((CByte (Npos
    (XI (XO (XO (XI (XO XH))))))), ((SFound (ContextClose, Z0)) :: ((SSetStep
    st_stateContextClosed) :: (SRetNil :: []))), ((SIf ((CByte (Npos (XO (XI
    (XO (XO (XO (XO XH)))))))), ((SFound (KeywordBegin, Z0)) :: ((SSetStep
    st_stateB) :: (SRetNil :: []))), ((SIf ((CByte (Npos (XO (XO (XI (XO (XO
    (XO XH)))))))), ((SFound (KeywordBegin, Z0)) :: ((SSetStep
    st_stateD) :: (SRetNil :: []))), ((SIf ((CByte (Npos (XI (XO (XI (XO (XO
    (XO XH)))))))), ((SFound (KeywordBegin, Z0)) :: ((SSetStep
    st_stateE) :: (SRetNil :: []))), ((SIf ((CByte (Npos (XI (XI (XI (XO (XO
    (XO XH)))))))), ((SFound (KeywordBegin, Z0)) :: ((SSetStep
    st_stateG) :: (SRetNil :: []))), ((SIf ((CByte (Npos (XO (XO (XO (XI (XO
    (XO XH)))))))), ((SFound (KeywordBegin, Z0)) :: ((SSetStep
    st_stateH) :: (SRetNil :: []))), ((SIf ((CByte (Npos (XI (XO (XO (XI (XO
    (XO XH)))))))), ((SFound (KeywordBegin, Z0)) :: ((SSetStep
    st_stateI) :: (SRetNil :: []))), ((SIf ((CByte (Npos (XO (XI (XO (XI (XO
    (XO XH)))))))), ((SFound (KeywordBegin, Z0)) :: ((SSetStep
    st_stateJ) :: (SRetNil :: []))), ((SIf ((CByte (Npos (XI (XO (XI (XI (XO
    (XO XH)))))))), ((SFound (KeywordBegin, Z0)) :: ((SSetStep
    st_stateM) :: (SRetNil :: []))), ((SIf ((CByte (Npos (XI (XI (XI (XI (XO
    (XO XH)))))))), ((SFound (KeywordBegin, Z0)) :: ((SSetStep
    st_stateO) :: (SRetNil :: []))), ((SIf ((CByte (Npos (XO (XO (XO (XO (XI
    (XO XH)))))))), ((SFound (KeywordBegin, Z0)) :: ((SSetStep
    st_stateP) :: (SRetNil :: []))), ((SIf ((CByte (Npos (XI (XO (XO (XO (XI
    (XO XH)))))))), ((SFound (KeywordBegin, Z0)) :: ((SSetStep
    st_stateQ) :: (SRetNil :: []))), ((SIf ((CByte (Npos (XO (XI (XO (XO (XI
    (XO XH)))))))), ((SFound (KeywordBegin, Z0)) :: ((SSetStep
    st_stateR) :: (SRetNil :: []))), ((SIf ((CByte (Npos (XI (XI (XO (XO (XI
    (XO XH)))))))), ((SFound (KeywordBegin, Z0)) :: ((SSetStep
    st_stateS) :: (SRetNil :: []))), ((SIf ((CByte (Npos (XO (XO (XI (XO (XI
    (XO XH)))))))), ((SFound (KeywordBegin, Z0)) :: ((SSetStep
    st_stateT) :: (SRetNil :: []))), ((SIf ((CByte (Npos (XI (XO (XI (XO (XI
    (XO XH)))))))), ((SFound (KeywordBegin, Z0)) :: ((SSetStep
    st_stateU) :: (SRetNil :: []))), ((SIf ((CByte (Npos (XO (XI (XI (XO (XI
    (XO XH)))))))), ((SFound (KeywordBegin, Z0)) :: ((SSetStep
    st_stateV) :: (SRetNil :: []))), ((SIf ((COr ((CByte (Npos (XI (XO (XO
    (XO (XI XH))))))), (COr ((CByte (Npos (XO (XI (XO (XO (XI XH))))))), (COr
    ((CByte (Npos (XI (XI (XO (XO (XI XH))))))), (COr ((CByte (Npos (XO (XO
    (XI (XO (XI XH))))))), (CByte (Npos (XI (XO (XI (XO (XI
    XH))))))))))))))), ((SFound (KeywordBegin, Z0)) :: ((SSetStep
    st_stateResponseKeywordStarted) :: (SRetNil :: []))),
    [])) :: []))) :: []))) :: []))) :: []))) :: []))) :: []))) :: []))) :: []))) :: []))) :: []))) :: []))) :: []))) :: []))) :: []))) :: []))) :: []))) :: []))) :: []))) :: []))) :: []))) :: ((SRetErr
    ((String ((Ascii (true, false, false, false, false, true, true, false)),
    (String ((Ascii (false, false, true, false, true, true, true, false)),
    (String ((Ascii (false, false, false, false, false, true, false, false)),
    (String ((Ascii (false, false, true, false, true, true, true, false)),
    (String ((Ascii (false, false, false, true, false, true, true, false)),
    (String ((Ascii (true, false, true, false, false, true, true, false)),
    (String ((Ascii (false, false, false, false, false, true, false, false)),
    (String ((Ascii (false, false, true, false, false, true, true, false)),
    (String ((Ascii (true, false, false, true, false, true, true, false)),
    (String ((Ascii (false, true, false, false, true, true, true, false)),
    (String ((Ascii (true, false, true, false, false, true, true, false)),
    (String ((Ascii (true, true, false, false, false, true, true, false)),
    (String ((Ascii (false, false, true, false, true, true, true, false)),
    (String ((Ascii (true, false, false, true, false, true, true, false)),
    (String ((Ascii (false, true, true, false, true, true, true, false)),
    (String ((Ascii (true, false, true, false, false, true, true, false)),
    (String ((Ascii (false, false, false, false, false, true, false, false)),
    (String ((Ascii (false, true, false, false, false, true, true, false)),
    (String ((Ascii (true, false, true, false, false, true, true, false)),
    (String ((Ascii (true, true, true, false, false, true, true, false)),
    (String ((Ascii (true, false, false, true, false, true, true, false)),
    (String ((Ascii (false, true, true, true, false, true, true, false)),
    (String ((Ascii (false, true, true, true, false, true, true, false)),
    (String ((Ascii (true, false, false, true, false, true, true, false)),
    (String ((Ascii (false, true, true, true, false, true, true, false)),
    (String ((Ascii (true, true, true, false, false, true, true, false)),
    EmptyString)))))))))))))))))))))))))))))))))))))))))))))))))))),
    EmptyString)) :: []))) :: (((String ((Ascii (true, true, false, false,
    true, true, true, false)), (String ((Ascii (false, false, true, false,
    true, true, true, false)), (String ((Ascii (true, false, false, false,
    false, true, true, false)), (String ((Ascii (false, false, true, false,
    true, true, true, false)), (String ((Ascii (true, false, true, false,
    false, true, true, false)), (String ((Ascii (true, true, true, false,
    false, false, true, false)), EmptyString)))))))))))), ((SIf ((CByte (Npos
    (XI (XO (XI (XO (XO (XO XH)))))))), ((SSetStep
    st_stateGE) :: (SRetNil :: [])), ((SRetErr ((String ((Ascii (true, false,
    false, true, false, true, true, false)), (String ((Ascii (false, true,
    true, true, false, true, true, false)), (String ((Ascii (false, false,
    false, false, false, true, false, false)), (String ((Ascii (true, true,
    false, true, false, true, true, false)), (String ((Ascii (true, false,
    true, false, false, true, true, false)), (String ((Ascii (true, false,
    false, true, true, true, true, false)), (String ((Ascii (true, true,
    true, false, true, true, true, false)), (String ((Ascii (true, true,
    true, true, false, true, true, false)), (String ((Ascii (false, true,
    false, false, true, true, true, false)), (String ((Ascii (false, false,
    true, false, false, true, true, false)), (String ((Ascii (false, false,
    false, false, false, true, false, false)), (String ((Ascii (true, true,
    true, false, false, false, true, false)), (String ((Ascii (true, false,
    true, false, false, false, true, false)), (String ((Ascii (false, false,
    true, false, true, false, true, false)),
    EmptyString)))))))))))))))))))))))))))), (String ((Ascii (true, false,
    true, false, false, false, true, false)),
    EmptyString)))) :: []))) :: [])) :: (((String ((Ascii (true, true, false,
    false, true, true, true, false)), (String ((Ascii (false, false, true,
    false, true, true, true, false)), (String ((Ascii (true, false, false,
    false, false, true, true, false)), (String ((Ascii (false, false, true,
    false, true, true, true, false)), (String ((Ascii (true, false, true,
    false, false, true, true, false)), (String ((Ascii (true, true, true,
    false, false, false, true, false)), (String ((Ascii (true, false, true,
    false, false, false, true, false)), EmptyString)))))))))))))), ((SIf
    ((CByte (Npos (XO (XO (XI (XO (XI (XO XH)))))))), ((SFound (KeywordEnd,
    Z0)) :: ((SPush st_stateExpectKeyword) :: ((SSetStep
    st_stateParameterOrAnnotation) :: (SRetNil :: [])))), ((SRetErr ((String
    ((Ascii (true, false, false, true, false, true, true, false)), (String
    ((Ascii (false, true, true, true, false, true, true, false)), (String
    ((Ascii (false, false, false, false, false, true, false, false)), (String
    ((Ascii (true, true, false, true, false, true, true, false)), (String
    ((Ascii (true, false, true, false, false, true, true, false)), (String
    ((Ascii (true, false, false, true, true, true, true, false)), (String
    ((Ascii (true, true, true, false, true, true, true, false)), (String
    ((Ascii (true, true, true, true, false, true, true, false)), (String
    ((Ascii (false, true, false, false, true, true, true, false)), (String
    ((Ascii (false, false, true, false, false, true, true, false)), (String
    ((Ascii (false, false, false, false, false, true, false, false)), (String
    ((Ascii (true, true, true, false, false, false, true, false)), (String
    ((Ascii (true, false, true, false, false, false, true, false)), (String
    ((Ascii (false, false, true, false, true, false, true, false)),
    EmptyString)))))))))))))))))))))))))))), (String ((Ascii (false, false,
    true, false, true, false, true, false)),
    EmptyString)))) :: []))) :: [])) :: (((String ((Ascii (true, true, false,
    false, true, true, true, false)), (String ((Ascii (false, false, true,
    false, true, true, true, false)), (String ((Ascii (true, false, false,
    false, false, true, true, false)), (String ((Ascii (false, false, true,
    false, true, true, true, false)), (String ((Ascii (true, false, true,
    false, false, true, true, false)), (String ((Ascii (false, false, false,
    true, false, false, true, false)), EmptyString)))))))))))), ((SIf ((CByte
    (Npos (XI (XO (XI (XO (XO (XI XH)))))))), ((SSetStep
    st_stateHe) :: (SRetNil :: [])), ((SRetErr ((String ((Ascii (true, false,
    false, true, false, true, true, false)), (String ((Ascii (false, true,
    true, true, false, true, true, false)), (String ((Ascii (false, false,
    false, false, false, true, false, false)), (String ((Ascii (false, false,
    true, false, false, true, true, false)), (String ((Ascii (true, false,
    false, true, false, true, true, false)), (String ((Ascii (false, true,
    false, false, true, true, true, false)), (String ((Ascii (true, false,
    true, false, false, true, true, false)), (String ((Ascii (true, true,
    false, false, false, true, true, false)), (String ((Ascii (false, false,
    true, false, true, true, true, false)), (String ((Ascii (true, false,
    false, true, false, true, true, false)), (String ((Ascii (false, true,
    true, false, true, true, true, false)), (String ((Ascii (true, false,
    true, false, false, true, true, false)), (String ((Ascii (false, false,
    false, false, false, true, false, false)), (String ((Ascii (false, false,
    false, true, false, false, true, false)), (String ((Ascii (true, false,
    true, false, false, true, true, false)), (String ((Ascii (true, false,
    false, false, false, true, true, false)), (String ((Ascii (false, false,
    true, false, false, true, true, false)), (String ((Ascii (true, false,
    true, false, false, true, true, false)), (String ((Ascii (false, true,
    false, false, true, true, true, false)), (String ((Ascii (true, true,
    false, false, true, true, true, false)),
    EmptyString)))))))))))))))))))))))))))))))))))))))), (String ((Ascii
    (true, false, true, false, false, true, true, false)),
    EmptyString)))) :: []))) :: [])) :: (((String ((Ascii (true, true, false,
    false, true, true, true, false)), (String ((Ascii (false, false, true,
    false, true, true, true, false)), (String ((Ascii (true, false, false,
    false, false, true, true, false)), (String ((Ascii (false, false, true,
    false, true, true, true, false)), (String ((Ascii (true, false, true,
    false, false, true, true, false)), (String ((Ascii (false, false, false,
    true, false, false, true, false)), (String ((Ascii (true, false, true,
    false, false, true, true, false)), EmptyString)))))))))))))), ((SIf
    ((CByte (Npos (XI (XO (XO (XO (XO (XI XH)))))))), ((SSetStep
    st_stateHea) :: (SRetNil :: [])), ((SRetErr ((String ((Ascii (true,
    false, false, true, false, true, true, false)), (String ((Ascii (false,
    true, true, true, false, true, true, false)), (String ((Ascii (false,
    false, false, false, false, true, false, false)), (String ((Ascii (false,
    false, true, false, false, true, true, false)), (String ((Ascii (true,
    false, false, true, false, true, true, false)), (String ((Ascii (false,
    true, false, false, true, true, true, false)), (String ((Ascii (true,
    false, true, false, false, true, true, false)), (String ((Ascii (true,
    true, false, false, false, true, true, false)), (String ((Ascii (false,
    false, true, false, true, true, true, false)), (String ((Ascii (true,
    false, false, true, false, true, true, false)), (String ((Ascii (false,
    true, true, false, true, true, true, false)), (String ((Ascii (true,
    false, true, false, false, true, true, false)), (String ((Ascii (false,
    false, false, false, false, true, false, false)), (String ((Ascii (false,
    false, false, true, false, false, true, false)), (String ((Ascii (true,
    false, true, false, false, true, true, false)), (String ((Ascii (true,
    false, false, false, false, true, true, false)), (String ((Ascii (false,
    false, true, false, false, true, true, false)), (String ((Ascii (true,
    false, true, false, false, true, true, false)), (String ((Ascii (false,
    true, false, false, true, true, true, false)), (String ((Ascii (true,
    true, false, false, true, true, true, false)),
    EmptyString)))))))))))))))))))))))))))))))))))))))), (String ((Ascii
    (true, false, false, false, false, true, true, false)),
    EmptyString)))) :: []))) :: [])) :: (((String ((Ascii (true, true, false,
    false, true, true, true, false)), (String ((Ascii (false, false, true,
    false, true, true, true, false)), (String ((Ascii (true, false, false,
    false, false, true, true, false)), (String ((Ascii (false, false, true,
    false, true, true, true, false)), (String ((Ascii (true, false, true,
    false, false, true, true, false)), (String ((Ascii (false, false, false,
    true, false, false, true, false)), (String ((Ascii (true, false, true,
    false, false, true, true, false)), (String ((Ascii (true, false, false,
    false, false, true, true, false)), EmptyString)))))))))))))))), ((SIf
    ((CByte (Npos (XO (XO (XI (XO (XO (XI XH)))))))), ((SSetStep
    st_stateHead) :: (SRetNil :: [])), ((SRetErr ((String ((Ascii (true,
    false, false, true, false, true, true, false)), (String ((Ascii (false,
    true, true, true, false, true, true, false)), (String ((Ascii (false,
    false, false, false, false, true, false, false)), (String ((Ascii (false,
    false, true, false, false, true, true, false)), (String ((Ascii (true,
    false, false, true, false, true, true, false)), (String ((Ascii (false,
    true, false, false, true, true, true, false)), (String ((Ascii (true,
    false, true, false, false, true, true, false)), (String ((Ascii (true,
    true, false, false, false, true, true, false)), (String ((Ascii (false,
    false, true, false, true, true, true, false)), (String ((Ascii (true,
    false, false, true, false, true, true, false)), (String ((Ascii (false,
    true, true, false, true, true, true, false)), (String ((Ascii (true,
    false, true, false, false, true, true, false)), (String ((Ascii (false,
    false, false, false, false, true, false, false)), (String ((Ascii (false,
    false, false, true, false, false, true, false)), (String ((Ascii (true,
    false, true, false, false, true, true, false)), (String ((Ascii (true,
    false, false, false, false, true, true, false)), (String ((Ascii (false,
    false, true, false, false, true, true, false)), (String ((Ascii (true,
    false, true, false, false, true, true, false)), (String ((Ascii (false,
    true, false, false, true, true, true, false)), (String ((Ascii (true,
    true, false, false, true, true, true, false)),
    EmptyString)))))))))))))))))))))))))))))))))))))))), (String ((Ascii
    (false, false, true, false, false, true, true, false)),
    EmptyString)))) :: []))) :: [])) :: (((String ((Ascii (true, true, false,
    false, true, true, true, false)), (String ((Ascii (false, false, true,
    false, true, true, true, false)), (String ((Ascii (true, false, false,
    false, false, true, true, false)), (String ((Ascii (false, false, true,
    false, true, true, true, false)), (String ((Ascii (true, false, true,
    false, false, true, true, false)), (String ((Ascii (false, false, false,
    true, false, false, true, false)), (String ((Ascii (true, false, true,
    false, false, true, true, false)), (String ((Ascii (true, false, false,
    false, false, true, true, false)), (String ((Ascii (false, false, true,
    false, false, true, true, false)), EmptyString)))))))))))))))))), ((SIf
    ((CByte (Npos (XI (XO (XI (XO (XO (XI XH)))))))), ((SSetStep
    st_stateHeade) :: (SRetNil :: [])), ((SRetErr ((String ((Ascii (true,
    false, false, true, false, true, true, false)), (String ((Ascii (false,
    true, true, true, false, true, true, false)), (String ((Ascii (false,
    false, false, false, false, true, false, false)), (String ((Ascii (false,
    false, true, false, false, true, true, false)), (String ((Ascii (true,
    false, false, true, false, true, true, false)), (String ((Ascii (false,
    true, false, false, true, true, true, false)), (String ((Ascii (true,
    false, true, false, false, true, true, false)), (String ((Ascii (true,
    true, false, false, false, true, true, false)), (String ((Ascii (false,
    false, true, false, true, true, true, false)), (String ((Ascii (true,
    false, false, true, false, true, true, false)), (String ((Ascii (false,
    true, true, false, true, true, true, false)), (String ((Ascii (true,
    false, true, false, false, true, true, false)), (String ((Ascii (false,
    false, false, false, false, true, false, false)), (String ((Ascii (false,
    false, false, true, false, false, true, false)), (String ((Ascii (true,
    false, true, false, false, true, true, false)), (String ((Ascii (true,
    false, false, false, false, true, true, false)), (String ((Ascii (false,
    false, true, false, false, true, true, false)), (String ((Ascii (true,
    false, true, false, false, true, true, false)), (String ((Ascii (false,
    true, false, false, true, true, true, false)), (String ((Ascii (true,
    true, false, false, true, true, true, false)),
    EmptyString)))))))))))))))))))))))))))))))))))))))), (String ((Ascii
    (true, false, true, false, false, true, true, false)),
    EmptyString)))) :: []))) :: [])) :: (((String ((Ascii (true, true, false,
    false, true, true, true, false)), (String ((Ascii (false, false, true,
    false, true, true, true, false)), (String ((Ascii (true, false, false,
    false, false, true, true, false)), (String ((Ascii (false, false, true,
    false, true, true, true, false)), (String ((Ascii (true, false, true,
    false, false, true, true, false)), (String ((Ascii (false, false, false,
    true, false, false, true, false)), (String ((Ascii (true, false, true,
    false, false, true, true, false)), (String ((Ascii (true, false, false,
    false, false, true, true, false)), (String ((Ascii (false, false, true,
    false, false, true, true, false)), (String ((Ascii (true, false, true,
    false, false, true, true, false)), EmptyString)))))))))))))))))))), ((SIf
    ((CByte (Npos (XO (XI (XO (XO (XI (XI XH)))))))), ((SSetStep
    st_stateHeader) :: (SRetNil :: [])), ((SRetErr ((String ((Ascii (true,
    false, false, true, false, true, true, false)), (String ((Ascii (false,
    true, true, true, false, true, true, false)), (String ((Ascii (false,
    false, false, false, false, true, false, false)), (String ((Ascii (false,
    false, true, false, false, true, true, false)), (String ((Ascii (true,
    false, false, true, false, true, true, false)), (String ((Ascii (false,
    true, false, false, true, true, true, false)), (String ((Ascii (true,
    false, true, false, false, true, true, false)), (String ((Ascii (true,
    true, false, false, false, true, true, false)), (String ((Ascii (false,
    false, true, false, true, true, true, false)), (String ((Ascii (true,
    false, false, true, false, true, true, false)), (String ((Ascii (false,
    true, true, false, true, true, true, false)), (String ((Ascii (true,
    false, true, false, false, true, true, false)), (String ((Ascii (false,
    false, false, false, false, true, false, false)), (String ((Ascii (false,
    false, false, true, false, false, true, false)), (String ((Ascii (true,
    false, true, false, false, true, true, false)), (String ((Ascii (true,
    false, false, false, false, true, true, false)), (String ((Ascii (false,
    false, true, false, false, true, true, false)), (String ((Ascii (true,
    false, true, false, false, true, true, false)), (String ((Ascii (false,
    true, false, false, true, true, true, false)), (String ((Ascii (true,
    true, false, false, true, true, true, false)),
    EmptyString)))))))))))))))))))))))))))))))))))))))), (String ((Ascii
    (false, true, false, false, true, true, true, false)),
    EmptyString)))) :: []))) :: [])) :: (((String ((Ascii (true, true, false,
    false, true, true, true, false)), (String ((Ascii (false, false, true,
    false, true, true, true, false)), (String ((Ascii (true, false, false,
    false, false, true, true, false)), (String ((Ascii (false, false, true,
    false, true, true, true, false)), (String ((Ascii (true, false, true,
    false, false, true, true, false)), (String ((Ascii (false, false, false,
    true, false, false, true, false)), (String ((Ascii (true, false, true,
    false, false, true, true, false)), (String ((Ascii (true, false, false,
    false, false, true, true, false)), (String ((Ascii (false, false, true,
    false, false, true, true, false)), (String ((Ascii (true, false, true,
    false, false, true, true, false)), (String ((Ascii (false, true, false,
    false, true, true, true, false)), EmptyString)))))))))))))))))))))),
    ((SIf ((CByte (Npos (XI (XI (XO (XO (XI (XI XH)))))))), ((SFound
    (KeywordEnd, Z0)) :: ((SPush st_stateHeaderBody) :: ((SSetStep
    st_stateParameterOrAnnotation) :: (SRetNil :: [])))), ((SRetErr ((String
    ((Ascii (true, false, false, true, false, true, true, false)), (String
    ((Ascii (false, true, true, true, false, true, true, false)), (String
    ((Ascii (false, false, false, false, false, true, false, false)), (String
    ((Ascii (false, false, true, false, false, true, true, false)), (String
    ((Ascii (true, false, false, true, false, true, true, false)), (String
    ((Ascii (false, true, false, false, true, true, true, false)), (String
    ((Ascii (true, false, true, false, false, true, true, false)), (String
    ((Ascii (true, true, false, false, false, true, true, false)), (String
    ((Ascii (false, false, true, false, true, true, true, false)), (String
    ((Ascii (true, false, false, true, false, true, true, false)), (String
    ((Ascii (false, true, true, false, true, true, true, false)), (String
    ((Ascii (true, false, true, false, false, true, true, false)), (String
    ((Ascii (false, false, false, false, false, true, false, false)), (String
    ((Ascii (false, false, false, true, false, false, true, false)), (String
    ((Ascii (true, false, true, false, false, true, true, false)), (String
    ((Ascii (true, false, false, false, false, true, true, false)), (String
    ((Ascii (false, false, true, false, false, true, true, false)), (String
    ((Ascii (true, false, true, false, false, true, true, false)), (String
    ((Ascii (false, true, false, false, true, true, true, false)), (String
    ((Ascii (true, true, false, false, true, true, true, false)),
    EmptyString)))))))))))))))))))))))))))))))))))))))), (String ((Ascii
    (true, true, false, false, true, true, true, false)),
    EmptyString)))) :: []))) :: [])) :: (((String ((Ascii (true, true, false,
    false, true, true, true, false)), (String ((Ascii (false, false, true,
    false, true, true, true, false)), (String ((Ascii (true, false, false,
    false, false, true, true, false)), (String ((Ascii (false, false, true,
    false, true, true, true, false)), (String ((Ascii (true, false, true,
    false, false, true, true, false)), (String ((Ascii (false, false, false,
    true, false, false, true, false)), (String ((Ascii (true, false, true,
    false, false, true, true, false)), (String ((Ascii (true, false, false,
    false, false, true, true, false)), (String ((Ascii (false, false, true,
    false, false, true, true, false)), (String ((Ascii (true, false, true,
    false, false, true, true, false)), (String ((Ascii (false, true, false,
    false, true, true, true, false)), (String ((Ascii (false, true, false,
    false, false, false, true, false)), (String ((Ascii (true, true, true,
    true, false, true, true, false)), (String ((Ascii (false, false, true,
    false, false, true, true, false)), (String ((Ascii (true, false, false,
    true, true, true, true, false)),
    EmptyString)))))))))))))))))))))))))))))), ((SIf ((CByte (Npos (XO (XO
    (XO (XI (XO XH))))))), ((SFound (ContextOpen, Z0)) :: (SRetNil :: [])),
    ((SIf ((COr (CWhitespace, CNewLine)), (SRetNil :: []), ((SIf ((CByte
    (Npos (XI (XI (XO (XO (XO XH))))))), (SPushCur :: ((SSetStep
    st_stateCommentStarted) :: (SRetNil :: []))), ((SIf ((COr ((CByte (Npos
    (XI (XI (XO (XI (XI (XI XH)))))))), (CByte (Npos (XO (XO (XO (XO (XO (XO
    XH)))))))))), ((SRetCall st_stateJSchema) :: []), ((SRetErr ((String
    ((Ascii (true, false, false, true, false, true, true, false)), (String
    ((Ascii (false, true, true, true, false, true, true, false)), (String
    ((Ascii (false, false, false, false, false, true, false, false)), (String
    ((Ascii (false, false, false, true, false, false, true, false)), (String
    ((Ascii (true, false, true, false, false, true, true, false)), (String
    ((Ascii (true, false, false, false, false, true, true, false)), (String
    ((Ascii (false, false, true, false, false, true, true, false)), (String
    ((Ascii (true, false, true, false, false, true, true, false)), (String
    ((Ascii (false, true, false, false, true, true, true, false)), (String
    ((Ascii (true, true, false, false, true, true, true, false)), (String
    ((Ascii (false, false, false, false, false, true, false, false)), (String
    ((Ascii (false, true, false, false, false, true, true, false)), (String
    ((Ascii (true, true, true, true, false, true, true, false)), (String
    ((Ascii (false, false, true, false, false, true, true, false)), (String
    ((Ascii (true, false, false, true, true, true, true, false)),
    EmptyString)))))))))))))))))))))))))))))),
    EmptyString)) :: []))) :: []))) :: []))) :: []))) :: [])) :: (((String
    ((Ascii (true, true, false, false, true, true, true, false)), (String
    ((Ascii (false, false, true, false, true, true, true, false)), (String
    ((Ascii (true, false, false, false, false, true, true, false)), (String
    ((Ascii (false, false, true, false, true, true, true, false)), (String
    ((Ascii (true, false, true, false, false, true, true, false)), (String
    ((Ascii (true, false, false, true, false, false, true, false)),
    EmptyString)))))))))))), ((SIf ((CNot (CByte (Npos (XO (XI (XI (XI (XO
    (XO XH))))))))), ((SRetErr ((String ((Ascii (true, false, false, true,
    false, true, true, false)), (String ((Ascii (false, true, true, true,
    false, true, true, false)), (String ((Ascii (false, false, false, false,
    false, true, false, false)), (String ((Ascii (true, true, false, true,
    false, true, true, false)), (String ((Ascii (true, false, true, false,
    false, true, true, false)), (String ((Ascii (true, false, false, true,
    true, true, true, false)), (String ((Ascii (true, true, true, false,
    true, true, true, false)), (String ((Ascii (true, true, true, true,
    false, true, true, false)), (String ((Ascii (false, true, false, false,
    true, true, true, false)), (String ((Ascii (false, false, true, false,
    false, true, true, false)), (String ((Ascii (false, false, false, false,
    false, true, false, false)), (String ((Ascii (true, false, false, true,
    false, false, true, false)), (String ((Ascii (false, true, true, true,
    false, false, true, false)), (String ((Ascii (false, true, true, false,
    false, false, true, false)), (String ((Ascii (true, true, true, true,
    false, false, true, false)), EmptyString)))))))))))))))))))))))))))))),
    (String ((Ascii (false, true, true, true, false, false, true, false)),
    EmptyString)))) :: []), [])) :: ((SSetStep
    st_stateIN) :: (SRetNil :: [])))) :: (((String ((Ascii (true, true,
    false, false, true, true, true, false)), (String ((Ascii (false, false,
    true, false, true, true, true, false)), (String ((Ascii (true, false,
    false, false, false, true, true, false)), (String ((Ascii (false, false,
    true, false, true, true, true, false)), (String ((Ascii (true, false,
    true, false, false, true, true, false)), (String ((Ascii (true, false,
    false, true, false, false, true, false)), (String ((Ascii (false, true,
    true, true, false, false, true, false)), EmptyString)))))))))))))), ((SIf
    ((CByte (Npos (XO (XI (XI (XO (XO (XO XH)))))))), ((SSetStep
    st_stateINF) :: []), ((SIf ((CByte (Npos (XI (XI (XO (XO (XO (XO
    XH)))))))), ((SSetStep st_stateINC) :: []), ((SRetErr ((String ((Ascii
    (true, false, false, true, false, true, true, false)), (String ((Ascii
    (false, true, true, true, false, true, true, false)), (String ((Ascii
    (false, false, false, false, false, true, false, false)), (String ((Ascii
    (true, true, false, true, false, true, true, false)), (String ((Ascii
    (true, false, true, false, false, true, true, false)), (String ((Ascii
    (true, false, false, true, true, true, true, false)), (String ((Ascii
    (true, true, true, false, true, true, true, false)), (String ((Ascii
    (true, true, true, true, false, true, true, false)), (String ((Ascii
    (false, true, false, false, true, true, true, false)), (String ((Ascii
    (false, false, true, false, false, true, true, false)), (String ((Ascii
    (false, false, false, false, false, true, false, false)), (String ((Ascii
    (true, false, false, true, false, false, true, false)), (String ((Ascii
    (false, true, true, true, false, false, true, false)), (String ((Ascii
    (false, true, true, false, false, false, true, false)), (String ((Ascii
    (true, true, true, true, false, false, true, false)),
    EmptyString)))))))))))))))))))))))))))))), (String ((Ascii (false, true,
    true, false, false, false, true, false)),
    EmptyString)))) :: []))) :: []))) :: (SRetNil :: []))) :: (((String
    ((Ascii (true, true, false, false, true, true, true, false)), (String
    ((Ascii (false, false, true, false, true, true, true, false)), (String
    ((Ascii (true, false, false, false, false, true, true, false)), (String
    ((Ascii (false, false, true, false, true, true, true, false)), (String
    ((Ascii (true, false, true, false, false, true, true, false)), (String
    ((Ascii (true, false, false, true, false, false, true, false)), (String
    ((Ascii (false, true, true, true, false, false, true, false)), (String
    ((Ascii (true, true, false, false, false, false, true, false)),
    EmptyString)))))))))))))))), ((SIf ((CNot (CByte (Npos (XO (XO (XI (XI
    (XO (XO XH))))))))), ((SRetErr ((String ((Ascii (true, false, false,
    true, false, true, true, false)), (String ((Ascii (false, true, true,
    true, false, true, true, false)), (String ((Ascii (false, false, false,
    false, false, true, false, false)), (String ((Ascii (true, true, false,
    true, false, true, true, false)), (String ((Ascii (true, false, true,
    false, false, true, true, false)), (String ((Ascii (true, false, false,
    true, true, true, true, false)), (String ((Ascii (true, true, true,
    false, true, true, true, false)), (String ((Ascii (true, true, true,
    true, false, true, true, false)), (String ((Ascii (false, true, false,
    false, true, true, true, false)), (String ((Ascii (false, false, true,
    false, false, true, true, false)), (String ((Ascii (false, false, false,
    false, false, true, false, false)), (String ((Ascii (true, false, false,
    true, false, false, true, false)), (String ((Ascii (false, true, true,
    true, false, false, true, false)), (String ((Ascii (true, true, false,
    false, false, false, true, false)), (String ((Ascii (false, false, true,
    true, false, false, true, false)), (String ((Ascii (true, false, true,
    false, true, false, true, false)), (String ((Ascii (false, false, true,
    false, false, false, true, false)), (String ((Ascii (true, false, true,
    false, false, false, true, false)),
    EmptyString)))))))))))))))))))))))))))))))))))), (String ((Ascii (false,
    false, true, true, false, false, true, false)), EmptyString)))) :: []),
    [])) :: ((SSetStep st_stateINCL) :: (SRetNil :: [])))) :: (((String
    ((Ascii (true, true, false, false, true, true, true, false)), (String
    ((Ascii (false, false, true, false, true, true, true, false)), (String
    ((Ascii (true, false, false, false, false, true, true, false)), (String
    ((Ascii (false, false, true, false, true, true, true, false)), (String
    ((Ascii (true, false, true, false, false, true, true, false)), (String
    ((Ascii (true, false, false, true, false, false, true, false)), (String
    ((Ascii (false, true, true, true, false, false, true, false)), (String
    ((Ascii (true, true, false, false, false, false, true, false)), (String
    ((Ascii (false, false, true, true, false, false, true, false)),
    EmptyString)))))))))))))))))), ((SIf ((CNot (CByte (Npos (XI (XO (XI (XO
    (XI (XO XH))))))))), ((SRetErr ((String ((Ascii (true, false, false,
    true, false, true, true, false)), (String ((Ascii (false, true, true,
    true, false, true, true, false)), (String ((Ascii (false, false, false,
    false, false, true, false, false)), (String ((Ascii (true, true, false,
    true, false, true, true, false)), (String ((Ascii (true, false, true,
    false, false, true, true, false)), (String ((Ascii (true, false, false,
    true, true, true, true, false)), (String ((Ascii (true, true, true,
    false, true, true, true, false)), (String ((Ascii (true, true, true,
    true, false, true, true, false)), (String ((Ascii (false, true, false,
    false, true, true, true, false)), (String ((Ascii (false, false, true,
    false, false, true, true, false)), (String ((Ascii (false, false, false,
    false, false, true, false, false)), (String ((Ascii (true, false, false,
    true, false, false, true, false)), (String ((Ascii (false, true, true,
    true, false, false, true, false)), (String ((Ascii (true, true, false,
    false, false, false, true, false)), (String ((Ascii (false, false, true,
    true, false, false, true, false)), (String ((Ascii (true, false, true,
    false, true, false, true, false)), (String ((Ascii (false, false, true,
    false, false, false, true, false)), (String ((Ascii (true, false, true,
    false, false, false, true, false)),
    EmptyString)))))))))))))))))))))))))))))))))))), (String ((Ascii (true,
    false, true, false, true, false, true, false)), EmptyString)))) :: []),
    [])) :: ((SSetStep st_stateINCLU) :: (SRetNil :: [])))) :: (((String
    ((Ascii (true, true, false, false, true, true, true, false)), (String
    ((Ascii (false, false, true, false, true, true, true, false)), (String
    ((Ascii (true, false, false, false, false, true, true, false)), (String
    ((Ascii (false, false, true, false, true, true, true, false)), (String
    ((Ascii (true, false, true, false, false, true, true, false)), (String
    ((Ascii (true, false, false, true, false, false, true, false)), (String
    ((Ascii (false, true, true, true, false, false, true, false)), (String
    ((Ascii (true, true, false, false, false, false, true, false)), (String
    ((Ascii (false, false, true, true, false, false, true, false)), (String
    ((Ascii (true, false, true, false, true, false, true, false)),
    EmptyString)))))))))))))))))))), ((SIf ((CNot (CByte (Npos (XO (XO (XI
    (XO (XO (XO XH))))))))), ((SRetErr ((String ((Ascii (true, false, false,
    true, false, true, true, false)), (String ((Ascii (false, true, true,
    true, false, true, true, false)), (String ((Ascii (false, false, false,
    false, false, true, false, false)), (String ((Ascii (true, true, false,
    true, false, true, true, false)), (String ((Ascii (true, false, true,
    false, false, true, true, false)), (String ((Ascii (true, false, false,
    true, true, true, true, false)), (String ((Ascii (true, true, true,
    false, true, true, true, false)), (String ((Ascii (true, true, true,
    true, false, true, true, false)), (String ((Ascii (false, true, false,
    false, true, true, true, false)), (String ((Ascii (false, false, true,
    false, false, true, true, false)), (String ((Ascii (false, false, false,
    false, false, true, false, false)), (String ((Ascii (true, false, false,
    true, false, false, true, false)), (String ((Ascii (false, true, true,
    true, false, false, true, false)), (String ((Ascii (true, true, false,
    false, false, false, true, false)), (String ((Ascii (false, false, true,
    true, false, false, true, false)), (String ((Ascii (true, false, true,
    false, true, false, true, false)), (String ((Ascii (false, false, true,
    false, false, false, true, false)), (String ((Ascii (true, false, true,
    false, false, false, true, false)),
    EmptyString)))))))))))))))))))))))))))))))))))), (String ((Ascii (false,
    false, true, false, false, false, true, false)), EmptyString)))) :: []),
    [])) :: ((SSetStep st_stateINCLUD) :: (SRetNil :: [])))) :: (((String
    ((Ascii (true, true, false, false, true, true, true, false)), (String
    ((Ascii (false, false, true, false, true, true, true, false)), (String
    ((Ascii (true, false, false, false, false, true, true, false)), (String
    ((Ascii (false, false, true, false, true, true, true, false)), (String
    ((Ascii (true, false, true, false, false, true, true, false)), (String
    ((Ascii (true, false, false, true, false, false, true, false)), (String
    ((Ascii (false, true, true, true, false, false, true, false)), (String
    ((Ascii (true, true, false, false, false, false, true, false)), (String
    ((Ascii (false, false, true, true, false, false, true, false)), (String
    ((Ascii (true, false, true, false, true, false, true, false)), (String
    ((Ascii (false, false, true, false, false, false, true, false)),
    EmptyString)))))))))))))))))))))), ((SIf ((CNot (CByte (Npos (XI (XO (XI
    (XO (XO (XO XH))))))))), ((SRetErr ((String ((Ascii (true, false, false,
    true, false, true, true, false)), (String ((Ascii (false, true, true,
    true, false, true, true, false)), (String ((Ascii (false, false, false,
    false, false, true, false, false)), (String ((Ascii (true, true, false,
    true, false, true, true, false)), (String ((Ascii (true, false, true,
    false, false, true, true, false)), (String ((Ascii (true, false, false,
    true, true, true, true, false)), (String ((Ascii (true, true, true,
    false, true, true, true, false)), (String ((Ascii (true, true, true,
    true, false, true, true, false)), (String ((Ascii (false, true, false,
    false, true, true, true, false)), (String ((Ascii (false, false, true,
    false, false, true, true, false)), (String ((Ascii (false, false, false,
    false, false, true, false, false)), (String ((Ascii (true, false, false,
    true, false, false, true, false)), (String ((Ascii (false, true, true,
    true, false, false, true, false)), (String ((Ascii (true, true, false,
    false, false, false, true, false)), (String ((Ascii (false, false, true,
    true, false, false, true, false)), (String ((Ascii (true, false, true,
    false, true, false, true, false)), (String ((Ascii (false, false, true,
    false, false, false, true, false)), (String ((Ascii (true, false, true,
    false, false, false, true, false)),
    EmptyString)))))))))))))))))))))))))))))))))))), (String ((Ascii (true,
    false, true, false, false, false, true, false)), EmptyString)))) :: []),
    [])) :: ((SFound (KeywordEnd, Z0)) :: ((SPush
    st_stateExpectKeyword) :: ((SSetStep
    st_stateParameterOrAnnotation) :: (SRetNil :: [])))))) :: (((String
    ((Ascii (true, true, false, false, true, true, true, false)), (String
    ((Ascii (false, false, true, false, true, true, true, false)), (String
    ((Ascii (true, false, false, false, false, true, true, false)), (String
    ((Ascii (false, false, true, false, true, true, true, false)), (String
    ((Ascii (true, false, true, false, false, true, true, false)), (String
    ((Ascii (true, false, false, true, false, false, true, false)), (String
    ((Ascii (false, true, true, true, false, false, true, false)), (String
    ((Ascii (false, true, true, false, false, false, true, false)),
    EmptyString)))))))))))))))), ((SIf ((CNot (CByte (Npos (XI (XI (XI (XI
    (XO (XO XH))))))))), ((SRetErr ((String ((Ascii (true, false, false,
    true, false, true, true, false)), (String ((Ascii (false, true, true,
    true, false, true, true, false)), (String ((Ascii (false, false, false,
    false, false, true, false, false)), (String ((Ascii (true, true, false,
    true, false, true, true, false)), (String ((Ascii (true, false, true,
    false, false, true, true, false)), (String ((Ascii (true, false, false,
    true, true, true, true, false)), (String ((Ascii (true, true, true,
    false, true, true, true, false)), (String ((Ascii (true, true, true,
    true, false, true, true, false)), (String ((Ascii (false, true, false,
    false, true, true, true, false)), (String ((Ascii (false, false, true,
    false, false, true, true, false)), (String ((Ascii (false, false, false,
    false, false, true, false, false)), (String ((Ascii (true, false, false,
    true, false, false, true, false)), (String ((Ascii (false, true, true,
    true, false, false, true, false)), (String ((Ascii (false, true, true,
    false, false, false, true, false)), (String ((Ascii (true, true, true,
    true, false, false, true, false)),
    EmptyString)))))))))))))))))))))))))))))), (String ((Ascii (true, true,
    true, true, false, false, true, false)), EmptyString)))) :: []),
    [])) :: ((SFound (KeywordEnd, Z0)) :: ((SPush
    st_stateExpectKeyword) :: ((SSetStep
    st_stateParameterOrAnnotation) :: (SRetNil :: [])))))) :: (((String
    ((Ascii (true, true, false, false, true, true, true, false)), (String
    ((Ascii (false, false, true, false, true, true, true, false)), (String
    ((Ascii (true, false, false, false, false, true, true, false)), (String
    ((Ascii (false, false, true, false, true, true, true, false)), (String
    ((Ascii (true, false, true, false, false, true, true, false)), (String
    ((Ascii (false, true, false, true, false, false, true, false)),
    EmptyString)))))))))))), ((SIf ((CByte (Npos (XI (XI (XO (XO (XI (XO
    XH)))))))), ((SSetStep st_stateJS) :: (SRetNil :: [])), ((SRetErr
    ((String ((Ascii (true, false, false, true, false, true, true, false)),
    (String ((Ascii (false, true, true, true, false, true, true, false)),
    (String ((Ascii (false, false, false, false, false, true, false, false)),
    (String ((Ascii (true, true, false, true, false, true, true, false)),
    (String ((Ascii (true, false, true, false, false, true, true, false)),
    (String ((Ascii (true, false, false, true, true, true, true, false)),
    (String ((Ascii (true, true, true, false, true, true, true, false)),
    (String ((Ascii (true, true, true, true, false, true, true, false)),
    (String ((Ascii (false, true, false, false, true, true, true, false)),
    (String ((Ascii (false, false, true, false, false, true, true, false)),
    (String ((Ascii (false, false, false, false, false, true, false, false)),
    (String ((Ascii (false, true, false, true, false, false, true, false)),
    (String ((Ascii (true, true, false, false, true, false, true, false)),
    (String ((Ascii (true, false, false, true, false, false, true, false)),
    (String ((Ascii (true, true, true, false, false, false, true, false)),
    (String ((Ascii (false, false, false, true, false, false, true, false)),
    (String ((Ascii (false, false, true, false, true, false, true, false)),
    EmptyString)))))))))))))))))))))))))))))))))), (String ((Ascii (true,
    true, false, false, true, false, true, false)),
    EmptyString)))) :: []))) :: [])) :: (((String ((Ascii (true, true, false,
    false, true, true, true, false)), (String ((Ascii (false, false, true,
    false, true, true, true, false)), (String ((Ascii (true, false, false,
    false, false, true, true, false)), (String ((Ascii (false, false, true,
    false, true, true, true, false)), (String ((Ascii (true, false, true,
    false, false, true, true, false)), (String ((Ascii (false, true, false,
    true, false, false, true, false)), (String ((Ascii (true, true, false,
    false, true, false, true, false)), EmptyString)))))))))))))), ((SIf
    ((CByte (Npos (XI (XO (XO (XI (XO (XO XH)))))))), ((SSetStep
    st_stateJSI) :: (SRetNil :: [])), ((SRetErr ((String ((Ascii (true,
    false, false, true, false, true, true, false)), (String ((Ascii (false,
    true, true, true, false, true, true, false)), (String ((Ascii (false,
    false, false, false, false, true, false, false)), (String ((Ascii (true,
    true, false, true, false, true, true, false)), (String ((Ascii (true,
    false, true, false, false, true, true, false)), (String ((Ascii (true,
    false, false, true, true, true, true, false)), (String ((Ascii (true,
    true, true, false, true, true, true, false)), (String ((Ascii (true,
    true, true, true, false, true, true, false)), (String ((Ascii (false,
    true, false, false, true, true, true, false)), (String ((Ascii (false,
    false, true, false, false, true, true, false)), (String ((Ascii (false,
    false, false, false, false, true, false, false)), (String ((Ascii (false,
    true, false, true, false, false, true, false)), (String ((Ascii (true,
    true, false, false, true, false, true, false)), (String ((Ascii (true,
    false, false, true, false, false, true, false)), (String ((Ascii (true,
    true, true, false, false, false, true, false)), (String ((Ascii (false,
    false, false, true, false, false, true, false)), (String ((Ascii (false,
    false, true, false, true, false, true, false)),
    EmptyString)))))))))))))))))))))))))))))))))), (String ((Ascii (true,
    true, true, true, false, false, true, false)),
    EmptyString)))) :: []))) :: [])) :: (((String ((Ascii (true, true, false,
    false, true, true, true, false)), (String ((Ascii (false, false, true,
    false, true, true, true, false)), (String ((Ascii (true, false, false,
    false, false, true, true, false)), (String ((Ascii (false, false, true,
    false, true, true, true, false)), (String ((Ascii (true, false, true,
    false, false, true, true, false)), (String ((Ascii (false, true, false,
    true, false, false, true, false)), (String ((Ascii (true, true, false,
    false, true, false, true, false)), (String ((Ascii (true, false, false,
    true, false, false, true, false)), EmptyString)))))))))))))))), ((SIf
    ((CByte (Npos (XI (XI (XI (XO (XO (XO XH)))))))), ((SSetStep
    st_stateJSIG) :: (SRetNil :: [])), ((SRetErr ((String ((Ascii (true,
    false, false, true, false, true, true, false)), (String ((Ascii (false,
    true, true, true, false, true, true, false)), (String ((Ascii (false,
    false, false, false, false, true, false, false)), (String ((Ascii (true,
    true, false, true, false, true, true, false)), (String ((Ascii (true,
    false, true, false, false, true, true, false)), (String ((Ascii (true,
    false, false, true, true, true, true, false)), (String ((Ascii (true,
    true, true, false, true, true, true, false)), (String ((Ascii (true,
    true, true, true, false, true, true, false)), (String ((Ascii (false,
    true, false, false, true, true, true, false)), (String ((Ascii (false,
    false, true, false, false, true, true, false)), (String ((Ascii (false,
    false, false, false, false, true, false, false)), (String ((Ascii (false,
    true, false, true, false, false, true, false)), (String ((Ascii (true,
    true, false, false, true, false, true, false)), (String ((Ascii (true,
    false, false, true, false, false, true, false)), (String ((Ascii (true,
    true, true, false, false, false, true, false)), (String ((Ascii (false,
    false, false, true, false, false, true, false)), (String ((Ascii (false,
    false, true, false, true, false, true, false)),
    EmptyString)))))))))))))))))))))))))))))))))), (String ((Ascii (true,
    true, true, false, false, false, true, false)),
    EmptyString)))) :: []))) :: [])) :: (((String ((Ascii (true, true, false,
    false, true, true, true, false)), (String ((Ascii (false, false, true,
    false, true, true, true, false)), (String ((Ascii (true, false, false,
    false, false, true, true, false)), (String ((Ascii (false, false, true,
    false, true, true, true, false)), (String ((Ascii (true, false, true,
    false, false, true, true, false)), (String ((Ascii (false, true, false,
    true, false, false, true, false)), (String ((Ascii (true, true, false,
    false, true, false, true, false)), (String ((Ascii (true, false, false,
    true, false, false, true, false)), (String ((Ascii (true, true, true,
    false, false, false, true, false)), EmptyString)))))))))))))))))), ((SIf
    ((CByte (Npos (XO (XO (XO (XI (XO (XO XH)))))))), ((SSetStep
    st_stateJSIGH) :: (SRetNil :: [])), ((SRetErr ((String ((Ascii (true,
    false, false, true, false, true, true, false)), (String ((Ascii (false,
    true, true, true, false, true, true, false)), (String ((Ascii (false,
    false, false, false, false, true, false, false)), (String ((Ascii (true,
    true, false, true, false, true, true, false)), (String ((Ascii (true,
    false, true, false, false, true, true, false)), (String ((Ascii (true,
    false, false, true, true, true, true, false)), (String ((Ascii (true,
    true, true, false, true, true, true, false)), (String ((Ascii (true,
    true, true, true, false, true, true, false)), (String ((Ascii (false,
    true, false, false, true, true, true, false)), (String ((Ascii (false,
    false, true, false, false, true, true, false)), (String ((Ascii (false,
    false, false, false, false, true, false, false)), (String ((Ascii (false,
    true, false, true, false, false, true, false)), (String ((Ascii (true,
    true, false, false, true, false, true, false)), (String ((Ascii (true,
    false, false, true, false, false, true, false)), (String ((Ascii (true,
    true, true, false, false, false, true, false)), (String ((Ascii (false,
    false, false, true, false, false, true, false)), (String ((Ascii (false,
    false, true, false, true, false, true, false)),
    EmptyString)))))))))))))))))))))))))))))))))), (String ((Ascii (false,
    false, false, true, false, false, true, false)),
    EmptyString)))) :: []))) :: [])) :: (((String ((Ascii (true, true, false,
    false, true, true, true, false)), (String ((Ascii (false, false, true,
    false, true, true, true, false)), (String ((Ascii (true, false, false,
    false, false, true, true, false)), (String ((Ascii (false, false, true,
    false, true, true, true, false)), (String ((Ascii (true, false, true,
    false, false, true, true, false)), (String ((Ascii (false, true, false,
    true, false, false, true, false)), (String ((Ascii (true, true, false,
    false, true, false, true, false)), (String ((Ascii (true, false, false,
    true, false, false, true, false)), (String ((Ascii (true, true, true,
    false, false, false, true, false)), (String ((Ascii (false, false, false,
    true, false, false, true, false)), EmptyString)))))))))))))))))))), ((SIf
    ((CByte (Npos (XO (XO (XI (XO (XI (XO XH)))))))), ((SFound (KeywordEnd,
    Z0)) :: ((SPush st_stateExpectKeyword) :: ((SSetStep
    st_stateParameterOrAnnotation) :: (SRetNil :: [])))), ((SRetErr ((String
    ((Ascii (true, false, false, true, false, true, true, false)), (String
    ((Ascii (false, true, true, true, false, true, true, false)), (String
    ((Ascii (false, false, false, false, false, true, false, false)), (String
    ((Ascii (true, true, false, true, false, true, true, false)), (String
    ((Ascii (true, false, true, false, false, true, true, false)), (String
    ((Ascii (true, false, false, true, true, true, true, false)), (String
    ((Ascii (true, true, true, false, true, true, true, false)), (String
    ((Ascii (true, true, true, true, false, true, true, false)), (String
    ((Ascii (false, true, false, false, true, true, true, false)), (String
    ((Ascii (false, false, true, false, false, true, true, false)), (String
    ((Ascii (false, false, false, false, false, true, false, false)), (String
    ((Ascii (false, true, false, true, false, false, true, false)), (String
    ((Ascii (true, true, false, false, true, false, true, false)), (String
    ((Ascii (true, false, false, true, false, false, true, false)), (String
    ((Ascii (true, true, true, false, false, false, true, false)), (String
    ((Ascii (false, false, false, true, false, false, true, false)), (String
    ((Ascii (false, false, true, false, true, false, true, false)),
    EmptyString)))))))))))))))))))))))))))))))))), (String ((Ascii (false,
    false, true, false, true, false, true, false)),
    EmptyString)))) :: []))) :: [])) :: (((String ((Ascii (true, true, false,
    false, true, true, true, false)), (String ((Ascii (false, false, true,
    false, true, true, true, false)), (String ((Ascii (true, false, false,
    false, false, true, true, false)), (String ((Ascii (false, false, true,
    false, true, true, true, false)), (String ((Ascii (true, false, true,
    false, false, true, true, false)), (String ((Ascii (false, true, false,
    true, false, false, true, false)), (String ((Ascii (true, true, false,
    false, true, false, true, false)), (String ((Ascii (true, true, false,
    false, false, true, true, false)), (String ((Ascii (false, false, false,
    true, false, true, true, false)), (String ((Ascii (true, false, true,
    false, false, true, true, false)), (String ((Ascii (true, false, true,
    true, false, true, true, false)), (String ((Ascii (true, false, false,
    false, false, true, true, false)), EmptyString)))))))))))))))))))))))),
    ((SFound (SchemaBegin, Z0)) :: ((SOracle OJSchema) :: ((SSetStep
    st_stateSchemaClosed) :: (SRetNil :: []))))) :: (((String ((Ascii (true,
    true, false, false, true, true, true, false)), (String ((Ascii (false,
    false, true, false, true, true, true, false)), (String ((Ascii (true,
    false, false, false, false, true, true, false)), (String ((Ascii (false,
    false, true, false, true, true, true, false)), (String ((Ascii (true,
    false, true, false, false, true, true, false)), (String ((Ascii (true,
    false, true, true, false, false, true, false)), EmptyString)))))))))))),
    ((SIf ((CByte (Npos (XI (XO (XO (XO (XO (XO XH)))))))), ((SSetStep
    st_stateMA) :: (SRetNil :: [])), ((SIf ((CByte (Npos (XI (XO (XI (XO (XO
    (XI XH)))))))), ((SSetStep st_stateMe) :: (SRetNil :: [])), ((SRetErr
    ((String ((Ascii (true, false, false, true, false, true, true, false)),
    (String ((Ascii (false, true, true, true, false, true, true, false)),
    (String ((Ascii (false, false, false, false, false, true, false, false)),
    (String ((Ascii (false, false, true, false, false, true, true, false)),
    (String ((Ascii (true, false, false, true, false, true, true, false)),
    (String ((Ascii (false, true, false, false, true, true, true, false)),
    (String ((Ascii (true, false, true, false, false, true, true, false)),
    (String ((Ascii (true, true, false, false, false, true, true, false)),
    (String ((Ascii (false, false, true, false, true, true, true, false)),
    (String ((Ascii (true, false, false, true, false, true, true, false)),
    (String ((Ascii (false, true, true, false, true, true, true, false)),
    (String ((Ascii (true, false, true, false, false, true, true, false)),
    (String ((Ascii (false, false, false, false, false, true, false, false)),
    (String ((Ascii (false, true, true, true, false, true, true, false)),
    (String ((Ascii (true, false, false, false, false, true, true, false)),
    (String ((Ascii (true, false, true, true, false, true, true, false)),
    (String ((Ascii (true, false, true, false, false, true, true, false)),
    EmptyString)))))))))))))))))))))))))))))))))),
    EmptyString)) :: []))) :: []))) :: [])) :: (((String ((Ascii (true, true,
    false, false, true, true, true, false)), (String ((Ascii (false, false,
    true, false, true, true, true, false)), (String ((Ascii (true, false,
    false, false, false, true, true, false)), (String ((Ascii (false, false,
    true, false, true, true, true, false)), (String ((Ascii (true, false,
    true, false, false, true, true, false)), (String ((Ascii (true, false,
    true, true, false, false, true, false)), (String ((Ascii (true, false,
    false, false, false, false, true, false)), EmptyString)))))))))))))),
    ((SIf ((CByte (Npos (XI (XI (XO (XO (XO (XO XH)))))))), ((SSetStep
    st_stateMAC) :: (SRetNil :: [])), ((SRetErr ((String ((Ascii (true,
    false, false, true, false, true, true, false)), (String ((Ascii (false,
    true, true, true, false, true, true, false)), (String ((Ascii (false,
    false, false, false, false, true, false, false)), (String ((Ascii (true,
    true, false, true, false, true, true, false)), (String ((Ascii (true,
    false, true, false, false, true, true, false)), (String ((Ascii (true,
    false, false, true, true, true, true, false)), (String ((Ascii (true,
    true, true, false, true, true, true, false)), (String ((Ascii (true,
    true, true, true, false, true, true, false)), (String ((Ascii (false,
    true, false, false, true, true, true, false)), (String ((Ascii (false,
    false, true, false, false, true, true, false)), (String ((Ascii (false,
    false, false, false, false, true, false, false)), (String ((Ascii (true,
    false, true, true, false, false, true, false)), (String ((Ascii (true,
    false, false, false, false, false, true, false)), (String ((Ascii (true,
    true, false, false, false, false, true, false)), (String ((Ascii (false,
    true, false, false, true, false, true, false)), (String ((Ascii (true,
    true, true, true, false, false, true, false)),
    EmptyString)))))))))))))))))))))))))))))))), (String ((Ascii (true,
    false, true, false, false, true, true, false)),
    EmptyString)))) :: []))) :: [])) :: (((String ((Ascii (true, true, false,
    false, true, true, true, false)), (String ((Ascii (false, false, true,
    false, true, true, true, false)), (String ((Ascii (true, false, false,
    false, false, true, true, false)), (String ((Ascii (false, false, true,
    false, true, true, true, false)), (String ((Ascii (true, false, true,
    false, false, true, true, false)), (String ((Ascii (true, false, true,
    true, false, false, true, false)), (String ((Ascii (true, false, false,
    false, false, false, true, false)), (String ((Ascii (true, true, false,
    false, false, false, true, false)), EmptyString)))))))))))))))), ((SIf
    ((CByte (Npos (XO (XI (XO (XO (XI (XO XH)))))))), ((SSetStep
    st_stateMACR) :: (SRetNil :: [])), ((SRetErr ((String ((Ascii (true,
    false, false, true, false, true, true, false)), (String ((Ascii (false,
    true, true, true, false, true, true, false)), (String ((Ascii (false,
    false, false, false, false, true, false, false)), (String ((Ascii (true,
    true, false, true, false, true, true, false)), (String ((Ascii (true,
    false, true, false, false, true, true, false)), (String ((Ascii (true,
    false, false, true, true, true, true, false)), (String ((Ascii (true,
    true, true, false, true, true, true, false)), (String ((Ascii (true,
    true, true, true, false, true, true, false)), (String ((Ascii (false,
    true, false, false, true, true, true, false)), (String ((Ascii (false,
    false, true, false, false, true, true, false)), (String ((Ascii (false,
    false, false, false, false, true, false, false)), (String ((Ascii (true,
    false, true, true, false, false, true, false)), (String ((Ascii (true,
    false, false, false, false, false, true, false)), (String ((Ascii (true,
    true, false, false, false, false, true, false)), (String ((Ascii (false,
    true, false, false, true, false, true, false)), (String ((Ascii (true,
    true, true, true, false, false, true, false)),
    EmptyString)))))))))))))))))))))))))))))))), (String ((Ascii (false,
    true, false, false, true, true, true, false)),
    EmptyString)))) :: []))) :: [])) :: (((String ((Ascii (true, true, false,
    false, true, true, true, false)), (String ((Ascii (false, false, true,
    false, true, true, true, false)), (String ((Ascii (true, false, false,
    false, false, true, true, false)), (String ((Ascii (false, false, true,
    false, true, true, true, false)), (String ((Ascii (true, false, true,
    false, false, true, true, false)), (String ((Ascii (true, false, true,
    true, false, false, true, false)), (String ((Ascii (true, false, false,
    false, false, false, true, false)), (String ((Ascii (true, true, false,
    false, false, false, true, false)), (String ((Ascii (false, true, false,
    false, true, false, true, false)), EmptyString)))))))))))))))))), ((SIf
    ((CByte (Npos (XI (XI (XI (XI (XO (XO XH)))))))), ((SFound (KeywordEnd,
    Z0)) :: ((SPush st_stateExpectKeyword) :: ((SSetStep
    st_stateParameterOrAnnotation) :: (SRetNil :: [])))), ((SRetErr ((String
    ((Ascii (true, false, false, true, false, true, true, false)), (String
    ((Ascii (false, true, true, true, false, true, true, false)), (String
    ((Ascii (false, false, false, false, false, true, false, false)), (String
    ((Ascii (true, true, false, true, false, true, true, false)), (String
    ((Ascii (true, false, true, false, false, true, true, false)), (String
    ((Ascii (true, false, false, true, true, true, true, false)), (String
    ((Ascii (true, true, true, false, true, true, true, false)), (String
    ((Ascii (true, true, true, true, false, true, true, false)), (String
    ((Ascii (false, true, false, false, true, true, true, false)), (String
    ((Ascii (false, false, true, false, false, true, true, false)), (String
    ((Ascii (false, false, false, false, false, true, false, false)), (String
    ((Ascii (true, false, true, true, false, false, true, false)), (String
    ((Ascii (true, false, false, false, false, false, true, false)), (String
    ((Ascii (true, true, false, false, false, false, true, false)), (String
    ((Ascii (false, true, false, false, true, false, true, false)), (String
    ((Ascii (true, true, true, true, false, false, true, false)),
    EmptyString)))))))))))))))))))))))))))))))), (String ((Ascii (true,
    false, false, true, true, true, true, false)),
    EmptyString)))) :: []))) :: [])) :: (((String ((Ascii (true, true, false,
    false, true, true, true, false)), (String ((Ascii (false, false, true,
    false, true, true, true, false)), (String ((Ascii (true, false, false,
    false, false, true, true, false)), (String ((Ascii (false, false, true,
    false, true, true, true, false)), (String ((Ascii (true, false, true,
    false, false, true, true, false)), (String ((Ascii (true, false, true,
    true, false, false, true, false)), (String ((Ascii (true, false, true,
    false, false, true, true, false)), EmptyString)))))))))))))), ((SIf
    ((CByte (Npos (XO (XO (XI (XO (XI (XI XH)))))))), ((SSetStep
    st_stateMet) :: (SRetNil :: [])), ((SRetErr ((String ((Ascii (true,
    false, false, true, false, true, true, false)), (String ((Ascii (false,
    true, true, true, false, true, true, false)), (String ((Ascii (false,
    false, false, false, false, true, false, false)), (String ((Ascii (true,
    true, false, true, false, true, true, false)), (String ((Ascii (true,
    false, true, false, false, true, true, false)), (String ((Ascii (true,
    false, false, true, true, true, true, false)), (String ((Ascii (true,
    true, true, false, true, true, true, false)), (String ((Ascii (true,
    true, true, true, false, true, true, false)), (String ((Ascii (false,
    true, false, false, true, true, true, false)), (String ((Ascii (false,
    false, true, false, false, true, true, false)), (String ((Ascii (false,
    false, false, false, false, true, false, false)), (String ((Ascii (true,
    false, true, true, false, false, true, false)), (String ((Ascii (true,
    false, true, false, false, true, true, false)), (String ((Ascii (false,
    false, true, false, true, true, true, false)), (String ((Ascii (false,
    false, false, true, false, true, true, false)), (String ((Ascii (true,
    true, true, true, false, true, true, false)), (String ((Ascii (false,
    false, true, false, false, true, true, false)),
    EmptyString)))))))))))))))))))))))))))))))))), (String ((Ascii (false,
    false, true, false, true, true, true, false)),
    EmptyString)))) :: []))) :: [])) :: (((String ((Ascii (true, true, false,
    false, true, true, true, false)), (String ((Ascii (false, false, true,
    false, true, true, true, false)), (String ((Ascii (true, false, false,
    false, false, true, true, false)), (String ((Ascii (false, false, true,
    false, true, true, true, false)), (String ((Ascii (true, false, true,
    false, false, true, true, false)), (String ((Ascii (true, false, true,
    true, false, false, true, false)), (String ((Ascii (true, false, true,
    false, false, true, true, false)), (String ((Ascii (false, false, true,
    false, true, true, true, false)), EmptyString)))))))))))))))), ((SIf
    ((CByte (Npos (XO (XO (XO (XI (XO (XI XH)))))))), ((SSetStep
    st_stateMeth) :: (SRetNil :: [])), ((SRetErr ((String ((Ascii (true,
    false, false, true, false, true, true, false)), (String ((Ascii (false,
    true, true, true, false, true, true, false)), (String ((Ascii (false,
    false, false, false, false, true, false, false)), (String ((Ascii (true,
    true, false, true, false, true, true, false)), (String ((Ascii (true,
    false, true, false, false, true, true, false)), (String ((Ascii (true,
    false, false, true, true, true, true, false)), (String ((Ascii (true,
    true, true, false, true, true, true, false)), (String ((Ascii (true,
    true, true, true, false, true, true, false)), (String ((Ascii (false,
    true, false, false, true, true, true, false)), (String ((Ascii (false,
    false, true, false, false, true, true, false)), (String ((Ascii (false,
    false, false, false, false, true, false, false)), (String ((Ascii (true,
    false, true, true, false, false, true, false)), (String ((Ascii (true,
    false, true, false, false, true, true, false)), (String ((Ascii (false,
    false, true, false, true, true, true, false)), (String ((Ascii (false,
    false, false, true, false, true, true, false)), (String ((Ascii (true,
    true, true, true, false, true, true, false)), (String ((Ascii (false,
    false, true, false, false, true, true, false)),
    EmptyString)))))))))))))))))))))))))))))))))), (String ((Ascii (false,
    false, false, true, false, true, true, false)),
    EmptyString)))) :: []))) :: [])) :: (((String ((Ascii (true, true, false,
    false, true, true, true, false)), (String ((Ascii (false, false, true,
    false, true, true, true, false)), (String ((Ascii (true, false, false,
    false, false, true, true, false)), (String ((Ascii (false, false, true,
    false, true, true, true, false)), (String ((Ascii (true, false, true,
    false, false, true, true, false)), (String ((Ascii (true, false, true,
    true, false, false, true, false)), (String ((Ascii (true, false, true,
    false, false, true, true, false)), (String ((Ascii (false, false, true,
    false, true, true, true, false)), (String ((Ascii (false, false, false,
    true, false, true, true, false)), EmptyString)))))))))))))))))), ((SIf
    ((CByte (Npos (XI (XI (XI (XI (XO (XI XH)))))))), ((SSetStep
    st_stateMetho) :: (SRetNil :: [])), ((SRetErr ((String ((Ascii (true,
    false, false, true, false, true, true, false)), (String ((Ascii (false,
    true, true, true, false, true, true, false)), (String ((Ascii (false,
    false, false, false, false, true, false, false)), (String ((Ascii (true,
    true, false, true, false, true, true, false)), (String ((Ascii (true,
    false, true, false, false, true, true, false)), (String ((Ascii (true,
    false, false, true, true, true, true, false)), (String ((Ascii (true,
    true, true, false, true, true, true, false)), (String ((Ascii (true,
    true, true, true, false, true, true, false)), (String ((Ascii (false,
    true, false, false, true, true, true, false)), (String ((Ascii (false,
    false, true, false, false, true, true, false)), (String ((Ascii (false,
    false, false, false, false, true, false, false)), (String ((Ascii (true,
    false, true, true, false, false, true, false)), (String ((Ascii (true,
    false, true, false, false, true, true, false)), (String ((Ascii (false,
    false, true, false, true, true, true, false)), (String ((Ascii (false,
    false, false, true, false, true, true, false)), (String ((Ascii (true,
    true, true, true, false, true, true, false)), (String ((Ascii (false,
    false, true, false, false, true, true, false)),
    EmptyString)))))))))))))))))))))))))))))))))), (String ((Ascii (true,
    true, true, true, false, true, true, false)),
    EmptyString)))) :: []))) :: [])) :: (((String ((Ascii (true, true, false,
    false, true, true, true, false)), (String ((Ascii (false, false, true,
    false, true, true, true, false)), (String ((Ascii (true, false, false,
    false, false, true, true, false)), (String ((Ascii (false, false, true,
    false, true, true, true, false)), (String ((Ascii (true, false, true,
    false, false, true, true, false)), (String ((Ascii (true, false, true,
    true, false, false, true, false)), (String ((Ascii (true, false, true,
    false, false, true, true, false)), (String ((Ascii (false, false, true,
    false, true, true, true, false)), (String ((Ascii (false, false, false,
    true, false, true, true, false)), (String ((Ascii (true, true, true,
    true, false, true, true, false)), EmptyString)))))))))))))))))))), ((SIf
    ((CByte (Npos (XO (XO (XI (XO (XO (XI XH)))))))), ((SFound (KeywordEnd,
    Z0)) :: ((SPush st_stateExpectKeyword) :: ((SSetStep
    st_stateParameterOrAnnotation) :: (SRetNil :: [])))), ((SRetErr ((String
    ((Ascii (true, false, false, true, false, true, true, false)), (String
    ((Ascii (false, true, true, true, false, true, true, false)), (String
    ((Ascii (false, false, false, false, false, true, false, false)), (String
    ((Ascii (true, true, false, true, false, true, true, false)), (String
    ((Ascii (true, false, true, false, false, true, true, false)), (String
    ((Ascii (true, false, false, true, true, true, true, false)), (String
    ((Ascii (true, true, true, false, true, true, true, false)), (String
    ((Ascii (true, true, true, true, false, true, true, false)), (String
    ((Ascii (false, true, false, false, true, true, true, false)), (String
    ((Ascii (false, false, true, false, false, true, true, false)), (String
    ((Ascii (false, false, false, false, false, true, false, false)), (String
    ((Ascii (true, false, true, true, false, false, true, false)), (String
    ((Ascii (true, false, true, false, false, true, true, false)), (String
    ((Ascii (false, false, true, false, true, true, true, false)), (String
    ((Ascii (false, false, false, true, false, true, true, false)), (String
    ((Ascii (true, true, true, true, false, true, true, false)), (String
    ((Ascii (false, false, true, false, false, true, true, false)),
    EmptyString)))))))))))))))))))))))))))))))))), (String ((Ascii (false,
    false, true, false, false, true, true, false)),
    EmptyString)))) :: []))) :: [])) :: (((String ((Ascii (true, true, false,
    false, true, true, true, false)), (String ((Ascii (false, false, true,
    false, true, true, true, false)), (String ((Ascii (true, false, false,
    false, false, true, true, false)), (String ((Ascii (false, false, true,
    false, true, true, true, false)), (String ((Ascii (true, false, true,
    false, false, true, true, false)), (String ((Ascii (true, false, true,
    true, false, false, true, false)), (String ((Ascii (true, false, true,
    false, true, true, true, false)), (String ((Ascii (false, false, true,
    true, false, true, true, false)), (String ((Ascii (false, false, true,
    false, true, true, true, false)), (String ((Ascii (true, false, false,
    true, false, true, true, false)), (String ((Ascii (false, false, true,
    true, false, true, true, false)), (String ((Ascii (true, false, false,
    true, false, true, true, false)), (String ((Ascii (false, true, true,
    true, false, true, true, false)), (String ((Ascii (true, false, true,
    false, false, true, true, false)), (String ((Ascii (true, false, false,
    false, false, false, true, false)), (String ((Ascii (false, true, true,
    true, false, true, true, false)), (String ((Ascii (false, true, true,
    true, false, true, true, false)), (String ((Ascii (true, true, true,
    true, false, true, true, false)), (String ((Ascii (false, false, true,
    false, true, true, true, false)), (String ((Ascii (true, false, false,
    false, false, true, true, false)), (String ((Ascii (false, false, true,
    false, true, true, true, false)), (String ((Ascii (true, false, false,
    true, false, true, true, false)), (String ((Ascii (true, true, true,
    true, false, true, true, false)), (String ((Ascii (false, true, true,
    true, false, true, true, false)),
    EmptyString)))))))))))))))))))))))))))))))))))))))))))))))), ((SIf ((CAnd
    ((CByte (Npos (XI (XI (XI (XI (XO XH))))))), (CPrevByte ((Zpos XH), (Npos
    (XO (XI (XO (XI (XO XH)))))))))), ((SFound (AnnotationEnd, (Zneg (XO
    XH)))) :: (SPop :: [])), ((SIf ((CByte N0), ((SRetErr ((String ((Ascii
    (true, false, true, true, false, true, true, false)), (String ((Ascii
    (true, false, true, false, true, true, true, false)), (String ((Ascii
    (false, false, true, true, false, true, true, false)), (String ((Ascii
    (false, false, true, false, true, true, true, false)), (String ((Ascii
    (true, false, false, true, false, true, true, false)), (String ((Ascii
    (false, false, true, true, false, true, true, false)), (String ((Ascii
    (true, false, false, true, false, true, true, false)), (String ((Ascii
    (false, true, true, true, false, true, true, false)), (String ((Ascii
    (true, false, true, false, false, true, true, false)), (String ((Ascii
    (false, false, false, false, false, true, false, false)), (String ((Ascii
    (true, false, false, false, false, true, true, false)), (String ((Ascii
    (false, true, true, true, false, true, true, false)), (String ((Ascii
    (false, true, true, true, false, true, true, false)), (String ((Ascii
    (true, true, true, true, false, true, true, false)), (String ((Ascii
    (false, false, true, false, true, true, true, false)), (String ((Ascii
    (true, false, false, false, false, true, true, false)), (String ((Ascii
    (false, false, true, false, true, true, true, false)), (String ((Ascii
    (true, false, false, true, false, true, true, false)), (String ((Ascii
    (true, true, true, true, false, true, true, false)), (String ((Ascii
    (false, true, true, true, false, true, true, false)),
    EmptyString)))))))))))))))))))))))))))))))))))))))), (String ((Ascii
    (false, true, false, true, false, true, false, false)), (String ((Ascii
    (true, true, true, true, false, true, false, false)),
    EmptyString)))))) :: []), [])) :: []))) :: (SRetNil :: []))) :: (((String
    ((Ascii (true, true, false, false, true, true, true, false)), (String
    ((Ascii (false, false, true, false, true, true, true, false)), (String
    ((Ascii (true, false, false, false, false, true, true, false)), (String
    ((Ascii (false, false, true, false, true, true, true, false)), (String
    ((Ascii (true, false, true, false, false, true, true, false)), (String
    ((Ascii (true, false, true, true, false, false, true, false)), (String
    ((Ascii (true, false, true, false, true, true, true, false)), (String
    ((Ascii (false, false, true, true, false, true, true, false)), (String
    ((Ascii (false, false, true, false, true, true, true, false)), (String
    ((Ascii (true, false, false, true, false, true, true, false)), (String
    ((Ascii (false, false, true, true, false, true, true, false)), (String
    ((Ascii (true, false, false, true, false, true, true, false)), (String
    ((Ascii (false, true, true, true, false, true, true, false)), (String
    ((Ascii (true, false, true, false, false, true, true, false)), (String
    ((Ascii (true, false, false, false, false, false, true, false)), (String
    ((Ascii (false, true, true, true, false, true, true, false)), (String
    ((Ascii (false, true, true, true, false, true, true, false)), (String
    ((Ascii (true, true, true, true, false, true, true, false)), (String
    ((Ascii (false, false, true, false, true, true, true, false)), (String
    ((Ascii (true, false, false, false, false, true, true, false)), (String
    ((Ascii (false, false, true, false, true, true, true, false)), (String
    ((Ascii (true, false, false, true, false, true, true, false)), (String
    ((Ascii (true, true, true, true, false, true, true, false)), (String
    ((Ascii (false, true, true, true, false, true, true, false)), (String
    ((Ascii (false, false, true, false, true, false, true, false)), (String
    ((Ascii (true, false, true, false, false, true, true, false)), (String
    ((Ascii (false, false, false, true, true, true, true, false)), (String
    ((Ascii (false, false, true, false, true, true, true, false)), (String
    ((Ascii (true, true, false, false, true, false, true, false)), (String
    ((Ascii (false, false, true, false, true, true, true, false)), (String
    ((Ascii (true, false, false, false, false, true, true, false)), (String
    ((Ascii (false, true, false, false, true, true, true, false)), (String
    ((Ascii (false, false, true, false, true, true, true, false)),
    EmptyString)))))))))))))))))))))))))))))))))))))))))))))))))))))))))))))))))),
    ((SFound (AnnotationBegin, Z0)) :: ((SSetStep
    st_stateMultilineAnnotation) :: ((SRetCall
    st_stateMultilineAnnotation) :: [])))) :: (((String ((Ascii (true, true,
    false, false, true, true, true, false)), (String ((Ascii (false, false,
    true, false, true, true, true, false)), (String ((Ascii (true, false,
    false, false, false, true, true, false)), (String ((Ascii (false, false,
    true, false, true, true, true, false)), (String ((Ascii (true, false,
    true, false, false, true, true, false)), (String ((Ascii (true, true,
    true, true, false, false, true, false)), EmptyString)))))))))))), ((SIf
    ((CByte (Npos (XO (XO (XO (XO (XI (XI XH)))))))), ((SSetStep
    st_stateOp) :: (SRetNil :: [])), ((SRetErr ((String ((Ascii (true, false,
    false, true, false, true, true, false)), (String ((Ascii (false, true,
    true, true, false, true, true, false)), (String ((Ascii (false, false,
    false, false, false, true, false, false)), (String ((Ascii (true, true,
    false, true, false, true, true, false)), (String ((Ascii (true, false,
    true, false, false, true, true, false)), (String ((Ascii (true, false,
    false, true, true, true, true, false)), (String ((Ascii (true, true,
    true, false, true, true, true, false)), (String ((Ascii (true, true,
    true, true, false, true, true, false)), (String ((Ascii (false, true,
    false, false, true, true, true, false)), (String ((Ascii (false, false,
    true, false, false, true, true, false)), (String ((Ascii (false, false,
    false, false, false, true, false, false)), (String ((Ascii (true, true,
    true, true, false, false, true, false)), (String ((Ascii (false, false,
    false, false, true, true, true, false)), (String ((Ascii (true, false,
    true, false, false, true, true, false)), (String ((Ascii (false, true,
    false, false, true, true, true, false)), (String ((Ascii (true, false,
    false, false, false, true, true, false)), (String ((Ascii (false, false,
    true, false, true, true, true, false)), (String ((Ascii (true, false,
    false, true, false, true, true, false)), (String ((Ascii (true, true,
    true, true, false, true, true, false)), (String ((Ascii (false, true,
    true, true, false, true, true, false)), (String ((Ascii (true, false,
    false, true, false, false, true, false)), (String ((Ascii (false, false,
    true, false, false, true, true, false)),
    EmptyString)))))))))))))))))))))))))))))))))))))))))))), (String ((Ascii
    (false, false, false, false, true, true, true, false)),
    EmptyString)))) :: []))) :: [])) :: (((String ((Ascii (true, true, false,
    false, true, true, true, false)), (String ((Ascii (false, false, true,
    false, true, true, true, false)), (String ((Ascii (true, false, false,
    false, false, true, true, false)), (String ((Ascii (false, false, true,
    false, true, true, true, false)), (String ((Ascii (true, false, true,
    false, false, true, true, false)), (String ((Ascii (true, true, true,
    true, false, false, true, false)), (String ((Ascii (false, false, false,
    false, true, true, true, false)), EmptyString)))))))))))))), ((SIf
    ((CByte (Npos (XI (XO (XI (XO (XO (XI XH)))))))), ((SSetStep
    st_stateOpe) :: (SRetNil :: [])), ((SRetErr ((String ((Ascii (true,
    false, false, true, false, true, true, false)), (String ((Ascii (false,
    true, true, true, false, true, true, false)), (String ((Ascii (false,
    false, false, false, false, true, false, false)), (String ((Ascii (true,
    true, false, true, false, true, true, false)), (String ((Ascii (true,
    false, true, false, false, true, true, false)), (String ((Ascii (true,
    false, false, true, true, true, true, false)), (String ((Ascii (true,
    true, true, false, true, true, true, false)), (String ((Ascii (true,
    true, true, true, false, true, true, false)), (String ((Ascii (false,
    true, false, false, true, true, true, false)), (String ((Ascii (false,
    false, true, false, false, true, true, false)), (String ((Ascii (false,
    false, false, false, false, true, false, false)), (String ((Ascii (true,
    true, true, true, false, false, true, false)), (String ((Ascii (false,
    false, false, false, true, true, true, false)), (String ((Ascii (true,
    false, true, false, false, true, true, false)), (String ((Ascii (false,
    true, false, false, true, true, true, false)), (String ((Ascii (true,
    false, false, false, false, true, true, false)), (String ((Ascii (false,
    false, true, false, true, true, true, false)), (String ((Ascii (true,
    false, false, true, false, true, true, false)), (String ((Ascii (true,
    true, true, true, false, true, true, false)), (String ((Ascii (false,
    true, true, true, false, true, true, false)), (String ((Ascii (true,
    false, false, true, false, false, true, false)), (String ((Ascii (false,
    false, true, false, false, true, true, false)),
    EmptyString)))))))))))))))))))))))))))))))))))))))))))), (String ((Ascii
    (true, false, true, false, false, true, true, false)),
    EmptyString)))) :: []))) :: [])) :: (((String ((Ascii (true, true, false,
    false, true, true, true, false)), (String ((Ascii (false, false, true,
    false, true, true, true, false)), (String ((Ascii (true, false, false,
    false, false, true, true, false)), (String ((Ascii (false, false, true,
    false, true, true, true, false)), (String ((Ascii (true, false, true,
    false, false, true, true, false)), (String ((Ascii (true, true, true,
    true, false, false, true, false)), (String ((Ascii (false, false, false,
    false, true, true, true, false)), (String ((Ascii (true, false, true,
    false, false, true, true, false)), EmptyString)))))))))))))))), ((SIf
    ((CByte (Npos (XO (XI (XO (XO (XI (XI XH)))))))), ((SSetStep
    st_stateOper) :: (SRetNil :: [])), ((SRetErr ((String ((Ascii (true,
    false, false, true, false, true, true, false)), (String ((Ascii (false,
    true, true, true, false, true, true, false)), (String ((Ascii (false,
    false, false, false, false, true, false, false)), (String ((Ascii (true,
    true, false, true, false, true, true, false)), (String ((Ascii (true,
    false, true, false, false, true, true, false)), (String ((Ascii (true,
    false, false, true, true, true, true, false)), (String ((Ascii (true,
    true, true, false, true, true, true, false)), (String ((Ascii (true,
    true, true, true, false, true, true, false)), (String ((Ascii (false,
    true, false, false, true, true, true, false)), (String ((Ascii (false,
    false, true, false, false, true, true, false)), (String ((Ascii (false,
    false, false, false, false, true, false, false)), (String ((Ascii (true,
    true, true, true, false, false, true, false)), (String ((Ascii (false,
    false, false, false, true, true, true, false)), (String ((Ascii (true,
    false, true, false, false, true, true, false)), (String ((Ascii (false,
    true, false, false, true, true, true, false)), (String ((Ascii (true,
    false, false, false, false, true, true, false)), (String ((Ascii (false,
    false, true, false, true, true, true, false)), (String ((Ascii (true,
    false, false, true, false, true, true, false)), (String ((Ascii (true,
    true, true, true, false, true, true, false)), (String ((Ascii (false,
    true, true, true, false, true, true, false)), (String ((Ascii (true,
    false, false, true, false, false, true, false)), (String ((Ascii (false,
    false, true, false, false, true, true, false)),
    EmptyString)))))))))))))))))))))))))))))))))))))))))))), (String ((Ascii
    (false, true, false, false, true, true, true, false)),
    EmptyString)))) :: []))) :: [])) :: (((String ((Ascii (true, true, false,
    false, true, true, true, false)), (String ((Ascii (false, false, true,
    false, true, true, true, false)), (String ((Ascii (true, false, false,
    false, false, true, true, false)), (String ((Ascii (false, false, true,
    false, true, true, true, false)), (String ((Ascii (true, false, true,
    false, false, true, true, false)), (String ((Ascii (true, true, true,
    true, false, false, true, false)), (String ((Ascii (false, false, false,
    false, true, true, true, false)), (String ((Ascii (true, false, true,
    false, false, true, true, false)), (String ((Ascii (false, true, false,
    false, true, true, true, false)), EmptyString)))))))))))))))))), ((SIf
    ((CByte (Npos (XI (XO (XO (XO (XO (XI XH)))))))), ((SSetStep
    st_stateOpera) :: (SRetNil :: [])), ((SRetErr ((String ((Ascii (true,
    false, false, true, false, true, true, false)), (String ((Ascii (false,
    true, true, true, false, true, true, false)), (String ((Ascii (false,
    false, false, false, false, true, false, false)), (String ((Ascii (true,
    true, false, true, false, true, true, false)), (String ((Ascii (true,
    false, true, false, false, true, true, false)), (String ((Ascii (true,
    false, false, true, true, true, true, false)), (String ((Ascii (true,
    true, true, false, true, true, true, false)), (String ((Ascii (true,
    true, true, true, false, true, true, false)), (String ((Ascii (false,
    true, false, false, true, true, true, false)), (String ((Ascii (false,
    false, true, false, false, true, true, false)), (String ((Ascii (false,
    false, false, false, false, true, false, false)), (String ((Ascii (true,
    true, true, true, false, false, true, false)), (String ((Ascii (false,
    false, false, false, true, true, true, false)), (String ((Ascii (true,
    false, true, false, false, true, true, false)), (String ((Ascii (false,
    true, false, false, true, true, true, false)), (String ((Ascii (true,
    false, false, false, false, true, true, false)), (String ((Ascii (false,
    false, true, false, true, true, true, false)), (String ((Ascii (true,
    false, false, true, false, true, true, false)), (String ((Ascii (true,
    true, true, true, false, true, true, false)), (String ((Ascii (false,
    true, true, true, false, true, true, false)), (String ((Ascii (true,
    false, false, true, false, false, true, false)), (String ((Ascii (false,
    false, true, false, false, true, true, false)),
    EmptyString)))))))))))))))))))))))))))))))))))))))))))), (String ((Ascii
    (true, false, false, false, false, true, true, false)),
    EmptyString)))) :: []))) :: [])) :: (((String ((Ascii (true, true, false,
    false, true, true, true, false)), (String ((Ascii (false, false, true,
    false, true, true, true, false)), (String ((Ascii (true, false, false,
    false, false, true, true, false)), (String ((Ascii (false, false, true,
    false, true, true, true, false)), (String ((Ascii (true, false, true,
    false, false, true, true, false)), (String ((Ascii (true, true, true,
    true, false, false, true, false)), (String ((Ascii (false, false, false,
    false, true, true, true, false)), (String ((Ascii (true, false, true,
    false, false, true, true, false)), (String ((Ascii (false, true, false,
    false, true, true, true, false)), (String ((Ascii (true, false, false,
    false, false, true, true, false)), EmptyString)))))))))))))))))))), ((SIf
    ((CByte (Npos (XO (XO (XI (XO (XI (XI XH)))))))), ((SSetStep
    st_stateOperat) :: (SRetNil :: [])), ((SRetErr ((String ((Ascii (true,
    false, false, true, false, true, true, false)), (String ((Ascii (false,
    true, true, true, false, true, true, false)), (String ((Ascii (false,
    false, false, false, false, true, false, false)), (String ((Ascii (true,
    true, false, true, false, true, true, false)), (String ((Ascii (true,
    false, true, false, false, true, true, false)), (String ((Ascii (true,
    false, false, true, true, true, true, false)), (String ((Ascii (true,
    true, true, false, true, true, true, false)), (String ((Ascii (true,
    true, true, true, false, true, true, false)), (String ((Ascii (false,
    true, false, false, true, true, true, false)), (String ((Ascii (false,
    false, true, false, false, true, true, false)), (String ((Ascii (false,
    false, false, false, false, true, false, false)), (String ((Ascii (true,
    true, true, true, false, false, true, false)), (String ((Ascii (false,
    false, false, false, true, true, true, false)), (String ((Ascii (true,
    false, true, false, false, true, true, false)), (String ((Ascii (false,
    true, false, false, true, true, true, false)), (String ((Ascii (true,
    false, false, false, false, true, true, false)), (String ((Ascii (false,
    false, true, false, true, true, true, false)), (String ((Ascii (true,
    false, false, true, false, true, true, false)), (String ((Ascii (true,
    true, true, true, false, true, true, false)), (String ((Ascii (false,
    true, true, true, false, true, true, false)), (String ((Ascii (true,
    false, false, true, false, false, true, false)), (String ((Ascii (false,
    false, true, false, false, true, true, false)),
    EmptyString)))))))))))))))))))))))))))))))))))))))))))), (String ((Ascii
    (false, false, true, false, true, true, true, false)),
    EmptyString)))) :: []))) :: [])) :: (((String ((Ascii (true, true, false,
    false, true, true, true, false)), (String ((Ascii (false, false, true,
    false, true, true, true, false)), (String ((Ascii (true, false, false,
    false, false, true, true, false)), (String ((Ascii (false, false, true,
    false, true, true, true, false)), (String ((Ascii (true, false, true,
    false, false, true, true, false)), (String ((Ascii (true, true, true,
    true, false, false, true, false)), (String ((Ascii (false, false, false,
    false, true, true, true, false)), (String ((Ascii (true, false, true,
    false, false, true, true, false)), (String ((Ascii (false, true, false,
    false, true, true, true, false)), (String ((Ascii (true, false, false,
    false, false, true, true, false)), (String ((Ascii (false, false, true,
    false, true, true, true, false)), EmptyString)))))))))))))))))))))),
    ((SIf ((CByte (Npos (XI (XO (XO (XI (XO (XI XH)))))))), ((SSetStep
    st_stateOperati) :: (SRetNil :: [])), ((SRetErr ((String ((Ascii (true,
    false, false, true, false, true, true, false)), (String ((Ascii (false,
    true, true, true, false, true, true, false)), (String ((Ascii (false,
    false, false, false, false, true, false, false)), (String ((Ascii (true,
    true, false, true, false, true, true, false)), (String ((Ascii (true,
    false, true, false, false, true, true, false)), (String ((Ascii (true,
    false, false, true, true, true, true, false)), (String ((Ascii (true,
    true, true, false, true, true, true, false)), (String ((Ascii (true,
    true, true, true, false, true, true, false)), (String ((Ascii (false,
    true, false, false, true, true, true, false)), (String ((Ascii (false,
    false, true, false, false, true, true, false)), (String ((Ascii (false,
    false, false, false, false, true, false, false)), (String ((Ascii (true,
    true, true, true, false, false, true, false)), (String ((Ascii (false,
    false, false, false, true, true, true, false)), (String ((Ascii (true,
    false, true, false, false, true, true, false)), (String ((Ascii (false,
    true, false, false, true, true, true, false)), (String ((Ascii (true,
    false, false, false, false, true, true, false)), (String ((Ascii (false,
    false, true, false, true, true, true, false)), (String ((Ascii (true,
    false, false, true, false, true, true, false)), (String ((Ascii (true,
    true, true, true, false, true, true, false)), (String ((Ascii (false,
    true, true, true, false, true, true, false)), (String ((Ascii (true,
    false, false, true, false, false, true, false)), (String ((Ascii (false,
    false, true, false, false, true, true, false)),
    EmptyString)))))))))))))))))))))))))))))))))))))))))))), (String ((Ascii
    (true, false, false, true, false, true, true, false)),
    EmptyString)))) :: []))) :: [])) :: (((String ((Ascii (true, true, false,
    false, true, true, true, false)), (String ((Ascii (false, false, true,
    false, true, true, true, false)), (String ((Ascii (true, false, false,
    false, false, true, true, false)), (String ((Ascii (false, false, true,
    false, true, true, true, false)), (String ((Ascii (true, false, true,
    false, false, true, true, false)), (String ((Ascii (true, true, true,
    true, false, false, true, false)), (String ((Ascii (false, false, false,
    false, true, true, true, false)), (String ((Ascii (true, false, true,
    false, false, true, true, false)), (String ((Ascii (false, true, false,
    false, true, true, true, false)), (String ((Ascii (true, false, false,
    false, false, true, true, false)), (String ((Ascii (false, false, true,
    false, true, true, true, false)), (String ((Ascii (true, false, false,
    true, false, true, true, false)), EmptyString)))))))))))))))))))))))),
    ((SIf ((CByte (Npos (XI (XI (XI (XI (XO (XI XH)))))))), ((SSetStep
    st_stateOperatio) :: (SRetNil :: [])), ((SRetErr ((String ((Ascii (true,
    false, false, true, false, true, true, false)), (String ((Ascii (false,
    true, true, true, false, true, true, false)), (String ((Ascii (false,
    false, false, false, false, true, false, false)), (String ((Ascii (true,
    true, false, true, false, true, true, false)), (String ((Ascii (true,
    false, true, false, false, true, true, false)), (String ((Ascii (true,
    false, false, true, true, true, true, false)), (String ((Ascii (true,
    true, true, false, true, true, true, false)), (String ((Ascii (true,
    true, true, true, false, true, true, false)), (String ((Ascii (false,
    true, false, false, true, true, true, false)), (String ((Ascii (false,
    false, true, false, false, true, true, false)), (String ((Ascii (false,
    false, false, false, false, true, false, false)), (String ((Ascii (true,
    true, true, true, false, false, true, false)), (String ((Ascii (false,
    false, false, false, true, true, true, false)), (String ((Ascii (true,
    false, true, false, false, true, true, false)), (String ((Ascii (false,
    true, false, false, true, true, true, false)), (String ((Ascii (true,
    false, false, false, false, true, true, false)), (String ((Ascii (false,
    false, true, false, true, true, true, false)), (String ((Ascii (true,
    false, false, true, false, true, true, false)), (String ((Ascii (true,
    true, true, true, false, true, true, false)), (String ((Ascii (false,
    true, true, true, false, true, true, false)), (String ((Ascii (true,
    false, false, true, false, false, true, false)), (String ((Ascii (false,
    false, true, false, false, true, true, false)),
    EmptyString)))))))))))))))))))))))))))))))))))))))))))), (String ((Ascii
    (true, true, true, true, false, true, true, false)),
    EmptyString)))) :: []))) :: [])) :: (((String ((Ascii (true, true, false,
    false, true, true, true, false)), (String ((Ascii (false, false, true,
    false, true, true, true, false)), (String ((Ascii (true, false, false,
    false, false, true, true, false)), (String ((Ascii (false, false, true,
    false, true, true, true, false)), (String ((Ascii (true, false, true,
    false, false, true, true, false)), (String ((Ascii (true, true, true,
    true, false, false, true, false)), (String ((Ascii (false, false, false,
    false, true, true, true, false)), (String ((Ascii (true, false, true,
    false, false, true, true, false)), (String ((Ascii (false, true, false,
    false, true, true, true, false)), (String ((Ascii (true, false, false,
    false, false, true, true, false)), (String ((Ascii (false, false, true,
    false, true, true, true, false)), (String ((Ascii (true, false, false,
    true, false, true, true, false)), (String ((Ascii (true, true, true,
    true, false, true, true, false)), EmptyString)))))))))))))))))))))))))),
    ((SIf ((CByte (Npos (XO (XI (XI (XI (XO (XI XH)))))))), ((SSetStep
    st_stateOperation) :: (SRetNil :: [])), ((SRetErr ((String ((Ascii (true,
    false, false, true, false, true, true, false)), (String ((Ascii (false,
    true, true, true, false, true, true, false)), (String ((Ascii (false,
    false, false, false, false, true, false, false)), (String ((Ascii (true,
    true, false, true, false, true, true, false)), (String ((Ascii (true,
    false, true, false, false, true, true, false)), (String ((Ascii (true,
    false, false, true, true, true, true, false)), (String ((Ascii (true,
    true, true, false, true, true, true, false)), (String ((Ascii (true,
    true, true, true, false, true, true, false)), (String ((Ascii (false,
    true, false, false, true, true, true, false)), (String ((Ascii (false,
    false, true, false, false, true, true, false)), (String ((Ascii (false,
    false, false, false, false, true, false, false)), (String ((Ascii (true,
    true, true, true, false, false, true, false)), (String ((Ascii (false,
    false, false, false, true, true, true, false)), (String ((Ascii (true,
    false, true, false, false, true, true, false)), (String ((Ascii (false,
    true, false, false, true, true, true, false)), (String ((Ascii (true,
    false, false, false, false, true, true, false)), (String ((Ascii (false,
    false, true, false, true, true, true, false)), (String ((Ascii (true,
    false, false, true, false, true, true, false)), (String ((Ascii (true,
    true, true, true, false, true, true, false)), (String ((Ascii (false,
    true, true, true, false, true, true, false)), (String ((Ascii (true,
    false, false, true, false, false, true, false)), (String ((Ascii (false,
    false, true, false, false, true, true, false)),
    EmptyString)))))))))))))))))))))))))))))))))))))))))))), (String ((Ascii
    (false, true, true, true, false, true, true, false)),
    EmptyString)))) :: []))) :: [])) :: (((String ((Ascii (true, true, false,
    false, true, true, true, false)), (String ((Ascii (false, false, true,
    false, true, true, true, false)), (String ((Ascii (true, false, false,
    false, false, true, true, false)), (String ((Ascii (false, false, true,
    false, true, true, true, false)), (String ((Ascii (true, false, true,
    false, false, true, true, false)), (String ((Ascii (true, true, true,
    true, false, false, true, false)), (String ((Ascii (false, false, false,
    false, true, true, true, false)), (String ((Ascii (true, false, true,
    false, false, true, true, false)), (String ((Ascii (false, true, false,
    false, true, true, true, false)), (String ((Ascii (true, false, false,
    false, false, true, true, false)), (String ((Ascii (false, false, true,
    false, true, true, true, false)), (String ((Ascii (true, false, false,
    true, false, true, true, false)), (String ((Ascii (true, true, true,
    true, false, true, true, false)), (String ((Ascii (false, true, true,
    true, false, true, true, false)),
    EmptyString)))))))))))))))))))))))))))), ((SIf ((CByte (Npos (XI (XO (XO
    (XI (XO (XO XH)))))))), ((SSetStep
    st_stateOperationI) :: (SRetNil :: [])), ((SRetErr ((String ((Ascii
    (true, false, false, true, false, true, true, false)), (String ((Ascii
    (false, true, true, true, false, true, true, false)), (String ((Ascii
    (false, false, false, false, false, true, false, false)), (String ((Ascii
    (true, true, false, true, false, true, true, false)), (String ((Ascii
    (true, false, true, false, false, true, true, false)), (String ((Ascii
    (true, false, false, true, true, true, true, false)), (String ((Ascii
    (true, true, true, false, true, true, true, false)), (String ((Ascii
    (true, true, true, true, false, true, true, false)), (String ((Ascii
    (false, true, false, false, true, true, true, false)), (String ((Ascii
    (false, false, true, false, false, true, true, false)), (String ((Ascii
    (false, false, false, false, false, true, false, false)), (String ((Ascii
    (true, true, true, true, false, false, true, false)), (String ((Ascii
    (false, false, false, false, true, true, true, false)), (String ((Ascii
    (true, false, true, false, false, true, true, false)), (String ((Ascii
    (false, true, false, false, true, true, true, false)), (String ((Ascii
    (true, false, false, false, false, true, true, false)), (String ((Ascii
    (false, false, true, false, true, true, true, false)), (String ((Ascii
    (true, false, false, true, false, true, true, false)), (String ((Ascii
    (true, true, true, true, false, true, true, false)), (String ((Ascii
    (false, true, true, true, false, true, true, false)), (String ((Ascii
    (true, false, false, true, false, false, true, false)), (String ((Ascii
    (false, false, true, false, false, true, true, false)),
    EmptyString)))))))))))))))))))))))))))))))))))))))))))), (String ((Ascii
    (true, false, false, true, false, false, true, false)),
    EmptyString)))) :: []))) :: [])) :: (((String ((Ascii (true, true, false,
    false, true, true, true, false)), (String ((Ascii (false, false, true,
    false, true, true, true, false)), (String ((Ascii (true, false, false,
    false, false, true, true, false)), (String ((Ascii (false, false, true,
    false, true, true, true, false)), (String ((Ascii (true, false, true,
    false, false, true, true, false)), (String ((Ascii (true, true, true,
    true, false, false, true, false)), (String ((Ascii (false, false, false,
    false, true, true, true, false)), (String ((Ascii (true, false, true,
    false, false, true, true, false)), (String ((Ascii (false, true, false,
    false, true, true, true, false)), (String ((Ascii (true, false, false,
    false, false, true, true, false)), (String ((Ascii (false, false, true,
    false, true, true, true, false)), (String ((Ascii (true, false, false,
    true, false, true, true, false)), (String ((Ascii (true, true, true,
    true, false, true, true, false)), (String ((Ascii (false, true, true,
    true, false, true, true, false)), (String ((Ascii (true, false, false,
    true, false, false, true, false)),
    EmptyString)))))))))))))))))))))))))))))), ((SIf ((CByte (Npos (XO (XO
    (XI (XO (XO (XI XH)))))))), ((SFound (KeywordEnd, Z0)) :: ((SPush
    st_stateExpectKeyword) :: ((SSetStep
    st_stateParameterOrAnnotation) :: (SRetNil :: [])))), ((SRetErr ((String
    ((Ascii (true, false, false, true, false, true, true, false)), (String
    ((Ascii (false, true, true, true, false, true, true, false)), (String
    ((Ascii (false, false, false, false, false, true, false, false)), (String
    ((Ascii (true, true, false, true, false, true, true, false)), (String
    ((Ascii (true, false, true, false, false, true, true, false)), (String
    ((Ascii (true, false, false, true, true, true, true, false)), (String
    ((Ascii (true, true, true, false, true, true, true, false)), (String
    ((Ascii (true, true, true, true, false, true, true, false)), (String
    ((Ascii (false, true, false, false, true, true, true, false)), (String
    ((Ascii (false, false, true, false, false, true, true, false)), (String
    ((Ascii (false, false, false, false, false, true, false, false)), (String
    ((Ascii (true, true, true, true, false, false, true, false)), (String
    ((Ascii (false, false, false, false, true, true, true, false)), (String
    ((Ascii (true, false, true, false, false, true, true, false)), (String
    ((Ascii (false, true, false, false, true, true, true, false)), (String
    ((Ascii (true, false, false, false, false, true, true, false)), (String
    ((Ascii (false, false, true, false, true, true, true, false)), (String
    ((Ascii (true, false, false, true, false, true, true, false)), (String
    ((Ascii (true, true, true, true, false, true, true, false)), (String
    ((Ascii (false, true, true, true, false, true, true, false)), (String
    ((Ascii (true, false, false, true, false, false, true, false)), (String
    ((Ascii (false, false, true, false, false, true, true, false)),
    EmptyString)))))))))))))))))))))))))))))))))))))))))))), (String ((Ascii
    (false, false, true, false, false, true, true, false)),
    EmptyString)))) :: []))) :: [])) :: (((String ((Ascii (true, true, false,
    false, true, true, true, false)), (String ((Ascii (false, false, true,
    false, true, true, true, false)), (String ((Ascii (true, false, false,
    false, false, true, true, false)), (String ((Ascii (false, false, true,
    false, true, true, true, false)), (String ((Ascii (true, false, true,
    false, false, true, true, false)), (String ((Ascii (false, false, false,
    false, true, false, true, false)), EmptyString)))))))))))), ((SIf ((CByte
    (Npos (XI (XI (XI (XI (XO (XO XH)))))))), ((SSetStep
    st_statePO) :: (SRetNil :: [])), ((SIf ((CByte (Npos (XI (XO (XI (XO (XI
    (XO XH)))))))), ((SSetStep st_statePU) :: (SRetNil :: [])), ((SIf ((CByte
    (Npos (XI (XO (XO (XO (XO (XO XH)))))))), ((SSetStep
    st_statePA) :: (SRetNil :: [])), ((SIf ((CByte (Npos (XI (XO (XO (XO (XO
    (XI XH)))))))), ((SSetStep st_statePa) :: (SRetNil :: [])), ((SIf ((CByte
    (Npos (XO (XI (XO (XO (XI (XI XH)))))))), ((SSetStep
    st_statePr) :: (SRetNil :: [])), ((SRetErr ((String ((Ascii (true, false,
    false, true, false, true, true, false)), (String ((Ascii (false, true,
    true, true, false, true, true, false)), (String ((Ascii (false, false,
    false, false, false, true, false, false)), (String ((Ascii (false, false,
    true, false, false, true, true, false)), (String ((Ascii (true, false,
    false, true, false, true, true, false)), (String ((Ascii (false, true,
    false, false, true, true, true, false)), (String ((Ascii (true, false,
    true, false, false, true, true, false)), (String ((Ascii (true, true,
    false, false, false, true, true, false)), (String ((Ascii (false, false,
    true, false, true, true, true, false)), (String ((Ascii (true, false,
    false, true, false, true, true, false)), (String ((Ascii (false, true,
    true, false, true, true, true, false)), (String ((Ascii (true, false,
    true, false, false, true, true, false)), (String ((Ascii (false, false,
    false, false, false, true, false, false)), (String ((Ascii (false, true,
    true, true, false, true, true, false)), (String ((Ascii (true, false,
    false, false, false, true, true, false)), (String ((Ascii (true, false,
    true, true, false, true, true, false)), (String ((Ascii (true, false,
    true, false, false, true, true, false)),
    EmptyString)))))))))))))))))))))))))))))))))),
    EmptyString)) :: []))) :: []))) :: []))) :: []))) :: []))) :: [])) :: (((String
    ((Ascii (true, true, false, false, true, true, true, false)), (String
    ((Ascii (false, false, true, false, true, true, true, false)), (String
    ((Ascii (true, false, false, false, false, true, true, false)), (String
    ((Ascii (false, false, true, false, true, true, true, false)), (String
    ((Ascii (true, false, true, false, false, true, true, false)), (String
    ((Ascii (false, false, false, false, true, false, true, false)), (String
    ((Ascii (true, false, false, false, false, false, true, false)),
    EmptyString)))))))))))))), ((SIf ((CByte (Npos (XI (XI (XO (XO (XI (XO
    XH)))))))), ((SSetStep st_statePAS) :: (SRetNil :: [])), ((SIf ((CByte
    (Npos (XO (XO (XI (XO (XI (XO XH)))))))), ((SSetStep
    st_statePAT) :: (SRetNil :: [])), ((SRetErr ((String ((Ascii (true,
    false, false, true, false, true, true, false)), (String ((Ascii (false,
    true, true, true, false, true, true, false)), (String ((Ascii (false,
    false, false, false, false, true, false, false)), (String ((Ascii (false,
    false, true, false, false, true, true, false)), (String ((Ascii (true,
    false, false, true, false, true, true, false)), (String ((Ascii (false,
    true, false, false, true, true, true, false)), (String ((Ascii (true,
    false, true, false, false, true, true, false)), (String ((Ascii (true,
    true, false, false, false, true, true, false)), (String ((Ascii (false,
    false, true, false, true, true, true, false)), (String ((Ascii (true,
    false, false, true, false, true, true, false)), (String ((Ascii (false,
    true, true, false, true, true, true, false)), (String ((Ascii (true,
    false, true, false, false, true, true, false)), (String ((Ascii (false,
    false, false, false, false, true, false, false)), (String ((Ascii (false,
    true, true, true, false, true, true, false)), (String ((Ascii (true,
    false, false, false, false, true, true, false)), (String ((Ascii (true,
    false, true, true, false, true, true, false)), (String ((Ascii (true,
    false, true, false, false, true, true, false)),
    EmptyString)))))))))))))))))))))))))))))))))),
    EmptyString)) :: []))) :: []))) :: [])) :: (((String ((Ascii (true, true,
    false, false, true, true, true, false)), (String ((Ascii (false, false,
    true, false, true, true, true, false)), (String ((Ascii (true, false,
    false, false, false, true, true, false)), (String ((Ascii (false, false,
    true, false, true, true, true, false)), (String ((Ascii (true, false,
    true, false, false, true, true, false)), (String ((Ascii (false, false,
    false, false, true, false, true, false)), (String ((Ascii (true, false,
    false, false, false, false, true, false)), (String ((Ascii (true, true,
    false, false, true, false, true, false)), EmptyString)))))))))))))))),
    ((SIf ((CByte (Npos (XO (XO (XI (XO (XI (XO XH)))))))), ((SSetStep
    st_statePAST) :: (SRetNil :: [])), ((SRetErr ((String ((Ascii (true,
    false, false, true, false, true, true, false)), (String ((Ascii (false,
    true, true, true, false, true, true, false)), (String ((Ascii (false,
    false, false, false, false, true, false, false)), (String ((Ascii (true,
    true, false, true, false, true, true, false)), (String ((Ascii (true,
    false, true, false, false, true, true, false)), (String ((Ascii (true,
    false, false, true, true, true, true, false)), (String ((Ascii (true,
    true, true, false, true, true, true, false)), (String ((Ascii (true,
    true, true, true, false, true, true, false)), (String ((Ascii (false,
    true, false, false, true, true, true, false)), (String ((Ascii (false,
    false, true, false, false, true, true, false)), (String ((Ascii (false,
    false, false, false, false, true, false, false)), (String ((Ascii (true,
    false, true, true, false, false, true, false)), (String ((Ascii (true,
    false, false, false, false, false, true, false)), (String ((Ascii (true,
    true, false, false, false, false, true, false)), (String ((Ascii (false,
    true, false, false, true, false, true, false)), (String ((Ascii (true,
    true, true, true, false, false, true, false)),
    EmptyString)))))))))))))))))))))))))))))))), (String ((Ascii (true,
    false, true, false, true, true, true, false)),
    EmptyString)))) :: []))) :: [])) :: (((String ((Ascii (true, true, false,
    false, true, true, true, false)), (String ((Ascii (false, false, true,
    false, true, true, true, false)), (String ((Ascii (true, false, false,
    false, false, true, true, false)), (String ((Ascii (false, false, true,
    false, true, true, true, false)), (String ((Ascii (true, false, true,
    false, false, true, true, false)), (String ((Ascii (false, false, false,
    false, true, false, true, false)), (String ((Ascii (true, false, false,
    false, false, false, true, false)), (String ((Ascii (true, true, false,
    false, true, false, true, false)), (String ((Ascii (false, false, true,
    false, true, false, true, false)), EmptyString)))))))))))))))))), ((SIf
    ((CByte (Npos (XI (XO (XI (XO (XO (XO XH)))))))), ((SFound (KeywordEnd,
    Z0)) :: ((SPush st_stateExpectKeyword) :: ((SSetStep
    st_stateParameterOrAnnotation) :: (SRetNil :: [])))), ((SRetErr ((String
    ((Ascii (true, false, false, true, false, true, true, false)), (String
    ((Ascii (false, true, true, true, false, true, true, false)), (String
    ((Ascii (false, false, false, false, false, true, false, false)), (String
    ((Ascii (true, true, false, true, false, true, true, false)), (String
    ((Ascii (true, false, true, false, false, true, true, false)), (String
    ((Ascii (true, false, false, true, true, true, true, false)), (String
    ((Ascii (true, true, true, false, true, true, true, false)), (String
    ((Ascii (true, true, true, true, false, true, true, false)), (String
    ((Ascii (false, true, false, false, true, true, true, false)), (String
    ((Ascii (false, false, true, false, false, true, true, false)), (String
    ((Ascii (false, false, false, false, false, true, false, false)), (String
    ((Ascii (true, false, true, true, false, false, true, false)), (String
    ((Ascii (true, false, false, false, false, false, true, false)), (String
    ((Ascii (true, true, false, false, false, false, true, false)), (String
    ((Ascii (false, true, false, false, true, false, true, false)), (String
    ((Ascii (true, true, true, true, false, false, true, false)),
    EmptyString)))))))))))))))))))))))))))))))), (String ((Ascii (true,
    false, false, true, true, true, true, false)),
    EmptyString)))) :: []))) :: [])) :: (((String ((Ascii (true, true, false,
    false, true, true, true, false)), (String ((Ascii (false, false, true,
    false, true, true, true, false)), (String ((Ascii (true, false, false,
    false, false, true, true, false)), (String ((Ascii (false, false, true,
    false, true, true, true, false)), (String ((Ascii (true, false, true,
    false, false, true, true, false)), (String ((Ascii (false, false, false,
    false, true, false, true, false)), (String ((Ascii (true, false, false,
    false, false, false, true, false)), (String ((Ascii (false, false, true,
    false, true, false, true, false)), EmptyString)))))))))))))))), ((SIf
    ((CByte (Npos (XI (XI (XO (XO (XO (XO XH)))))))), ((SSetStep
    st_statePATC) :: (SRetNil :: [])), ((SRetErr ((String ((Ascii (true,
    false, false, true, false, true, true, false)), (String ((Ascii (false,
    true, true, true, false, true, true, false)), (String ((Ascii (false,
    false, false, false, false, true, false, false)), (String ((Ascii (true,
    true, false, true, false, true, true, false)), (String ((Ascii (true,
    false, true, false, false, true, true, false)), (String ((Ascii (true,
    false, false, true, true, true, true, false)), (String ((Ascii (true,
    true, true, false, true, true, true, false)), (String ((Ascii (true,
    true, true, true, false, true, true, false)), (String ((Ascii (false,
    true, false, false, true, true, true, false)), (String ((Ascii (false,
    false, true, false, false, true, true, false)), (String ((Ascii (false,
    false, false, false, false, true, false, false)), (String ((Ascii (false,
    false, false, false, true, false, true, false)), (String ((Ascii (true,
    false, false, false, false, false, true, false)), (String ((Ascii (false,
    false, true, false, true, false, true, false)), (String ((Ascii (true,
    true, false, false, false, false, true, false)), (String ((Ascii (false,
    false, false, true, false, false, true, false)),
    EmptyString)))))))))))))))))))))))))))))))), (String ((Ascii (true, true,
    false, false, false, false, true, false)),
    EmptyString)))) :: []))) :: [])) :: (((String ((Ascii (true, true, false,
    false, true, true, true, false)), (String ((Ascii (false, false, true,
    false, true, true, true, false)), (String ((Ascii (true, false, false,
    false, false, true, true, false)), (String ((Ascii (false, false, true,
    false, true, true, true, false)), (String ((Ascii (true, false, true,
    false, false, true, true, false)), (String ((Ascii (false, false, false,
    false, true, false, true, false)), (String ((Ascii (true, false, false,
    false, false, false, true, false)), (String ((Ascii (false, false, true,
    false, true, false, true, false)), (String ((Ascii (true, true, false,
    false, false, false, true, false)), EmptyString)))))))))))))))))), ((SIf
    ((CByte (Npos (XO (XO (XO (XI (XO (XO XH)))))))), ((SFound (KeywordEnd,
    Z0)) :: ((SPush st_stateExpectKeyword) :: ((SSetStep
    st_stateParameterOrAnnotation) :: (SRetNil :: [])))), ((SRetErr ((String
    ((Ascii (true, false, false, true, false, true, true, false)), (String
    ((Ascii (false, true, true, true, false, true, true, false)), (String
    ((Ascii (false, false, false, false, false, true, false, false)), (String
    ((Ascii (true, true, false, true, false, true, true, false)), (String
    ((Ascii (true, false, true, false, false, true, true, false)), (String
    ((Ascii (true, false, false, true, true, true, true, false)), (String
    ((Ascii (true, true, true, false, true, true, true, false)), (String
    ((Ascii (true, true, true, true, false, true, true, false)), (String
    ((Ascii (false, true, false, false, true, true, true, false)), (String
    ((Ascii (false, false, true, false, false, true, true, false)), (String
    ((Ascii (false, false, false, false, false, true, false, false)), (String
    ((Ascii (false, false, false, false, true, false, true, false)), (String
    ((Ascii (true, false, false, false, false, false, true, false)), (String
    ((Ascii (false, false, true, false, true, false, true, false)), (String
    ((Ascii (true, true, false, false, false, false, true, false)), (String
    ((Ascii (false, false, false, true, false, false, true, false)),
    EmptyString)))))))))))))))))))))))))))))))), (String ((Ascii (false,
    false, false, true, false, false, true, false)),
    EmptyString)))) :: []))) :: [])) :: (((String ((Ascii (true, true, false,
    false, true, true, true, false)), (String ((Ascii (false, false, true,
    false, true, true, true, false)), (String ((Ascii (true, false, false,
    false, false, true, true, false)), (String ((Ascii (false, false, true,
    false, true, true, true, false)), (String ((Ascii (true, false, true,
    false, false, true, true, false)), (String ((Ascii (false, false, false,
    false, true, false, true, false)), (String ((Ascii (true, true, true,
    true, false, false, true, false)), EmptyString)))))))))))))), ((SIf
    ((CByte (Npos (XI (XI (XO (XO (XI (XO XH)))))))), ((SSetStep
    st_statePOS) :: (SRetNil :: [])), ((SRetErr ((String ((Ascii (true,
    false, false, true, false, true, true, false)), (String ((Ascii (false,
    true, true, true, false, true, true, false)), (String ((Ascii (false,
    false, false, false, false, true, false, false)), (String ((Ascii (true,
    true, false, true, false, true, true, false)), (String ((Ascii (true,
    false, true, false, false, true, true, false)), (String ((Ascii (true,
    false, false, true, true, true, true, false)), (String ((Ascii (true,
    true, true, false, true, true, true, false)), (String ((Ascii (true,
    true, true, true, false, true, true, false)), (String ((Ascii (false,
    true, false, false, true, true, true, false)), (String ((Ascii (false,
    false, true, false, false, true, true, false)), (String ((Ascii (false,
    false, false, false, false, true, false, false)), (String ((Ascii (false,
    false, false, false, true, false, true, false)), (String ((Ascii (true,
    true, true, true, false, false, true, false)), (String ((Ascii (true,
    true, false, false, true, false, true, false)), (String ((Ascii (false,
    false, true, false, true, false, true, false)),
    EmptyString)))))))))))))))))))))))))))))), (String ((Ascii (true, true,
    false, false, true, false, true, false)),
    EmptyString)))) :: []))) :: [])) :: (((String ((Ascii (true, true, false,
    false, true, true, true, false)), (String ((Ascii (false, false, true,
    false, true, true, true, false)), (String ((Ascii (true, false, false,
    false, false, true, true, false)), (String ((Ascii (false, false, true,
    false, true, true, true, false)), (String ((Ascii (true, false, true,
    false, false, true, true, false)), (String ((Ascii (false, false, false,
    false, true, false, true, false)), (String ((Ascii (true, true, true,
    true, false, false, true, false)), (String ((Ascii (true, true, false,
    false, true, false, true, false)), EmptyString)))))))))))))))), ((SIf
    ((CByte (Npos (XO (XO (XI (XO (XI (XO XH)))))))), ((SFound (KeywordEnd,
    Z0)) :: ((SPush st_stateExpectKeyword) :: ((SSetStep
    st_stateParameterOrAnnotation) :: (SRetNil :: [])))), ((SRetErr ((String
    ((Ascii (true, false, false, true, false, true, true, false)), (String
    ((Ascii (false, true, true, true, false, true, true, false)), (String
    ((Ascii (false, false, false, false, false, true, false, false)), (String
    ((Ascii (true, true, false, true, false, true, true, false)), (String
    ((Ascii (true, false, true, false, false, true, true, false)), (String
    ((Ascii (true, false, false, true, true, true, true, false)), (String
    ((Ascii (true, true, true, false, true, true, true, false)), (String
    ((Ascii (true, true, true, true, false, true, true, false)), (String
    ((Ascii (false, true, false, false, true, true, true, false)), (String
    ((Ascii (false, false, true, false, false, true, true, false)), (String
    ((Ascii (false, false, false, false, false, true, false, false)), (String
    ((Ascii (false, false, false, false, true, false, true, false)), (String
    ((Ascii (true, true, true, true, false, false, true, false)), (String
    ((Ascii (true, true, false, false, true, false, true, false)), (String
    ((Ascii (false, false, true, false, true, false, true, false)),
    EmptyString)))))))))))))))))))))))))))))), (String ((Ascii (false, false,
    true, false, true, false, true, false)),
    EmptyString)))) :: []))) :: [])) :: (((String ((Ascii (true, true, false,
    false, true, true, true, false)), (String ((Ascii (false, false, true,
    false, true, true, true, false)), (String ((Ascii (true, false, false,
    false, false, true, true, false)), (String ((Ascii (false, false, true,
    false, true, true, true, false)), (String ((Ascii (true, false, true,
    false, false, true, true, false)), (String ((Ascii (false, false, false,
    false, true, false, true, false)), (String ((Ascii (true, false, true,
    false, true, false, true, false)), EmptyString)))))))))))))), ((SIf
    ((CByte (Npos (XO (XO (XI (XO (XI (XO XH)))))))), ((SFound (KeywordEnd,
    Z0)) :: ((SPush st_stateExpectKeyword) :: ((SSetStep
    st_stateParameterOrAnnotation) :: (SRetNil :: [])))), ((SRetErr ((String
    ((Ascii (true, false, false, true, false, true, true, false)), (String
    ((Ascii (false, true, true, true, false, true, true, false)), (String
    ((Ascii (false, false, false, false, false, true, false, false)), (String
    ((Ascii (true, true, false, true, false, true, true, false)), (String
    ((Ascii (true, false, true, false, false, true, true, false)), (String
    ((Ascii (true, false, false, true, true, true, true, false)), (String
    ((Ascii (true, true, true, false, true, true, true, false)), (String
    ((Ascii (true, true, true, true, false, true, true, false)), (String
    ((Ascii (false, true, false, false, true, true, true, false)), (String
    ((Ascii (false, false, true, false, false, true, true, false)), (String
    ((Ascii (false, false, false, false, false, true, false, false)), (String
    ((Ascii (false, false, false, false, true, false, true, false)), (String
    ((Ascii (true, false, true, false, true, false, true, false)), (String
    ((Ascii (false, false, true, false, true, false, true, false)),
    EmptyString)))))))))))))))))))))))))))), (String ((Ascii (false, false,
    true, false, true, false, true, false)),
    EmptyString)))) :: []))) :: [])) :: (((String ((Ascii (true, true, false,
    false, true, true, true, false)), (String ((Ascii (false, false, true,
    false, true, true, true, false)), (String ((Ascii (true, false, false,
    false, false, true, true, false)), (String ((Ascii (false, false, true,
    false, true, true, true, false)), (String ((Ascii (true, false, true,
    false, false, true, true, false)), (String ((Ascii (false, false, false,
    false, true, false, true, false)), (String ((Ascii (true, false, false,
    false, false, true, true, false)), EmptyString)))))))))))))), ((SIf
    ((CByte (Npos (XO (XO (XI (XO (XI (XI XH)))))))), ((SSetStep
    st_statePat) :: (SRetNil :: [])), ((SIf ((CByte (Npos (XO (XI (XO (XO (XI
    (XI XH)))))))), ((SSetStep st_statePar) :: (SRetNil :: [])), ((SRetErr
    ((String ((Ascii (true, false, false, true, false, true, true, false)),
    (String ((Ascii (false, true, true, true, false, true, true, false)),
    (String ((Ascii (false, false, false, false, false, true, false, false)),
    (String ((Ascii (false, false, true, false, false, true, true, false)),
    (String ((Ascii (true, false, false, true, false, true, true, false)),
    (String ((Ascii (false, true, false, false, true, true, true, false)),
    (String ((Ascii (true, false, true, false, false, true, true, false)),
    (String ((Ascii (true, true, false, false, false, true, true, false)),
    (String ((Ascii (false, false, true, false, true, true, true, false)),
    (String ((Ascii (true, false, false, true, false, true, true, false)),
    (String ((Ascii (false, true, true, false, true, true, true, false)),
    (String ((Ascii (true, false, true, false, false, true, true, false)),
    (String ((Ascii (false, false, false, false, false, true, false, false)),
    (String ((Ascii (false, true, true, true, false, true, true, false)),
    (String ((Ascii (true, false, false, false, false, true, true, false)),
    (String ((Ascii (true, false, true, true, false, true, true, false)),
    (String ((Ascii (true, false, true, false, false, true, true, false)),
    EmptyString)))))))))))))))))))))))))))))))))),
    EmptyString)) :: []))) :: []))) :: [])) :: (((String ((Ascii (true, true,
    false, false, true, true, true, false)), (String ((Ascii (false, false,
    true, false, true, true, true, false)), (String ((Ascii (true, false,
    false, false, false, true, true, false)), (String ((Ascii (false, false,
    true, false, true, true, true, false)), (String ((Ascii (true, false,
    true, false, false, true, true, false)), (String ((Ascii (false, false,
    false, false, true, false, true, false)), (String ((Ascii (true, false,
    false, false, false, true, true, false)), (String ((Ascii (false, true,
    false, false, true, true, true, false)), EmptyString)))))))))))))))),
    ((SIf ((CByte (Npos (XI (XO (XO (XO (XO (XI XH)))))))), ((SSetStep
    st_statePara) :: (SRetNil :: [])), ((SRetErr ((String ((Ascii (true,
    false, false, true, false, true, true, false)), (String ((Ascii (false,
    true, true, true, false, true, true, false)), (String ((Ascii (false,
    false, false, false, false, true, false, false)), (String ((Ascii (true,
    true, false, true, false, true, true, false)), (String ((Ascii (true,
    false, true, false, false, true, true, false)), (String ((Ascii (true,
    false, false, true, true, true, true, false)), (String ((Ascii (true,
    true, true, false, true, true, true, false)), (String ((Ascii (true,
    true, true, true, false, true, true, false)), (String ((Ascii (false,
    true, false, false, true, true, true, false)), (String ((Ascii (false,
    false, true, false, false, true, true, false)), (String ((Ascii (false,
    false, false, false, false, true, false, false)), (String ((Ascii (false,
    false, false, false, true, false, true, false)), (String ((Ascii (true,
    false, false, false, false, true, true, false)), (String ((Ascii (false,
    true, false, false, true, true, true, false)), (String ((Ascii (true,
    false, false, false, false, true, true, false)), (String ((Ascii (true,
    false, true, true, false, true, true, false)), (String ((Ascii (true,
    true, false, false, true, true, true, false)),
    EmptyString)))))))))))))))))))))))))))))))))), (String ((Ascii (true,
    false, false, false, false, true, true, false)),
    EmptyString)))) :: []))) :: [])) :: (((String ((Ascii (true, true, false,
    false, true, true, true, false)), (String ((Ascii (false, false, true,
    false, true, true, true, false)), (String ((Ascii (true, false, false,
    false, false, true, true, false)), (String ((Ascii (false, false, true,
    false, true, true, true, false)), (String ((Ascii (true, false, true,
    false, false, true, true, false)), (String ((Ascii (false, false, false,
    false, true, false, true, false)), (String ((Ascii (true, false, false,
    false, false, true, true, false)), (String ((Ascii (false, true, false,
    false, true, true, true, false)), (String ((Ascii (true, false, false,
    false, false, true, true, false)), EmptyString)))))))))))))))))), ((SIf
    ((CByte (Npos (XI (XO (XI (XI (XO (XI XH)))))))), ((SSetStep
    st_stateParam) :: (SRetNil :: [])), ((SRetErr ((String ((Ascii (true,
    false, false, true, false, true, true, false)), (String ((Ascii (false,
    true, true, true, false, true, true, false)), (String ((Ascii (false,
    false, false, false, false, true, false, false)), (String ((Ascii (true,
    true, false, true, false, true, true, false)), (String ((Ascii (true,
    false, true, false, false, true, true, false)), (String ((Ascii (true,
    false, false, true, true, true, true, false)), (String ((Ascii (true,
    true, true, false, true, true, true, false)), (String ((Ascii (true,
    true, true, true, false, true, true, false)), (String ((Ascii (false,
    true, false, false, true, true, true, false)), (String ((Ascii (false,
    false, true, false, false, true, true, false)), (String ((Ascii (false,
    false, false, false, false, true, false, false)), (String ((Ascii (false,
    false, false, false, true, false, true, false)), (String ((Ascii (true,
    false, false, false, false, true, true, false)), (String ((Ascii (false,
    true, false, false, true, true, true, false)), (String ((Ascii (true,
    false, false, false, false, true, true, false)), (String ((Ascii (true,
    false, true, true, false, true, true, false)), (String ((Ascii (true,
    true, false, false, true, true, true, false)),
    EmptyString)))))))))))))))))))))))))))))))))), (String ((Ascii (true,
    false, true, true, false, true, true, false)),
    EmptyString)))) :: []))) :: [])) :: (((String ((Ascii (true, true, false,
    false, true, true, true, false)), (String ((Ascii (false, false, true,
    false, true, true, true, false)), (String ((Ascii (true, false, false,
    false, false, true, true, false)), (String ((Ascii (false, false, true,
    false, true, true, true, false)), (String ((Ascii (true, false, true,
    false, false, true, true, false)), (String ((Ascii (false, false, false,
    false, true, false, true, false)), (String ((Ascii (true, false, false,
    false, false, true, true, false)), (String ((Ascii (false, true, false,
    false, true, true, true, false)), (String ((Ascii (true, false, false,
    false, false, true, true, false)), (String ((Ascii (true, false, true,
    true, false, true, true, false)), EmptyString)))))))))))))))))))), ((SIf
    ((CByte (Npos (XI (XI (XO (XO (XI (XI XH)))))))), ((SFound (KeywordEnd,
    Z0)) :: ((SPush st_stateParamsBody) :: ((SSetStep
    st_stateParameterOrAnnotation) :: (SRetNil :: [])))), ((SRetErr ((String
    ((Ascii (true, false, false, true, false, true, true, false)), (String
    ((Ascii (false, true, true, true, false, true, true, false)), (String
    ((Ascii (false, false, false, false, false, true, false, false)), (String
    ((Ascii (true, true, false, true, false, true, true, false)), (String
    ((Ascii (true, false, true, false, false, true, true, false)), (String
    ((Ascii (true, false, false, true, true, true, true, false)), (String
    ((Ascii (true, true, true, false, true, true, true, false)), (String
    ((Ascii (true, true, true, true, false, true, true, false)), (String
    ((Ascii (false, true, false, false, true, true, true, false)), (String
    ((Ascii (false, false, true, false, false, true, true, false)), (String
    ((Ascii (false, false, false, false, false, true, false, false)), (String
    ((Ascii (false, false, false, false, true, false, true, false)), (String
    ((Ascii (true, false, false, false, false, true, true, false)), (String
    ((Ascii (false, true, false, false, true, true, true, false)), (String
    ((Ascii (true, false, false, false, false, true, true, false)), (String
    ((Ascii (true, false, true, true, false, true, true, false)), (String
    ((Ascii (true, true, false, false, true, true, true, false)),
    EmptyString)))))))))))))))))))))))))))))))))), (String ((Ascii (true,
    true, false, false, true, true, true, false)),
    EmptyString)))) :: []))) :: [])) :: (((String ((Ascii (true, true, false,
    false, true, true, true, false)), (String ((Ascii (false, false, true,
    false, true, true, true, false)), (String ((Ascii (true, false, false,
    false, false, true, true, false)), (String ((Ascii (false, false, true,
    false, true, true, true, false)), (String ((Ascii (true, false, true,
    false, false, true, true, false)), (String ((Ascii (false, false, false,
    false, true, false, true, false)), (String ((Ascii (true, false, false,
    false, false, true, true, false)), (String ((Ascii (false, true, false,
    false, true, true, true, false)), (String ((Ascii (true, false, false,
    false, false, true, true, false)), (String ((Ascii (true, false, true,
    true, false, true, true, false)), (String ((Ascii (true, false, true,
    false, false, true, true, false)), (String ((Ascii (false, false, true,
    false, true, true, true, false)), (String ((Ascii (true, false, true,
    false, false, true, true, false)), (String ((Ascii (false, true, false,
    false, true, true, true, false)), (String ((Ascii (true, false, false,
    true, false, false, true, false)), (String ((Ascii (false, true, true,
    true, false, true, true, false)), (String ((Ascii (true, false, false,
    false, true, false, true, false)), (String ((Ascii (true, false, true,
    false, true, true, true, false)), (String ((Ascii (true, true, true,
    true, false, true, true, false)), (String ((Ascii (false, false, true,
    false, true, true, true, false)), (String ((Ascii (true, false, true,
    false, false, true, true, false)), (String ((Ascii (false, false, true,
    false, false, true, true, false)),
    EmptyString)))))))))))))))))))))))))))))))))))))))))))), ((SIf ((COr
    (CNewLine, (CByte N0))), ((SRetErr ((String ((Ascii (true, false, false,
    true, false, true, true, false)), (String ((Ascii (false, true, true,
    true, false, true, true, false)), (String ((Ascii (false, false, false,
    false, false, true, false, false)), (String ((Ascii (false, false, true,
    false, false, true, true, false)), (String ((Ascii (true, false, false,
    true, false, true, true, false)), (String ((Ascii (false, true, false,
    false, true, true, true, false)), (String ((Ascii (true, false, true,
    false, false, true, true, false)), (String ((Ascii (true, true, false,
    false, false, true, true, false)), (String ((Ascii (false, false, true,
    false, true, true, true, false)), (String ((Ascii (true, false, false,
    true, false, true, true, false)), (String ((Ascii (false, true, true,
    false, true, true, true, false)), (String ((Ascii (true, false, true,
    false, false, true, true, false)), (String ((Ascii (false, false, false,
    false, false, true, false, false)), (String ((Ascii (false, false, false,
    false, true, true, true, false)), (String ((Ascii (true, false, false,
    false, false, true, true, false)), (String ((Ascii (false, true, false,
    false, true, true, true, false)), (String ((Ascii (true, false, false,
    false, false, true, true, false)), (String ((Ascii (true, false, true,
    true, false, true, true, false)), (String ((Ascii (true, false, true,
    false, false, true, true, false)), (String ((Ascii (false, false, true,
    false, true, true, true, false)), (String ((Ascii (true, false, true,
    false, false, true, true, false)), (String ((Ascii (false, true, false,
    false, true, true, true, false)),
    EmptyString)))))))))))))))))))))))))))))))))))))))))))), (String ((Ascii
    (true, true, false, false, false, true, true, false)), (String ((Ascii
    (false, false, true, true, false, true, true, false)), (String ((Ascii
    (true, true, true, true, false, true, true, false)), (String ((Ascii
    (true, true, false, false, true, true, true, false)), (String ((Ascii
    (true, false, false, true, false, true, true, false)), (String ((Ascii
    (false, true, true, true, false, true, true, false)), (String ((Ascii
    (true, true, true, false, false, true, true, false)), (String ((Ascii
    (false, false, false, false, false, true, false, false)), (String ((Ascii
    (true, false, false, false, true, true, true, false)), (String ((Ascii
    (true, false, true, false, true, true, true, false)), (String ((Ascii
    (true, true, true, true, false, true, true, false)), (String ((Ascii
    (false, false, true, false, true, true, true, false)), (String ((Ascii
    (true, false, false, false, false, true, true, false)), (String ((Ascii
    (false, false, true, false, true, true, true, false)), (String ((Ascii
    (true, false, false, true, false, true, true, false)), (String ((Ascii
    (true, true, true, true, false, true, true, false)), (String ((Ascii
    (false, true, true, true, false, true, true, false)), (String ((Ascii
    (false, false, false, false, false, true, false, false)), (String ((Ascii
    (true, false, true, true, false, true, true, false)), (String ((Ascii
    (true, false, false, false, false, true, true, false)), (String ((Ascii
    (false, true, false, false, true, true, true, false)), (String ((Ascii
    (true, true, false, true, false, true, true, false)),
    EmptyString)))))))))))))))))))))))))))))))))))))))))))))) :: []), ((SIf
    ((CByte (Npos (XO (XO (XI (XI (XI (XO XH)))))))), ((SSetStep
    st_stateParameterInQuotedSlash) :: []), ((SIf ((CByte (Npos (XO (XI (XO
    (XO (XO XH))))))), ((SFound (ParameterEnd, Z0)) :: ((SSetStep
    st_stateParameterOrAnnotation) :: [])),
    [])) :: []))) :: []))) :: (SRetNil :: []))) :: (((String ((Ascii (true,
    true, false, false, true, true, true, false)), (String ((Ascii (false,
    false, true, false, true, true, true, false)), (String ((Ascii (true,
    false, false, false, false, true, true, false)), (String ((Ascii (false,
    false, true, false, true, true, true, false)), (String ((Ascii (true,
    false, true, false, false, true, true, false)), (String ((Ascii (false,
    false, false, false, true, false, true, false)), (String ((Ascii (true,
    false, false, false, false, true, true, false)), (String ((Ascii (false,
    true, false, false, true, true, true, false)), (String ((Ascii (true,
    false, false, false, false, true, true, false)), (String ((Ascii (true,
    false, true, true, false, true, true, false)), (String ((Ascii (true,
    false, true, false, false, true, true, false)), (String ((Ascii (false,
    false, true, false, true, true, true, false)), (String ((Ascii (true,
    false, true, false, false, true, true, false)), (String ((Ascii (false,
    true, false, false, true, true, true, false)), (String ((Ascii (true,
    false, false, true, false, false, true, false)), (String ((Ascii (false,
    true, true, true, false, true, true, false)), (String ((Ascii (true,
    false, false, false, true, false, true, false)), (String ((Ascii (true,
    false, true, false, true, true, true, false)), (String ((Ascii (true,
    true, true, true, false, true, true, false)), (String ((Ascii (false,
    false, true, false, true, true, true, false)), (String ((Ascii (true,
    false, true, false, false, true, true, false)), (String ((Ascii (false,
    false, true, false, false, true, true, false)), (String ((Ascii (true,
    true, false, false, true, false, true, false)), (String ((Ascii (false,
    false, true, true, false, true, true, false)), (String ((Ascii (true,
    false, false, false, false, true, true, false)), (String ((Ascii (true,
    true, false, false, true, true, true, false)), (String ((Ascii (false,
    false, false, true, false, true, true, false)),
    EmptyString)))))))))))))))))))))))))))))))))))))))))))))))))))))), ((SIf
    ((CByte (Npos (XO (XO (XI (XI (XI (XO XH)))))))), ((SSetStep
    st_stateParameterInQuoted) :: []), ((SIf ((CByte (Npos (XO (XI (XO (XO
    (XO XH))))))), ((SSetStep st_stateParameterInQuoted) :: []), ((SRetErr
    ((String ((Ascii (true, true, true, false, true, true, true, false)),
    (String ((Ascii (false, false, false, true, false, true, true, false)),
    (String ((Ascii (true, false, true, false, false, true, true, false)),
    (String ((Ascii (false, true, true, true, false, true, true, false)),
    (String ((Ascii (false, false, false, false, false, true, false, false)),
    (String ((Ascii (true, false, true, false, false, true, true, false)),
    (String ((Ascii (true, true, false, false, true, true, true, false)),
    (String ((Ascii (true, true, false, false, false, true, true, false)),
    (String ((Ascii (true, false, false, false, false, true, true, false)),
    (String ((Ascii (false, false, false, false, true, true, true, false)),
    (String ((Ascii (true, false, false, true, false, true, true, false)),
    (String ((Ascii (false, true, true, true, false, true, true, false)),
    (String ((Ascii (true, true, true, false, false, true, true, false)),
    (String ((Ascii (false, false, false, false, false, true, false, false)),
    (String ((Ascii (true, true, false, false, false, true, true, false)),
    (String ((Ascii (false, false, false, true, false, true, true, false)),
    (String ((Ascii (true, false, false, false, false, true, true, false)),
    (String ((Ascii (false, true, false, false, true, true, true, false)),
    (String ((Ascii (true, false, false, false, false, true, true, false)),
    (String ((Ascii (true, true, false, false, false, true, true, false)),
    (String ((Ascii (false, false, true, false, true, true, true, false)),
    (String ((Ascii (true, false, true, false, false, true, true, false)),
    (String ((Ascii (false, true, false, false, true, true, true, false)),
    (String ((Ascii (true, true, false, false, true, true, true, false)),
    (String ((Ascii (false, false, false, false, false, true, false, false)),
    (String ((Ascii (true, false, false, true, false, true, true, false)),
    (String ((Ascii (false, true, true, true, false, true, true, false)),
    (String ((Ascii (false, false, false, false, false, true, false, false)),
    (String ((Ascii (false, false, false, false, true, true, true, false)),
    (String ((Ascii (true, false, false, false, false, true, true, false)),
    (String ((Ascii (false, true, false, false, true, true, true, false)),
    (String ((Ascii (true, false, false, false, false, true, true, false)),
    (String ((Ascii (true, false, true, true, false, true, true, false)),
    (String ((Ascii (true, false, true, false, false, true, true, false)),
    (String ((Ascii (false, false, true, false, true, true, true, false)),
    (String ((Ascii (true, false, true, false, false, true, true, false)),
    (String ((Ascii (false, true, false, false, true, true, true, false)),
    (String ((Ascii (true, true, false, false, true, true, true, false)),
    EmptyString)))))))))))))))))))))))))))))))))))))))))))))))))))))))))))))))))))))))))))),
    (String ((Ascii (true, false, false, false, true, true, true, false)),
    (String ((Ascii (true, false, true, false, true, true, true, false)),
    (String ((Ascii (true, true, true, true, false, true, true, false)),
    (String ((Ascii (false, false, true, false, true, true, true, false)),
    (String ((Ascii (true, false, false, false, false, true, true, false)),
    (String ((Ascii (false, false, true, false, true, true, true, false)),
    (String ((Ascii (true, false, false, true, false, true, true, false)),
    (String ((Ascii (true, true, true, true, false, true, true, false)),
    (String ((Ascii (false, true, true, true, false, true, true, false)),
    (String ((Ascii (false, false, false, false, false, true, false, false)),
    (String ((Ascii (true, false, true, true, false, true, true, false)),
    (String ((Ascii (true, false, false, false, false, true, true, false)),
    (String ((Ascii (false, true, false, false, true, true, true, false)),
    (String ((Ascii (true, true, false, true, false, true, true, false)),
    (String ((Ascii (true, true, false, false, true, true, true, false)),
    (String ((Ascii (false, false, false, false, false, true, false, false)),
    (String ((Ascii (true, true, true, true, false, true, true, false)),
    (String ((Ascii (false, true, false, false, true, true, true, false)),
    (String ((Ascii (false, false, false, false, false, true, false, false)),
    (String ((Ascii (true, true, false, false, true, true, true, false)),
    (String ((Ascii (false, false, true, true, false, true, true, false)),
    (String ((Ascii (true, false, false, false, false, true, true, false)),
    (String ((Ascii (true, true, false, false, true, true, true, false)),
    (String ((Ascii (false, false, false, true, false, true, true, false)),
    EmptyString)))))))))))))))))))))))))))))))))))))))))))))))))) :: []))) :: []))) :: (SRetNil :: []))) :: (((String
    ((Ascii (true, true, false, false, true, true, true, false)), (String
    ((Ascii (false, false, true, false, true, true, true, false)), (String
    ((Ascii (true, false, false, false, false, true, true, false)), (String
    ((Ascii (false, false, true, false, true, true, true, false)), (String
    ((Ascii (true, false, true, false, false, true, true, false)), (String
    ((Ascii (false, false, false, false, true, false, true, false)), (String
    ((Ascii (true, false, false, false, false, true, true, false)), (String
    ((Ascii (false, true, false, false, true, true, true, false)), (String
    ((Ascii (true, false, false, false, false, true, true, false)), (String
    ((Ascii (true, false, true, true, false, true, true, false)), (String
    ((Ascii (true, false, true, false, false, true, true, false)), (String
    ((Ascii (false, false, true, false, true, true, true, false)), (String
    ((Ascii (true, false, true, false, false, true, true, false)), (String
    ((Ascii (false, true, false, false, true, true, true, false)), (String
    ((Ascii (true, true, true, true, false, false, true, false)), (String
    ((Ascii (false, true, false, false, true, true, true, false)), (String
    ((Ascii (true, false, false, false, false, false, true, false)), (String
    ((Ascii (false, true, true, true, false, true, true, false)), (String
    ((Ascii (false, true, true, true, false, true, true, false)), (String
    ((Ascii (true, true, true, true, false, true, true, false)), (String
    ((Ascii (false, false, true, false, true, true, true, false)), (String
    ((Ascii (true, false, false, false, false, true, true, false)), (String
    ((Ascii (false, false, true, false, true, true, true, false)), (String
    ((Ascii (true, false, false, true, false, true, true, false)), (String
    ((Ascii (true, true, true, true, false, true, true, false)), (String
    ((Ascii (false, true, true, true, false, true, true, false)),
    EmptyString)))))))))))))))))))))))))))))))))))))))))))))))))))), ((SIf
    (CWhitespace, ((SSetStep
    st_stateParameterOrAnnotationAfterFirstSpace) :: (SRetNil :: [])), ((SIf
    ((CByte (Npos (XI (XI (XO (XO (XO XH))))))), (SPushCur :: ((SSetStep
    st_stateCommentStarted) :: (SRetNil :: []))), ((SIf ((COr (CNewLine,
    (CByte N0))), (SPop :: (SRetNil :: [])), ((SIf ((CByte (Npos (XI (XI (XI
    (XI (XO XH))))))), ((SSetStep
    st_stateAnnotationSign2) :: (SRetNil :: [])), ((SRetErr ((String ((Ascii
    (true, false, false, false, false, true, true, false)), (String ((Ascii
    (false, true, true, false, false, true, true, false)), (String ((Ascii
    (false, false, true, false, true, true, true, false)), (String ((Ascii
    (true, false, true, false, false, true, true, false)), (String ((Ascii
    (false, true, false, false, true, true, true, false)), (String ((Ascii
    (false, false, false, false, false, true, false, false)), (String ((Ascii
    (false, false, true, false, false, true, true, false)), (String ((Ascii
    (true, false, false, true, false, true, true, false)), (String ((Ascii
    (false, true, false, false, true, true, true, false)), (String ((Ascii
    (true, false, true, false, false, true, true, false)), (String ((Ascii
    (true, true, false, false, false, true, true, false)), (String ((Ascii
    (false, false, true, false, true, true, true, false)), (String ((Ascii
    (true, false, false, true, false, true, true, false)), (String ((Ascii
    (false, true, true, false, true, true, true, false)), (String ((Ascii
    (true, false, true, false, false, true, true, false)), (String ((Ascii
    (false, false, false, false, false, true, false, false)), (String ((Ascii
    (true, true, false, true, false, true, true, false)), (String ((Ascii
    (true, false, true, false, false, true, true, false)), (String ((Ascii
    (true, false, false, true, true, true, true, false)), (String ((Ascii
    (true, true, true, false, true, true, true, false)), (String ((Ascii
    (true, true, true, true, false, true, true, false)), (String ((Ascii
    (false, true, false, false, true, true, true, false)), (String ((Ascii
    (false, false, true, false, false, true, true, false)),
    EmptyString)))))))))))))))))))))))))))))))))))))))))))))), (String
    ((Ascii (false, false, false, false, true, true, true, false)), (String
    ((Ascii (true, false, false, false, false, true, true, false)), (String
    ((Ascii (false, true, false, false, true, true, true, false)), (String
    ((Ascii (true, false, false, false, false, true, true, false)), (String
    ((Ascii (true, false, true, true, false, true, true, false)), (String
    ((Ascii (true, false, true, false, false, true, true, false)), (String
    ((Ascii (false, false, true, false, true, true, true, false)), (String
    ((Ascii (true, false, true, false, false, true, true, false)), (String
    ((Ascii (false, true, false, false, true, true, true, false)),
    EmptyString)))))))))))))))))))) :: []))) :: []))) :: []))) :: []))) :: [])) :: (((String
    ((Ascii (true, true, false, false, true, true, true, false)), (String
    ((Ascii (false, false, true, false, true, true, true, false)), (String
    ((Ascii (true, false, false, false, false, true, true, false)), (String
    ((Ascii (false, false, true, false, true, true, true, false)), (String
    ((Ascii (true, false, true, false, false, true, true, false)), (String
    ((Ascii (false, false, false, false, true, false, true, false)), (String
    ((Ascii (true, false, false, false, false, true, true, false)), (String
    ((Ascii (false, true, false, false, true, true, true, false)), (String
    ((Ascii (true, false, false, false, false, true, true, false)), (String
    ((Ascii (true, false, true, true, false, true, true, false)), (String
    ((Ascii (true, false, true, false, false, true, true, false)), (String
    ((Ascii (false, false, true, false, true, true, true, false)), (String
    ((Ascii (true, false, true, false, false, true, true, false)), (String
    ((Ascii (false, true, false, false, true, true, true, false)), (String
    ((Ascii (true, true, true, true, false, false, true, false)), (String
    ((Ascii (false, true, false, false, true, true, true, false)), (String
    ((Ascii (true, false, false, false, false, false, true, false)), (String
    ((Ascii (false, true, true, true, false, true, true, false)), (String
    ((Ascii (false, true, true, true, false, true, true, false)), (String
    ((Ascii (true, true, true, true, false, true, true, false)), (String
    ((Ascii (false, false, true, false, true, true, true, false)), (String
    ((Ascii (true, false, false, false, false, true, true, false)), (String
    ((Ascii (false, false, true, false, true, true, true, false)), (String
    ((Ascii (true, false, false, true, false, true, true, false)), (String
    ((Ascii (true, true, true, true, false, true, true, false)), (String
    ((Ascii (false, true, true, true, false, true, true, false)), (String
    ((Ascii (true, false, false, false, false, false, true, false)), (String
    ((Ascii (false, true, true, false, false, true, true, false)), (String
    ((Ascii (false, false, true, false, true, true, true, false)), (String
    ((Ascii (true, false, true, false, false, true, true, false)), (String
    ((Ascii (false, true, false, false, true, true, true, false)), (String
    ((Ascii (false, true, true, false, false, false, true, false)), (String
    ((Ascii (true, false, false, true, false, true, true, false)), (String
    ((Ascii (false, true, false, false, true, true, true, false)), (String
    ((Ascii (true, true, false, false, true, true, true, false)), (String
    ((Ascii (false, false, true, false, true, true, true, false)), (String
    ((Ascii (true, true, false, false, true, false, true, false)), (String
    ((Ascii (false, false, false, false, true, true, true, false)), (String
    ((Ascii (true, false, false, false, false, true, true, false)), (String
    ((Ascii (true, true, false, false, false, true, true, false)), (String
    ((Ascii (true, false, true, false, false, true, true, false)),
    EmptyString)))))))))))))))))))))))))))))))))))))))))))))))))))))))))))))))))))))))))))))))))),
    ((SIf (CWhitespace, (SRetNil :: []), ((SIf ((CByte (Npos (XI (XI (XO (XO
    (XO XH))))))), (SPushCur :: ((SSetStep
    st_stateCommentStarted) :: (SRetNil :: []))), ((SIf ((COr (CNewLine,
    (CByte N0))), (SPop :: (SRetNil :: [])), ((SIf ((CByte (Npos (XI (XI (XI
    (XI (XO XH))))))), ((SSetStep
    st_stateAnnotationSign2) :: (SRetNil :: [])), ((SSetStep
    st_stateParameterStart) :: ((SRetCall
    st_stateParameterStart) :: [])))) :: []))) :: []))) :: []))) :: [])) :: (((String
    ((Ascii (true, true, false, false, true, true, true, false)), (String
    ((Ascii (false, false, true, false, true, true, true, false)), (String
    ((Ascii (true, false, false, false, false, true, true, false)), (String
    ((Ascii (false, false, true, false, true, true, true, false)), (String
    ((Ascii (true, false, true, false, false, true, true, false)), (String
    ((Ascii (false, false, false, false, true, false, true, false)), (String
    ((Ascii (true, false, false, false, false, true, true, false)), (String
    ((Ascii (false, true, false, false, true, true, true, false)), (String
    ((Ascii (true, false, false, false, false, true, true, false)), (String
    ((Ascii (true, false, true, true, false, true, true, false)), (String
    ((Ascii (true, false, true, false, false, true, true, false)), (String
    ((Ascii (false, false, true, false, true, true, true, false)), (String
    ((Ascii (true, false, true, false, false, true, true, false)), (String
    ((Ascii (false, true, false, false, true, true, true, false)), (String
    ((Ascii (true, true, false, false, true, false, true, false)), (String
    ((Ascii (false, false, true, false, true, true, true, false)), (String
    ((Ascii (true, false, false, false, false, true, true, false)), (String
    ((Ascii (false, true, false, false, true, true, true, false)), (String
    ((Ascii (false, false, true, false, true, true, true, false)),
    EmptyString)))))))))))))))))))))))))))))))))))))), ((SFound
    (ParameterBegin, Z0)) :: ((SIf ((CByte (Npos (XO (XI (XO (XO (XO
    XH))))))), ((SSetStep st_stateParameterInQuoted) :: []), ((SIf (CNewLine,
    ((SRetErr ((String ((Ascii (true, false, false, true, false, true, true,
    false)), (String ((Ascii (false, true, true, true, false, true, true,
    false)), (String ((Ascii (false, false, false, false, false, true, false,
    false)), (String ((Ascii (false, false, true, false, false, true, true,
    false)), (String ((Ascii (true, false, false, true, false, true, true,
    false)), (String ((Ascii (false, true, false, false, true, true, true,
    false)), (String ((Ascii (true, false, true, false, false, true, true,
    false)), (String ((Ascii (true, true, false, false, false, true, true,
    false)), (String ((Ascii (false, false, true, false, true, true, true,
    false)), (String ((Ascii (true, false, false, true, false, true, true,
    false)), (String ((Ascii (false, true, true, false, true, true, true,
    false)), (String ((Ascii (true, false, true, false, false, true, true,
    false)), (String ((Ascii (false, false, false, false, false, true, false,
    false)), (String ((Ascii (false, false, false, false, true, true, true,
    false)), (String ((Ascii (true, false, false, false, false, true, true,
    false)), (String ((Ascii (false, true, false, false, true, true, true,
    false)), (String ((Ascii (true, false, false, false, false, true, true,
    false)), (String ((Ascii (true, false, true, true, false, true, true,
    false)), (String ((Ascii (true, false, true, false, false, true, true,
    false)), (String ((Ascii (false, false, true, false, true, true, true,
    false)), (String ((Ascii (true, false, true, false, false, true, true,
    false)), (String ((Ascii (false, true, false, false, true, true, true,
    false)), EmptyString)))))))))))))))))))))))))))))))))))))))))))),
    EmptyString)) :: []), ((SSetStep
    st_stateParameterWoQuoted) :: []))) :: []))) :: (SRetNil :: [])))) :: (((String
    ((Ascii (true, true, false, false, true, true, true, false)), (String
    ((Ascii (false, false, true, false, true, true, true, false)), (String
    ((Ascii (true, false, false, false, false, true, true, false)), (String
    ((Ascii (false, false, true, false, true, true, true, false)), (String
    ((Ascii (true, false, true, false, false, true, true, false)), (String
    ((Ascii (false, false, false, false, true, false, true, false)), (String
    ((Ascii (true, false, false, false, false, true, true, false)), (String
    ((Ascii (false, true, false, false, true, true, true, false)), (String
    ((Ascii (true, false, false, false, false, true, true, false)), (String
    ((Ascii (true, false, true, true, false, true, true, false)), (String
    ((Ascii (true, false, true, false, false, true, true, false)), (String
    ((Ascii (false, false, true, false, true, true, true, false)), (String
    ((Ascii (true, false, true, false, false, true, true, false)), (String
    ((Ascii (false, true, false, false, true, true, true, false)), (String
    ((Ascii (true, true, true, false, true, false, true, false)), (String
    ((Ascii (true, true, true, true, false, true, true, false)), (String
    ((Ascii (true, false, false, false, true, false, true, false)), (String
    ((Ascii (true, false, true, false, true, true, true, false)), (String
    ((Ascii (true, true, true, true, false, true, true, false)), (String
    ((Ascii (false, false, true, false, true, true, true, false)), (String
    ((Ascii (true, false, true, false, false, true, true, false)), (String
    ((Ascii (false, false, true, false, false, true, true, false)),
    EmptyString)))))))))))))))))))))))))))))))))))))))))))), ((SIf ((COr
    (CWhitespace, (COr (CNewLine, (COr ((CByte (Npos (XI (XI (XO (XO (XO
    XH))))))), (CByte N0))))))), ((SFound (ParameterEnd, (Zneg
    XH))) :: ((SSetStep
    st_stateParameterOrAnnotation) :: (SRetRedispatch :: []))),
    [])) :: (SRetNil :: []))) :: (((String ((Ascii (true, true, false, false,
    true, true, true, false)), (String ((Ascii (false, false, true, false,
    true, true, true, false)), (String ((Ascii (true, false, false, false,
    false, true, true, false)), (String ((Ascii (false, false, true, false,
    true, true, true, false)), (String ((Ascii (true, false, true, false,
    false, true, true, false)), (String ((Ascii (false, false, false, false,
    true, false, true, false)), (String ((Ascii (true, false, false, false,
    false, true, true, false)), (String ((Ascii (false, true, false, false,
    true, true, true, false)), (String ((Ascii (true, false, false, false,
    false, true, true, false)), (String ((Ascii (true, false, true, true,
    false, true, true, false)), (String ((Ascii (true, true, false, false,
    true, true, true, false)), (String ((Ascii (false, true, false, false,
    false, false, true, false)), (String ((Ascii (true, true, true, true,
    false, true, true, false)), (String ((Ascii (false, false, true, false,
    false, true, true, false)), (String ((Ascii (true, false, false, true,
    true, true, true, false)), EmptyString)))))))))))))))))))))))))))))),
    ((SIf ((CByte (Npos (XO (XO (XO (XI (XO XH))))))), ((SFound (ContextOpen,
    Z0)) :: (SRetNil :: [])), ((SIf ((COr (CWhitespace, CNewLine)),
    (SRetNil :: []), ((SIf ((CByte (Npos (XI (XI (XO (XO (XO XH))))))),
    (SPushCur :: ((SSetStep st_stateCommentStarted) :: (SRetNil :: []))),
    ((SRetCall
    st_stateJSchema) :: []))) :: []))) :: []))) :: [])) :: (((String ((Ascii
    (true, true, false, false, true, true, true, false)), (String ((Ascii
    (false, false, true, false, true, true, true, false)), (String ((Ascii
    (true, false, false, false, false, true, true, false)), (String ((Ascii
    (false, false, true, false, true, true, true, false)), (String ((Ascii
    (true, false, true, false, false, true, true, false)), (String ((Ascii
    (false, false, false, false, true, false, true, false)), (String ((Ascii
    (true, false, false, false, false, true, true, false)), (String ((Ascii
    (false, false, true, false, true, true, true, false)),
    EmptyString)))))))))))))))), ((SIf ((CByte (Npos (XO (XO (XO (XI (XO (XI
    XH)))))))), ((SFound (KeywordEnd, Z0)) :: ((SPush
    st_statePathBody) :: ((SSetStep
    st_stateParameterOrAnnotation) :: (SRetNil :: [])))), ((SRetErr ((String
    ((Ascii (true, false, false, true, false, true, true, false)), (String
    ((Ascii (false, true, true, true, false, true, true, false)), (String
    ((Ascii (false, false, false, false, false, true, false, false)), (String
    ((Ascii (true, true, false, true, false, true, true, false)), (String
    ((Ascii (true, false, true, false, false, true, true, false)), (String
    ((Ascii (true, false, false, true, true, true, true, false)), (String
    ((Ascii (true, true, true, false, true, true, true, false)), (String
    ((Ascii (true, true, true, true, false, true, true, false)), (String
    ((Ascii (false, true, false, false, true, true, true, false)), (String
    ((Ascii (false, false, true, false, false, true, true, false)), (String
    ((Ascii (false, false, false, false, false, true, false, false)), (String
    ((Ascii (false, false, false, false, true, false, true, false)), (String
    ((Ascii (true, false, false, false, false, true, true, false)), (String
    ((Ascii (false, false, true, false, true, true, true, false)), (String
    ((Ascii (false, false, false, true, false, true, true, false)),
    EmptyString)))))))))))))))))))))))))))))), (String ((Ascii (false, false,
    false, true, false, true, true, false)),
    EmptyString)))) :: []))) :: [])) :: (((String ((Ascii (true, true, false,
    false, true, true, true, false)), (String ((Ascii (false, false, true,
    false, true, true, true, false)), (String ((Ascii (true, false, false,
    false, false, true, true, false)), (String ((Ascii (false, false, true,
    false, true, true, true, false)), (String ((Ascii (true, false, true,
    false, false, true, true, false)), (String ((Ascii (false, false, false,
    false, true, false, true, false)), (String ((Ascii (true, false, false,
    false, false, true, true, false)), (String ((Ascii (false, false, true,
    false, true, true, true, false)), (String ((Ascii (false, false, false,
    true, false, true, true, false)), (String ((Ascii (false, true, false,
    false, false, false, true, false)), (String ((Ascii (true, true, true,
    true, false, true, true, false)), (String ((Ascii (false, false, true,
    false, false, true, true, false)), (String ((Ascii (true, false, false,
    true, true, true, true, false)), EmptyString)))))))))))))))))))))))))),
    ((SIf ((CByte (Npos (XO (XO (XO (XI (XO XH))))))), ((SFound (ContextOpen,
    Z0)) :: (SRetNil :: [])), ((SIf ((COr (CWhitespace, CNewLine)),
    (SRetNil :: []), ((SIf ((CByte (Npos (XI (XI (XO (XO (XO XH))))))),
    (SPushCur :: ((SSetStep st_stateCommentStarted) :: (SRetNil :: []))),
    ((SIf ((COr ((CByte (Npos (XI (XI (XO (XI (XI (XI XH)))))))), (CByte
    (Npos (XO (XO (XO (XO (XO (XO XH)))))))))), ((SRetCall
    st_stateJSchema) :: []), ((SRetErr ((String ((Ascii (true, false, false,
    true, false, true, true, false)), (String ((Ascii (false, true, true,
    true, false, true, true, false)), (String ((Ascii (false, false, false,
    false, false, true, false, false)), (String ((Ascii (false, false, true,
    false, true, true, true, false)), (String ((Ascii (false, false, false,
    true, false, true, true, false)), (String ((Ascii (true, false, true,
    false, false, true, true, false)), (String ((Ascii (false, false, false,
    false, false, true, false, false)), (String ((Ascii (false, false, false,
    false, true, false, true, false)), (String ((Ascii (true, false, false,
    false, false, true, true, false)), (String ((Ascii (false, false, true,
    false, true, true, true, false)), (String ((Ascii (false, false, false,
    true, false, true, true, false)), (String ((Ascii (false, false, false,
    false, false, true, false, false)), (String ((Ascii (false, true, false,
    false, false, true, true, false)), (String ((Ascii (true, true, true,
    true, false, true, true, false)), (String ((Ascii (false, false, true,
    false, false, true, true, false)), (String ((Ascii (true, false, false,
    true, true, true, true, false)),
    EmptyString)))))))))))))))))))))))))))))))),
    EmptyString)) :: []))) :: []))) :: []))) :: []))) :: [])) :: (((String
    ((Ascii (true, true, false, false, true, true, true, false)), (String
    ((Ascii (false, false, true, false, true, true, true, false)), (String
    ((Ascii (true, false, false, false, false, true, true, false)), (String
    ((Ascii (false, false, true, false, true, true, true, false)), (String
    ((Ascii (true, false, true, false, false, true, true, false)), (String
    ((Ascii (false, false, false, false, true, false, true, false)), (String
    ((Ascii (false, true, false, false, true, true, true, false)),
    EmptyString)))))))))))))), ((SIf ((CByte (Npos (XI (XI (XI (XI (XO (XI
    XH)))))))), ((SSetStep st_statePro) :: (SRetNil :: [])), ((SRetErr
    ((String ((Ascii (true, false, false, true, false, true, true, false)),
    (String ((Ascii (false, true, true, true, false, true, true, false)),
    (String ((Ascii (false, false, false, false, false, true, false, false)),
    (String ((Ascii (true, true, false, true, false, true, true, false)),
    (String ((Ascii (true, false, true, false, false, true, true, false)),
    (String ((Ascii (true, false, false, true, true, true, true, false)),
    (String ((Ascii (true, true, true, false, true, true, true, false)),
    (String ((Ascii (true, true, true, true, false, true, true, false)),
    (String ((Ascii (false, true, false, false, true, true, true, false)),
    (String ((Ascii (false, false, true, false, false, true, true, false)),
    (String ((Ascii (false, false, false, false, false, true, false, false)),
    (String ((Ascii (false, false, false, false, true, false, true, false)),
    (String ((Ascii (false, true, false, false, true, true, true, false)),
    (String ((Ascii (true, true, true, true, false, true, true, false)),
    (String ((Ascii (false, false, true, false, true, true, true, false)),
    (String ((Ascii (true, true, true, true, false, true, true, false)),
    (String ((Ascii (true, true, false, false, false, true, true, false)),
    (String ((Ascii (true, true, true, true, false, true, true, false)),
    (String ((Ascii (false, false, true, true, false, true, true, false)),
    EmptyString)))))))))))))))))))))))))))))))))))))), (String ((Ascii (true,
    true, true, true, false, true, true, false)),
    EmptyString)))) :: []))) :: [])) :: (((String ((Ascii (true, true, false,
    false, true, true, true, false)), (String ((Ascii (false, false, true,
    false, true, true, true, false)), (String ((Ascii (true, false, false,
    false, false, true, true, false)), (String ((Ascii (false, false, true,
    false, true, true, true, false)), (String ((Ascii (true, false, true,
    false, false, true, true, false)), (String ((Ascii (false, false, false,
    false, true, false, true, false)), (String ((Ascii (false, true, false,
    false, true, true, true, false)), (String ((Ascii (true, true, true,
    true, false, true, true, false)), EmptyString)))))))))))))))), ((SIf
    ((CByte (Npos (XO (XO (XI (XO (XI (XI XH)))))))), ((SSetStep
    st_stateProt) :: (SRetNil :: [])), ((SRetErr ((String ((Ascii (true,
    false, false, true, false, true, true, false)), (String ((Ascii (false,
    true, true, true, false, true, true, false)), (String ((Ascii (false,
    false, false, false, false, true, false, false)), (String ((Ascii (true,
    true, false, true, false, true, true, false)), (String ((Ascii (true,
    false, true, false, false, true, true, false)), (String ((Ascii (true,
    false, false, true, true, true, true, false)), (String ((Ascii (true,
    true, true, false, true, true, true, false)), (String ((Ascii (true,
    true, true, true, false, true, true, false)), (String ((Ascii (false,
    true, false, false, true, true, true, false)), (String ((Ascii (false,
    false, true, false, false, true, true, false)), (String ((Ascii (false,
    false, false, false, false, true, false, false)), (String ((Ascii (false,
    false, false, false, true, false, true, false)), (String ((Ascii (false,
    true, false, false, true, true, true, false)), (String ((Ascii (true,
    true, true, true, false, true, true, false)), (String ((Ascii (false,
    false, true, false, true, true, true, false)), (String ((Ascii (true,
    true, true, true, false, true, true, false)), (String ((Ascii (true,
    true, false, false, false, true, true, false)), (String ((Ascii (true,
    true, true, true, false, true, true, false)), (String ((Ascii (false,
    false, true, true, false, true, true, false)),
    EmptyString)))))))))))))))))))))))))))))))))))))), (String ((Ascii
    (false, false, true, false, true, true, true, false)),
    EmptyString)))) :: []))) :: [])) :: (((String ((Ascii (true, true, false,
    false, true, true, true, false)), (String ((Ascii (false, false, true,
    false, true, true, true, false)), (String ((Ascii (true, false, false,
    false, false, true, true, false)), (String ((Ascii (false, false, true,
    false, true, true, true, false)), (String ((Ascii (true, false, true,
    false, false, true, true, false)), (String ((Ascii (false, false, false,
    false, true, false, true, false)), (String ((Ascii (false, true, false,
    false, true, true, true, false)), (String ((Ascii (true, true, true,
    true, false, true, true, false)), (String ((Ascii (false, false, true,
    false, true, true, true, false)), EmptyString)))))))))))))))))), ((SIf
    ((CByte (Npos (XI (XI (XI (XI (XO (XI XH)))))))), ((SSetStep
    st_stateProto) :: (SRetNil :: [])), ((SRetErr ((String ((Ascii (true,
    false, false, true, false, true, true, false)), (String ((Ascii (false,
    true, true, true, false, true, true, false)), (String ((Ascii (false,
    false, false, false, false, true, false, false)), (String ((Ascii (true,
    true, false, true, false, true, true, false)), (String ((Ascii (true,
    false, true, false, false, true, true, false)), (String ((Ascii (true,
    false, false, true, true, true, true, false)), (String ((Ascii (true,
    true, true, false, true, true, true, false)), (String ((Ascii (true,
    true, true, true, false, true, true, false)), (String ((Ascii (false,
    true, false, false, true, true, true, false)), (String ((Ascii (false,
    false, true, false, false, true, true, false)), (String ((Ascii (false,
    false, false, false, false, true, false, false)), (String ((Ascii (false,
    false, false, false, true, false, true, false)), (String ((Ascii (false,
    true, false, false, true, true, true, false)), (String ((Ascii (true,
    true, true, true, false, true, true, false)), (String ((Ascii (false,
    false, true, false, true, true, true, false)), (String ((Ascii (true,
    true, true, true, false, true, true, false)), (String ((Ascii (true,
    true, false, false, false, true, true, false)), (String ((Ascii (true,
    true, true, true, false, true, true, false)), (String ((Ascii (false,
    false, true, true, false, true, true, false)),
    EmptyString)))))))))))))))))))))))))))))))))))))), (String ((Ascii (true,
    true, true, true, false, true, true, false)),
    EmptyString)))) :: []))) :: [])) :: (((String ((Ascii (true, true, false,
    false, true, true, true, false)), (String ((Ascii (false, false, true,
    false, true, true, true, false)), (String ((Ascii (true, false, false,
    false, false, true, true, false)), (String ((Ascii (false, false, true,
    false, true, true, true, false)), (String ((Ascii (true, false, true,
    false, false, true, true, false)), (String ((Ascii (false, false, false,
    false, true, false, true, false)), (String ((Ascii (false, true, false,
    false, true, true, true, false)), (String ((Ascii (true, true, true,
    true, false, true, true, false)), (String ((Ascii (false, false, true,
    false, true, true, true, false)), (String ((Ascii (true, true, true,
    true, false, true, true, false)), EmptyString)))))))))))))))))))), ((SIf
    ((CByte (Npos (XI (XI (XO (XO (XO (XI XH)))))))), ((SSetStep
    st_stateProtoc) :: (SRetNil :: [])), ((SRetErr ((String ((Ascii (true,
    false, false, true, false, true, true, false)), (String ((Ascii (false,
    true, true, true, false, true, true, false)), (String ((Ascii (false,
    false, false, false, false, true, false, false)), (String ((Ascii (true,
    true, false, true, false, true, true, false)), (String ((Ascii (true,
    false, true, false, false, true, true, false)), (String ((Ascii (true,
    false, false, true, true, true, true, false)), (String ((Ascii (true,
    true, true, false, true, true, true, false)), (String ((Ascii (true,
    true, true, true, false, true, true, false)), (String ((Ascii (false,
    true, false, false, true, true, true, false)), (String ((Ascii (false,
    false, true, false, false, true, true, false)), (String ((Ascii (false,
    false, false, false, false, true, false, false)), (String ((Ascii (false,
    false, false, false, true, false, true, false)), (String ((Ascii (false,
    true, false, false, true, true, true, false)), (String ((Ascii (true,
    true, true, true, false, true, true, false)), (String ((Ascii (false,
    false, true, false, true, true, true, false)), (String ((Ascii (true,
    true, true, true, false, true, true, false)), (String ((Ascii (true,
    true, false, false, false, true, true, false)), (String ((Ascii (true,
    true, true, true, false, true, true, false)), (String ((Ascii (false,
    false, true, true, false, true, true, false)),
    EmptyString)))))))))))))))))))))))))))))))))))))), (String ((Ascii (true,
    true, false, false, false, true, true, false)),
    EmptyString)))) :: []))) :: [])) :: (((String ((Ascii (true, true, false,
    false, true, true, true, false)), (String ((Ascii (false, false, true,
    false, true, true, true, false)), (String ((Ascii (true, false, false,
    false, false, true, true, false)), (String ((Ascii (false, false, true,
    false, true, true, true, false)), (String ((Ascii (true, false, true,
    false, false, true, true, false)), (String ((Ascii (false, false, false,
    false, true, false, true, false)), (String ((Ascii (false, true, false,
    false, true, true, true, false)), (String ((Ascii (true, true, true,
    true, false, true, true, false)), (String ((Ascii (false, false, true,
    false, true, true, true, false)), (String ((Ascii (true, true, true,
    true, false, true, true, false)), (String ((Ascii (true, true, false,
    false, false, true, true, false)), EmptyString)))))))))))))))))))))),
    ((SIf ((CByte (Npos (XI (XI (XI (XI (XO (XI XH)))))))), ((SSetStep
    st_stateProtoco) :: (SRetNil :: [])), ((SRetErr ((String ((Ascii (true,
    false, false, true, false, true, true, false)), (String ((Ascii (false,
    true, true, true, false, true, true, false)), (String ((Ascii (false,
    false, false, false, false, true, false, false)), (String ((Ascii (true,
    true, false, true, false, true, true, false)), (String ((Ascii (true,
    false, true, false, false, true, true, false)), (String ((Ascii (true,
    false, false, true, true, true, true, false)), (String ((Ascii (true,
    true, true, false, true, true, true, false)), (String ((Ascii (true,
    true, true, true, false, true, true, false)), (String ((Ascii (false,
    true, false, false, true, true, true, false)), (String ((Ascii (false,
    false, true, false, false, true, true, false)), (String ((Ascii (false,
    false, false, false, false, true, false, false)), (String ((Ascii (false,
    false, false, false, true, false, true, false)), (String ((Ascii (false,
    true, false, false, true, true, true, false)), (String ((Ascii (true,
    true, true, true, false, true, true, false)), (String ((Ascii (false,
    false, true, false, true, true, true, false)), (String ((Ascii (true,
    true, true, true, false, true, true, false)), (String ((Ascii (true,
    true, false, false, false, true, true, false)), (String ((Ascii (true,
    true, true, true, false, true, true, false)), (String ((Ascii (false,
    false, true, true, false, true, true, false)),
    EmptyString)))))))))))))))))))))))))))))))))))))), (String ((Ascii (true,
    true, true, true, false, true, true, false)),
    EmptyString)))) :: []))) :: [])) :: (((String ((Ascii (true, true, false,
    false, true, true, true, false)), (String ((Ascii (false, false, true,
    false, true, true, true, false)), (String ((Ascii (true, false, false,
    false, false, true, true, false)), (String ((Ascii (false, false, true,
    false, true, true, true, false)), (String ((Ascii (true, false, true,
    false, false, true, true, false)), (String ((Ascii (false, false, false,
    false, true, false, true, false)), (String ((Ascii (false, true, false,
    false, true, true, true, false)), (String ((Ascii (true, true, true,
    true, false, true, true, false)), (String ((Ascii (false, false, true,
    false, true, true, true, false)), (String ((Ascii (true, true, true,
    true, false, true, true, false)), (String ((Ascii (true, true, false,
    false, false, true, true, false)), (String ((Ascii (true, true, true,
    true, false, true, true, false)), EmptyString)))))))))))))))))))))))),
    ((SIf ((CByte (Npos (XO (XO (XI (XI (XO (XI XH)))))))), ((SFound
    (KeywordEnd, Z0)) :: ((SPush st_stateExpectKeyword) :: ((SSetStep
    st_stateParameterOrAnnotation) :: (SRetNil :: [])))), ((SRetErr ((String
    ((Ascii (true, false, false, true, false, true, true, false)), (String
    ((Ascii (false, true, true, true, false, true, true, false)), (String
    ((Ascii (false, false, false, false, false, true, false, false)), (String
    ((Ascii (true, true, false, true, false, true, true, false)), (String
    ((Ascii (true, false, true, false, false, true, true, false)), (String
    ((Ascii (true, false, false, true, true, true, true, false)), (String
    ((Ascii (true, true, true, false, true, true, true, false)), (String
    ((Ascii (true, true, true, true, false, true, true, false)), (String
    ((Ascii (false, true, false, false, true, true, true, false)), (String
    ((Ascii (false, false, true, false, false, true, true, false)), (String
    ((Ascii (false, false, false, false, false, true, false, false)), (String
    ((Ascii (false, false, false, false, true, false, true, false)), (String
    ((Ascii (false, true, false, false, true, true, true, false)), (String
    ((Ascii (true, true, true, true, false, true, true, false)), (String
    ((Ascii (false, false, true, false, true, true, true, false)), (String
    ((Ascii (true, true, true, true, false, true, true, false)), (String
    ((Ascii (true, true, false, false, false, true, true, false)), (String
    ((Ascii (true, true, true, true, false, true, true, false)), (String
    ((Ascii (false, false, true, true, false, true, true, false)),
    EmptyString)))))))))))))))))))))))))))))))))))))), (String ((Ascii
    (false, false, true, true, false, true, true, false)),
    EmptyString)))) :: []))) :: [])) :: (((String ((Ascii (true, true, false,
    false, true, true, true, false)), (String ((Ascii (false, false, true,
    false, true, true, true, false)), (String ((Ascii (true, false, false,
    false, false, true, true, false)), (String ((Ascii (false, false, true,
    false, true, true, true, false)), (String ((Ascii (true, false, true,
    false, false, true, true, false)), (String ((Ascii (true, false, false,
    false, true, false, true, false)), EmptyString)))))))))))), ((SIf ((CByte
    (Npos (XI (XO (XI (XO (XI (XI XH)))))))), ((SSetStep
    st_stateQu) :: (SRetNil :: [])), ((SRetErr ((String ((Ascii (true, false,
    false, true, false, true, true, false)), (String ((Ascii (false, true,
    true, true, false, true, true, false)), (String ((Ascii (false, false,
    false, false, false, true, false, false)), (String ((Ascii (true, true,
    false, true, false, true, true, false)), (String ((Ascii (true, false,
    true, false, false, true, true, false)), (String ((Ascii (true, false,
    false, true, true, true, true, false)), (String ((Ascii (true, true,
    true, false, true, true, true, false)), (String ((Ascii (true, true,
    true, true, false, true, true, false)), (String ((Ascii (false, true,
    false, false, true, true, true, false)), (String ((Ascii (false, false,
    true, false, false, true, true, false)), (String ((Ascii (false, false,
    false, false, false, true, false, false)), (String ((Ascii (true, false,
    false, false, true, false, true, false)), (String ((Ascii (true, false,
    true, false, true, true, true, false)), (String ((Ascii (true, false,
    true, false, false, true, true, false)), (String ((Ascii (false, true,
    false, false, true, true, true, false)), (String ((Ascii (true, false,
    false, true, true, true, true, false)),
    EmptyString)))))))))))))))))))))))))))))))), (String ((Ascii (true,
    false, true, false, true, true, true, false)),
    EmptyString)))) :: []))) :: [])) :: (((String ((Ascii (true, true, false,
    false, true, true, true, false)), (String ((Ascii (false, false, true,
    false, true, true, true, false)), (String ((Ascii (true, false, false,
    false, false, true, true, false)), (String ((Ascii (false, false, true,
    false, true, true, true, false)), (String ((Ascii (true, false, true,
    false, false, true, true, false)), (String ((Ascii (true, false, false,
    false, true, false, true, false)), (String ((Ascii (true, false, true,
    false, true, true, true, false)), EmptyString)))))))))))))), ((SIf
    ((CByte (Npos (XI (XO (XI (XO (XO (XI XH)))))))), ((SSetStep
    st_stateQue) :: (SRetNil :: [])), ((SRetErr ((String ((Ascii (true,
    false, false, true, false, true, true, false)), (String ((Ascii (false,
    true, true, true, false, true, true, false)), (String ((Ascii (false,
    false, false, false, false, true, false, false)), (String ((Ascii (true,
    true, false, true, false, true, true, false)), (String ((Ascii (true,
    false, true, false, false, true, true, false)), (String ((Ascii (true,
    false, false, true, true, true, true, false)), (String ((Ascii (true,
    true, true, false, true, true, true, false)), (String ((Ascii (true,
    true, true, true, false, true, true, false)), (String ((Ascii (false,
    true, false, false, true, true, true, false)), (String ((Ascii (false,
    false, true, false, false, true, true, false)), (String ((Ascii (false,
    false, false, false, false, true, false, false)), (String ((Ascii (true,
    false, false, false, true, false, true, false)), (String ((Ascii (true,
    false, true, false, true, true, true, false)), (String ((Ascii (true,
    false, true, false, false, true, true, false)), (String ((Ascii (false,
    true, false, false, true, true, true, false)), (String ((Ascii (true,
    false, false, true, true, true, true, false)),
    EmptyString)))))))))))))))))))))))))))))))), (String ((Ascii (true,
    false, true, false, false, true, true, false)),
    EmptyString)))) :: []))) :: [])) :: (((String ((Ascii (true, true, false,
    false, true, true, true, false)), (String ((Ascii (false, false, true,
    false, true, true, true, false)), (String ((Ascii (true, false, false,
    false, false, true, true, false)), (String ((Ascii (false, false, true,
    false, true, true, true, false)), (String ((Ascii (true, false, true,
    false, false, true, true, false)), (String ((Ascii (true, false, false,
    false, true, false, true, false)), (String ((Ascii (true, false, true,
    false, true, true, true, false)), (String ((Ascii (true, false, true,
    false, false, true, true, false)), EmptyString)))))))))))))))), ((SIf
    ((CByte (Npos (XO (XI (XO (XO (XI (XI XH)))))))), ((SSetStep
    st_stateQuer) :: (SRetNil :: [])), ((SRetErr ((String ((Ascii (true,
    false, false, true, false, true, true, false)), (String ((Ascii (false,
    true, true, true, false, true, true, false)), (String ((Ascii (false,
    false, false, false, false, true, false, false)), (String ((Ascii (true,
    true, false, true, false, true, true, false)), (String ((Ascii (true,
    false, true, false, false, true, true, false)), (String ((Ascii (true,
    false, false, true, true, true, true, false)), (String ((Ascii (true,
    true, true, false, true, true, true, false)), (String ((Ascii (true,
    true, true, true, false, true, true, false)), (String ((Ascii (false,
    true, false, false, true, true, true, false)), (String ((Ascii (false,
    false, true, false, false, true, true, false)), (String ((Ascii (false,
    false, false, false, false, true, false, false)), (String ((Ascii (true,
    false, false, false, true, false, true, false)), (String ((Ascii (true,
    false, true, false, true, true, true, false)), (String ((Ascii (true,
    false, true, false, false, true, true, false)), (String ((Ascii (false,
    true, false, false, true, true, true, false)), (String ((Ascii (true,
    false, false, true, true, true, true, false)),
    EmptyString)))))))))))))))))))))))))))))))), (String ((Ascii (false,
    true, false, false, true, true, true, false)),
    EmptyString)))) :: []))) :: [])) :: (((String ((Ascii (true, true, false,
    false, true, true, true, false)), (String ((Ascii (false, false, true,
    false, true, true, true, false)), (String ((Ascii (true, false, false,
    false, false, true, true, false)), (String ((Ascii (false, false, true,
    false, true, true, true, false)), (String ((Ascii (true, false, true,
    false, false, true, true, false)), (String ((Ascii (true, false, false,
    false, true, false, true, false)), (String ((Ascii (true, false, true,
    false, true, true, true, false)), (String ((Ascii (true, false, true,
    false, false, true, true, false)), (String ((Ascii (false, true, false,
    false, true, true, true, false)), EmptyString)))))))))))))))))), ((SIf
    ((CByte (Npos (XI (XO (XO (XI (XI (XI XH)))))))), ((SFound (KeywordEnd,
    Z0)) :: ((SPush st_stateQueryBodyOrKeyword) :: ((SSetStep
    st_stateParameterOrAnnotation) :: (SRetNil :: [])))), ((SRetErr ((String
    ((Ascii (true, false, false, true, false, true, true, false)), (String
    ((Ascii (false, true, true, true, false, true, true, false)), (String
    ((Ascii (false, false, false, false, false, true, false, false)), (String
    ((Ascii (true, true, false, true, false, true, true, false)), (String
    ((Ascii (true, false, true, false, false, true, true, false)), (String
    ((Ascii (true, false, false, true, true, true, true, false)), (String
    ((Ascii (true, true, true, false, true, true, true, false)), (String
    ((Ascii (true, true, true, true, false, true, true, false)), (String
    ((Ascii (false, true, false, false, true, true, true, false)), (String
    ((Ascii (false, false, true, false, false, true, true, false)), (String
    ((Ascii (false, false, false, false, false, true, false, false)), (String
    ((Ascii (true, false, false, false, true, false, true, false)), (String
    ((Ascii (true, false, true, false, true, true, true, false)), (String
    ((Ascii (true, false, true, false, false, true, true, false)), (String
    ((Ascii (false, true, false, false, true, true, true, false)), (String
    ((Ascii (true, false, false, true, true, true, true, false)),
    EmptyString)))))))))))))))))))))))))))))))), (String ((Ascii (true,
    false, false, true, true, true, true, false)),
    EmptyString)))) :: []))) :: [])) :: (((String ((Ascii (true, true, false,
    false, true, true, true, false)), (String ((Ascii (false, false, true,
    false, true, true, true, false)), (String ((Ascii (true, false, false,
    false, false, true, true, false)), (String ((Ascii (false, false, true,
    false, true, true, true, false)), (String ((Ascii (true, false, true,
    false, false, true, true, false)), (String ((Ascii (true, false, false,
    false, true, false, true, false)), (String ((Ascii (true, false, true,
    false, true, true, true, false)), (String ((Ascii (true, false, true,
    false, false, true, true, false)), (String ((Ascii (false, true, false,
    false, true, true, true, false)), (String ((Ascii (true, false, false,
    true, true, true, true, false)), (String ((Ascii (false, true, false,
    false, false, false, true, false)), (String ((Ascii (true, true, true,
    true, false, true, true, false)), (String ((Ascii (false, false, true,
    false, false, true, true, false)), (String ((Ascii (true, false, false,
    true, true, true, true, false)), (String ((Ascii (true, true, true, true,
    false, false, true, false)), (String ((Ascii (false, true, false, false,
    true, true, true, false)), (String ((Ascii (true, true, false, true,
    false, false, true, false)), (String ((Ascii (true, false, true, false,
    false, true, true, false)), (String ((Ascii (true, false, false, true,
    true, true, true, false)), (String ((Ascii (true, true, true, false,
    true, true, true, false)), (String ((Ascii (true, true, true, true,
    false, true, true, false)), (String ((Ascii (false, true, false, false,
    true, true, true, false)), (String ((Ascii (false, false, true, false,
    false, true, true, false)),
    EmptyString)))))))))))))))))))))))))))))))))))))))))))))), ((SIf ((CByte
    (Npos (XO (XO (XO (XI (XO XH))))))), ((SFound (ContextOpen,
    Z0)) :: (SRetNil :: [])), ((SIf ((COr (CWhitespace, CNewLine)),
    (SRetNil :: []), ((SIf ((CByte (Npos (XI (XI (XO (XO (XO XH))))))),
    (SPushCur :: ((SSetStep st_stateCommentStarted) :: (SRetNil :: []))),
    ((SRetCall
    st_stateJSchema) :: []))) :: []))) :: []))) :: [])) :: (((String ((Ascii
    (true, true, false, false, true, true, true, false)), (String ((Ascii
    (false, false, true, false, true, true, true, false)), (String ((Ascii
    (true, false, false, false, false, true, true, false)), (String ((Ascii
    (false, false, true, false, true, true, true, false)), (String ((Ascii
    (true, false, true, false, false, true, true, false)), (String ((Ascii
    (false, true, false, false, true, false, true, false)),
    EmptyString)))))))))))), ((SIf ((CByte (Npos (XI (XO (XI (XO (XO (XI
    XH)))))))), ((SSetStep st_stateRe) :: (SRetNil :: [])), ((SRetErr
    ((String ((Ascii (true, false, false, true, false, true, true, false)),
    (String ((Ascii (false, true, true, true, false, true, true, false)),
    (String ((Ascii (false, false, false, false, false, true, false, false)),
    (String ((Ascii (false, false, true, false, false, true, true, false)),
    (String ((Ascii (true, false, false, true, false, true, true, false)),
    (String ((Ascii (false, true, false, false, true, true, true, false)),
    (String ((Ascii (true, false, true, false, false, true, true, false)),
    (String ((Ascii (true, true, false, false, false, true, true, false)),
    (String ((Ascii (false, false, true, false, true, true, true, false)),
    (String ((Ascii (true, false, false, true, false, true, true, false)),
    (String ((Ascii (false, true, true, false, true, true, true, false)),
    (String ((Ascii (true, false, true, false, false, true, true, false)),
    (String ((Ascii (false, false, false, false, false, true, false, false)),
    (String ((Ascii (false, true, true, true, false, true, true, false)),
    (String ((Ascii (true, false, false, false, false, true, true, false)),
    (String ((Ascii (true, false, true, true, false, true, true, false)),
    (String ((Ascii (true, false, true, false, false, true, true, false)),
    EmptyString)))))))))))))))))))))))))))))))))),
    EmptyString)) :: []))) :: [])) :: (((String ((Ascii (true, true, false,
    false, true, true, true, false)), (String ((Ascii (false, false, true,
    false, true, true, true, false)), (String ((Ascii (true, false, false,
    false, false, true, true, false)), (String ((Ascii (false, false, true,
    false, true, true, true, false)), (String ((Ascii (true, false, true,
    false, false, true, true, false)), (String ((Ascii (false, true, false,
    false, true, false, true, false)), (String ((Ascii (true, false, true,
    false, false, true, true, false)), EmptyString)))))))))))))), ((SIf
    ((CByte (Npos (XI (XO (XO (XO (XI (XI XH)))))))), ((SSetStep
    st_stateReq) :: (SRetNil :: [])), ((SIf ((CByte (Npos (XI (XI (XO (XO (XI
    (XI XH)))))))), ((SSetStep st_stateRes) :: (SRetNil :: [])), ((SRetErr
    ((String ((Ascii (true, false, false, true, false, true, true, false)),
    (String ((Ascii (false, true, true, true, false, true, true, false)),
    (String ((Ascii (false, false, false, false, false, true, false, false)),
    (String ((Ascii (false, false, true, false, false, true, true, false)),
    (String ((Ascii (true, false, false, true, false, true, true, false)),
    (String ((Ascii (false, true, false, false, true, true, true, false)),
    (String ((Ascii (true, false, true, false, false, true, true, false)),
    (String ((Ascii (true, true, false, false, false, true, true, false)),
    (String ((Ascii (false, false, true, false, true, true, true, false)),
    (String ((Ascii (true, false, false, true, false, true, true, false)),
    (String ((Ascii (false, true, true, false, true, true, true, false)),
    (String ((Ascii (true, false, true, false, false, true, true, false)),
    (String ((Ascii (false, false, false, false, false, true, false, false)),
    (String ((Ascii (false, true, true, true, false, true, true, false)),
    (String ((Ascii (true, false, false, false, false, true, true, false)),
    (String ((Ascii (true, false, true, true, false, true, true, false)),
    (String ((Ascii (true, false, true, false, false, true, true, false)),
    EmptyString)))))))))))))))))))))))))))))))))),
    EmptyString)) :: []))) :: []))) :: [])) :: (((String ((Ascii (true, true,
    false, false, true, true, true, false)), (String ((Ascii (false, false,
    true, false, true, true, true, false)), (String ((Ascii (true, false,
    false, false, false, true, true, false)), (String ((Ascii (false, false,
    true, false, true, true, true, false)), (String ((Ascii (true, false,
    true, false, false, true, true, false)), (String ((Ascii (false, true,
    false, false, true, false, true, false)), (String ((Ascii (true, false,
    true, false, false, true, true, false)), (String ((Ascii (true, true,
    true, false, false, true, true, false)), (String ((Ascii (true, false,
    true, false, false, true, true, false)), (String ((Ascii (false, false,
    false, true, true, true, true, false)), EmptyString)))))))))))))))))))),
    ((SIf ((CNot (CByte (Npos (XI (XI (XI (XI (XO XH)))))))), ((SRetErr
    ((String ((Ascii (true, false, false, true, false, true, true, false)),
    (String ((Ascii (false, true, true, true, false, true, true, false)),
    (String ((Ascii (false, false, false, false, false, true, false, false)),
    (String ((Ascii (false, false, true, false, true, true, true, false)),
    (String ((Ascii (false, false, false, true, false, true, true, false)),
    (String ((Ascii (true, false, true, false, false, true, true, false)),
    (String ((Ascii (false, false, false, false, false, true, false, false)),
    (String ((Ascii (false, true, false, false, true, true, true, false)),
    (String ((Ascii (true, false, true, false, false, true, true, false)),
    (String ((Ascii (true, true, true, false, false, true, true, false)),
    (String ((Ascii (true, false, true, false, true, true, true, false)),
    (String ((Ascii (false, false, true, true, false, true, true, false)),
    (String ((Ascii (true, false, false, false, false, true, true, false)),
    (String ((Ascii (false, true, false, false, true, true, true, false)),
    (String ((Ascii (false, false, false, false, false, true, false, false)),
    (String ((Ascii (true, false, true, false, false, true, true, false)),
    (String ((Ascii (false, false, false, true, true, true, true, false)),
    (String ((Ascii (false, false, false, false, true, true, true, false)),
    (String ((Ascii (false, true, false, false, true, true, true, false)),
    (String ((Ascii (true, false, true, false, false, true, true, false)),
    (String ((Ascii (true, true, false, false, true, true, true, false)),
    (String ((Ascii (true, true, false, false, true, true, true, false)),
    (String ((Ascii (true, false, false, true, false, true, true, false)),
    (String ((Ascii (true, true, true, true, false, true, true, false)),
    (String ((Ascii (false, true, true, true, false, true, true, false)),
    EmptyString)))))))))))))))))))))))))))))))))))))))))))))))))), (String
    ((Ascii (true, true, true, false, false, true, false, false)), (String
    ((Ascii (true, true, true, true, false, true, false, false)), (String
    ((Ascii (true, true, true, false, false, true, false, false)), (String
    ((Ascii (false, false, false, false, false, true, false, false)), (String
    ((Ascii (true, true, false, false, false, true, true, false)), (String
    ((Ascii (false, false, false, true, false, true, true, false)), (String
    ((Ascii (true, false, false, false, false, true, true, false)), (String
    ((Ascii (false, true, false, false, true, true, true, false)), (String
    ((Ascii (true, false, false, false, false, true, true, false)), (String
    ((Ascii (true, true, false, false, false, true, true, false)), (String
    ((Ascii (false, false, true, false, true, true, true, false)), (String
    ((Ascii (true, false, true, false, false, true, true, false)), (String
    ((Ascii (false, true, false, false, true, true, true, false)),
    EmptyString)))))))))))))))))))))))))))) :: []), [])) :: ((SFound
    (TextBegin, Z0)) :: ((SSetStep
    st_stateRegexFirstChar) :: (SRetNil :: []))))) :: (((String ((Ascii
    (true, true, false, false, true, true, true, false)), (String ((Ascii
    (false, false, true, false, true, true, true, false)), (String ((Ascii
    (true, false, false, false, false, true, true, false)), (String ((Ascii
    (false, false, true, false, true, true, true, false)), (String ((Ascii
    (true, false, true, false, false, true, true, false)), (String ((Ascii
    (false, true, false, false, true, false, true, false)), (String ((Ascii
    (true, false, true, false, false, true, true, false)), (String ((Ascii
    (true, true, true, false, false, true, true, false)), (String ((Ascii
    (true, false, true, false, false, true, true, false)), (String ((Ascii
    (false, false, false, true, true, true, true, false)), (String ((Ascii
    (false, true, false, false, false, false, true, false)), (String ((Ascii
    (true, true, true, true, false, true, true, false)), (String ((Ascii
    (false, false, true, false, false, true, true, false)), (String ((Ascii
    (true, false, false, true, true, true, true, false)),
    EmptyString)))))))))))))))))))))))))))), ((SIf ((CByte (Npos (XI (XI (XI
    (XI (XO XH))))))), ((SFound (TextEnd, Z0)) :: ((SSetStep
    st_stateBodyEnded) :: [])), ((SIf ((CByte N0), ((SRetErr ((String ((Ascii
    (true, false, false, true, false, true, true, false)), (String ((Ascii
    (false, true, true, true, false, true, true, false)), (String ((Ascii
    (true, true, false, false, true, true, true, false)), (String ((Ascii
    (true, false, false, true, false, true, true, false)), (String ((Ascii
    (false, false, true, false, false, true, true, false)), (String ((Ascii
    (true, false, true, false, false, true, true, false)), (String ((Ascii
    (false, false, false, false, false, true, false, false)), (String ((Ascii
    (false, false, true, false, true, true, true, false)), (String ((Ascii
    (false, false, false, true, false, true, true, false)), (String ((Ascii
    (true, false, true, false, false, true, true, false)), (String ((Ascii
    (false, false, false, false, false, true, false, false)), (String ((Ascii
    (false, true, false, false, true, true, true, false)), (String ((Ascii
    (true, false, true, false, false, true, true, false)), (String ((Ascii
    (true, true, true, false, false, true, true, false)), (String ((Ascii
    (true, false, true, false, true, true, true, false)), (String ((Ascii
    (false, false, true, true, false, true, true, false)), (String ((Ascii
    (true, false, false, false, false, true, true, false)), (String ((Ascii
    (false, true, false, false, true, true, true, false)), (String ((Ascii
    (false, false, false, false, false, true, false, false)), (String ((Ascii
    (true, false, true, false, false, true, true, false)), (String ((Ascii
    (false, false, false, true, true, true, true, false)), (String ((Ascii
    (false, false, false, false, true, true, true, false)), (String ((Ascii
    (false, true, false, false, true, true, true, false)), (String ((Ascii
    (true, false, true, false, false, true, true, false)), (String ((Ascii
    (true, true, false, false, true, true, true, false)), (String ((Ascii
    (true, true, false, false, true, true, true, false)), (String ((Ascii
    (true, false, false, true, false, true, true, false)), (String ((Ascii
    (true, true, true, true, false, true, true, false)), (String ((Ascii
    (false, true, true, true, false, true, true, false)),
    EmptyString)))))))))))))))))))))))))))))))))))))))))))))))))))))))))),
    EmptyString)) :: []), ((SIf ((CByte (Npos (XO (XO (XI (XI (XI (XO
    XH)))))))), ((SSetStep st_stateRegexBodyAfterSlash) :: []),
    [])) :: []))) :: []))) :: (SRetNil :: []))) :: (((String ((Ascii (true,
    true, false, false, true, true, true, false)), (String ((Ascii (false,
    false, true, false, true, true, true, false)), (String ((Ascii (true,
    false, false, false, false, true, true, false)), (String ((Ascii (false,
    false, true, false, true, true, true, false)), (String ((Ascii (true,
    false, true, false, false, true, true, false)), (String ((Ascii (false,
    true, false, false, true, false, true, false)), (String ((Ascii (true,
    false, true, false, false, true, true, false)), (String ((Ascii (true,
    true, true, false, false, true, true, false)), (String ((Ascii (true,
    false, true, false, false, true, true, false)), (String ((Ascii (false,
    false, false, true, true, true, true, false)), (String ((Ascii (false,
    true, false, false, false, false, true, false)), (String ((Ascii (true,
    true, true, true, false, true, true, false)), (String ((Ascii (false,
    false, true, false, false, true, true, false)), (String ((Ascii (true,
    false, false, true, true, true, true, false)), (String ((Ascii (true,
    false, false, false, false, false, true, false)), (String ((Ascii (false,
    true, true, false, false, true, true, false)), (String ((Ascii (false,
    false, true, false, true, true, true, false)), (String ((Ascii (true,
    false, true, false, false, true, true, false)), (String ((Ascii (false,
    true, false, false, true, true, true, false)), (String ((Ascii (true,
    true, false, false, true, false, true, false)), (String ((Ascii (false,
    false, true, true, false, true, true, false)), (String ((Ascii (true,
    false, false, false, false, true, true, false)), (String ((Ascii (true,
    true, false, false, true, true, true, false)), (String ((Ascii (false,
    false, false, true, false, true, true, false)),
    EmptyString)))))))))))))))))))))))))))))))))))))))))))))))), ((SSetStep
    st_stateRegexBody) :: (SRetNil :: []))) :: (((String ((Ascii (true, true,
    false, false, true, true, true, false)), (String ((Ascii (false, false,
    true, false, true, true, true, false)), (String ((Ascii (true, false,
    false, false, false, true, true, false)), (String ((Ascii (false, false,
    true, false, true, true, true, false)), (String ((Ascii (true, false,
    true, false, false, true, true, false)), (String ((Ascii (false, true,
    false, false, true, false, true, false)), (String ((Ascii (true, false,
    true, false, false, true, true, false)), (String ((Ascii (true, true,
    true, false, false, true, true, false)), (String ((Ascii (true, false,
    true, false, false, true, true, false)), (String ((Ascii (false, false,
    false, true, true, true, true, false)), (String ((Ascii (false, true,
    true, false, false, false, true, false)), (String ((Ascii (true, false,
    false, true, false, true, true, false)), (String ((Ascii (false, true,
    false, false, true, true, true, false)), (String ((Ascii (true, true,
    false, false, true, true, true, false)), (String ((Ascii (false, false,
    true, false, true, true, true, false)), (String ((Ascii (true, true,
    false, false, false, false, true, false)), (String ((Ascii (false, false,
    false, true, false, true, true, false)), (String ((Ascii (true, false,
    false, false, false, true, true, false)), (String ((Ascii (false, true,
    false, false, true, true, true, false)),
    EmptyString)))))))))))))))))))))))))))))))))))))), ((SIf ((CByte (Npos
    (XI (XI (XI (XI (XO XH))))))), ((SRetErr ((String ((Ascii (true, false,
    true, false, false, true, true, false)), (String ((Ascii (true, false,
    true, true, false, true, true, false)), (String ((Ascii (false, false,
    false, false, true, true, true, false)), (String ((Ascii (false, false,
    true, false, true, true, true, false)), (String ((Ascii (true, false,
    false, true, true, true, true, false)), (String ((Ascii (false, false,
    false, false, false, true, false, false)), (String ((Ascii (false, true,
    false, false, true, true, true, false)), (String ((Ascii (true, false,
    true, false, false, true, true, false)), (String ((Ascii (true, true,
    true, false, false, true, true, false)), (String ((Ascii (true, false,
    true, false, false, true, true, false)), (String ((Ascii (false, false,
    false, true, true, true, true, false)),
    EmptyString)))))))))))))))))))))), EmptyString)) :: []),
    [])) :: ((SSetStep
    st_stateRegexBody) :: (SRetRedispatch :: [])))) :: (((String ((Ascii
    (true, true, false, false, true, true, true, false)), (String ((Ascii
    (false, false, true, false, true, true, true, false)), (String ((Ascii
    (true, false, false, false, false, true, true, false)), (String ((Ascii
    (false, false, true, false, true, true, true, false)), (String ((Ascii
    (true, false, true, false, false, true, true, false)), (String ((Ascii
    (false, true, false, false, true, false, true, false)), (String ((Ascii
    (true, false, true, false, false, true, true, false)), (String ((Ascii
    (true, false, false, false, true, true, true, false)),
    EmptyString)))))))))))))))), ((SIf ((CByte (Npos (XI (XO (XI (XO (XI (XI
    XH)))))))), ((SSetStep st_stateRequ) :: (SRetNil :: [])), ((SRetErr
    ((String ((Ascii (true, false, false, true, false, true, true, false)),
    (String ((Ascii (false, true, true, true, false, true, true, false)),
    (String ((Ascii (false, false, false, false, false, true, false, false)),
    (String ((Ascii (true, true, false, true, false, true, true, false)),
    (String ((Ascii (true, false, true, false, false, true, true, false)),
    (String ((Ascii (true, false, false, true, true, true, true, false)),
    (String ((Ascii (true, true, true, false, true, true, true, false)),
    (String ((Ascii (true, true, true, true, false, true, true, false)),
    (String ((Ascii (false, true, false, false, true, true, true, false)),
    (String ((Ascii (false, false, true, false, false, true, true, false)),
    (String ((Ascii (false, false, false, false, false, true, false, false)),
    (String ((Ascii (false, true, false, false, true, false, true, false)),
    (String ((Ascii (true, false, true, false, false, true, true, false)),
    (String ((Ascii (true, false, false, false, true, true, true, false)),
    (String ((Ascii (true, false, true, false, true, true, true, false)),
    (String ((Ascii (true, false, true, false, false, true, true, false)),
    (String ((Ascii (true, true, false, false, true, true, true, false)),
    (String ((Ascii (false, false, true, false, true, true, true, false)),
    EmptyString)))))))))))))))))))))))))))))))))))), (String ((Ascii (true,
    false, true, false, true, true, true, false)),
    EmptyString)))) :: []))) :: [])) :: (((String ((Ascii (true, true, false,
    false, true, true, true, false)), (String ((Ascii (false, false, true,
    false, true, true, true, false)), (String ((Ascii (true, false, false,
    false, false, true, true, false)), (String ((Ascii (false, false, true,
    false, true, true, true, false)), (String ((Ascii (true, false, true,
    false, false, true, true, false)), (String ((Ascii (false, true, false,
    false, true, false, true, false)), (String ((Ascii (true, false, true,
    false, false, true, true, false)), (String ((Ascii (true, false, false,
    false, true, true, true, false)), (String ((Ascii (true, false, true,
    false, true, true, true, false)), EmptyString)))))))))))))))))), ((SIf
    ((CByte (Npos (XI (XO (XI (XO (XO (XI XH)))))))), ((SSetStep
    st_stateReque) :: (SRetNil :: [])), ((SRetErr ((String ((Ascii (true,
    false, false, true, false, true, true, false)), (String ((Ascii (false,
    true, true, true, false, true, true, false)), (String ((Ascii (false,
    false, false, false, false, true, false, false)), (String ((Ascii (true,
    true, false, true, false, true, true, false)), (String ((Ascii (true,
    false, true, false, false, true, true, false)), (String ((Ascii (true,
    false, false, true, true, true, true, false)), (String ((Ascii (true,
    true, true, false, true, true, true, false)), (String ((Ascii (true,
    true, true, true, false, true, true, false)), (String ((Ascii (false,
    true, false, false, true, true, true, false)), (String ((Ascii (false,
    false, true, false, false, true, true, false)), (String ((Ascii (false,
    false, false, false, false, true, false, false)), (String ((Ascii (false,
    true, false, false, true, false, true, false)), (String ((Ascii (true,
    false, true, false, false, true, true, false)), (String ((Ascii (true,
    false, false, false, true, true, true, false)), (String ((Ascii (true,
    false, true, false, true, true, true, false)), (String ((Ascii (true,
    false, true, false, false, true, true, false)), (String ((Ascii (true,
    true, false, false, true, true, true, false)), (String ((Ascii (false,
    false, true, false, true, true, true, false)),
    EmptyString)))))))))))))))))))))))))))))))))))), (String ((Ascii (true,
    false, true, false, false, true, true, false)),
    EmptyString)))) :: []))) :: [])) :: (((String ((Ascii (true, true, false,
    false, true, true, true, false)), (String ((Ascii (false, false, true,
    false, true, true, true, false)), (String ((Ascii (true, false, false,
    false, false, true, true, false)), (String ((Ascii (false, false, true,
    false, true, true, true, false)), (String ((Ascii (true, false, true,
    false, false, true, true, false)), (String ((Ascii (false, true, false,
    false, true, false, true, false)), (String ((Ascii (true, false, true,
    false, false, true, true, false)), (String ((Ascii (true, false, false,
    false, true, true, true, false)), (String ((Ascii (true, false, true,
    false, true, true, true, false)), (String ((Ascii (true, false, true,
    false, false, true, true, false)), EmptyString)))))))))))))))))))), ((SIf
    ((CByte (Npos (XI (XI (XO (XO (XI (XI XH)))))))), ((SSetStep
    st_stateReques) :: (SRetNil :: [])), ((SRetErr ((String ((Ascii (true,
    false, false, true, false, true, true, false)), (String ((Ascii (false,
    true, true, true, false, true, true, false)), (String ((Ascii (false,
    false, false, false, false, true, false, false)), (String ((Ascii (true,
    true, false, true, false, true, true, false)), (String ((Ascii (true,
    false, true, false, false, true, true, false)), (String ((Ascii (true,
    false, false, true, true, true, true, false)), (String ((Ascii (true,
    true, true, false, true, true, true, false)), (String ((Ascii (true,
    true, true, true, false, true, true, false)), (String ((Ascii (false,
    true, false, false, true, true, true, false)), (String ((Ascii (false,
    false, true, false, false, true, true, false)), (String ((Ascii (false,
    false, false, false, false, true, false, false)), (String ((Ascii (false,
    true, false, false, true, false, true, false)), (String ((Ascii (true,
    false, true, false, false, true, true, false)), (String ((Ascii (true,
    false, false, false, true, true, true, false)), (String ((Ascii (true,
    false, true, false, true, true, true, false)), (String ((Ascii (true,
    false, true, false, false, true, true, false)), (String ((Ascii (true,
    true, false, false, true, true, true, false)), (String ((Ascii (false,
    false, true, false, true, true, true, false)),
    EmptyString)))))))))))))))))))))))))))))))))))), (String ((Ascii (true,
    true, false, false, true, true, true, false)),
    EmptyString)))) :: []))) :: [])) :: (((String ((Ascii (true, true, false,
    false, true, true, true, false)), (String ((Ascii (false, false, true,
    false, true, true, true, false)), (String ((Ascii (true, false, false,
    false, false, true, true, false)), (String ((Ascii (false, false, true,
    false, true, true, true, false)), (String ((Ascii (true, false, true,
    false, false, true, true, false)), (String ((Ascii (false, true, false,
    false, true, false, true, false)), (String ((Ascii (true, false, true,
    false, false, true, true, false)), (String ((Ascii (true, false, false,
    false, true, true, true, false)), (String ((Ascii (true, false, true,
    false, true, true, true, false)), (String ((Ascii (true, false, true,
    false, false, true, true, false)), (String ((Ascii (true, true, false,
    false, true, true, true, false)), EmptyString)))))))))))))))))))))),
    ((SIf ((CByte (Npos (XO (XO (XI (XO (XI (XI XH)))))))), ((SFound
    (KeywordEnd, Z0)) :: ((SPush st_stateRequestBodyOrKeyword) :: ((SSetStep
    st_stateParameterOrAnnotation) :: (SRetNil :: [])))), ((SRetErr ((String
    ((Ascii (true, false, false, true, false, true, true, false)), (String
    ((Ascii (false, true, true, true, false, true, true, false)), (String
    ((Ascii (false, false, false, false, false, true, false, false)), (String
    ((Ascii (true, true, false, true, false, true, true, false)), (String
    ((Ascii (true, false, true, false, false, true, true, false)), (String
    ((Ascii (true, false, false, true, true, true, true, false)), (String
    ((Ascii (true, true, true, false, true, true, true, false)), (String
    ((Ascii (true, true, true, true, false, true, true, false)), (String
    ((Ascii (false, true, false, false, true, true, true, false)), (String
    ((Ascii (false, false, true, false, false, true, true, false)), (String
    ((Ascii (false, false, false, false, false, true, false, false)), (String
    ((Ascii (false, true, false, false, true, false, true, false)), (String
    ((Ascii (true, false, true, false, false, true, true, false)), (String
    ((Ascii (true, false, false, false, true, true, true, false)), (String
    ((Ascii (true, false, true, false, true, true, true, false)), (String
    ((Ascii (true, false, true, false, false, true, true, false)), (String
    ((Ascii (true, true, false, false, true, true, true, false)), (String
    ((Ascii (false, false, true, false, true, true, true, false)),
    EmptyString)))))))))))))))))))))))))))))))))))), (String ((Ascii (false,
    false, true, false, true, true, true, false)),
    EmptyString)))) :: []))) :: [])) :: (((String ((Ascii (true, true, false,
    false, true, true, true, false)), (String ((Ascii (false, false, true,
    false, true, true, true, false)), (String ((Ascii (true, false, false,
    false, false, true, true, false)), (String ((Ascii (false, false, true,
    false, true, true, true, false)), (String ((Ascii (true, false, true,
    false, false, true, true, false)), (String ((Ascii (false, true, false,
    false, true, false, true, false)), (String ((Ascii (true, false, true,
    false, false, true, true, false)), (String ((Ascii (true, false, false,
    false, true, true, true, false)), (String ((Ascii (true, false, true,
    false, true, true, true, false)), (String ((Ascii (true, false, true,
    false, false, true, true, false)), (String ((Ascii (true, true, false,
    false, true, true, true, false)), (String ((Ascii (false, false, true,
    false, true, true, true, false)), (String ((Ascii (false, true, false,
    false, false, false, true, false)), (String ((Ascii (true, true, true,
    true, false, true, true, false)), (String ((Ascii (false, false, true,
    false, false, true, true, false)), (String ((Ascii (true, false, false,
    true, true, true, true, false)),
    EmptyString)))))))))))))))))))))))))))))))), ((SIf ((CByte (Npos (XO (XO
    (XO (XI (XO XH))))))), ((SFound (ContextOpen, Z0)) :: (SRetNil :: [])),
    ((SIf ((COr (CWhitespace, CNewLine)), (SRetNil :: []), ((SIf ((CByte
    (Npos (XI (XI (XO (XO (XO XH))))))), (SPushCur :: ((SSetStep
    st_stateCommentStarted) :: (SRetNil :: []))), ((SIf ((COr ((CByte (Npos
    (XO (XI (XO (XO (XO (XO XH)))))))), (COr ((CByte (Npos (XO (XO (XO (XI
    (XO (XO XH)))))))), (COr ((CByte (Npos (XO (XO (XO (XO (XI (XO
    XH)))))))), (CByte (Npos (XI (XO (XO (XI (XO (XO XH)))))))))))))),
    ((SRetCall st_stateExpectKeyword) :: []),
    (SPop :: (SRetRedispatch :: [])))) :: []))) :: []))) :: []))) :: [])) :: (((String
    ((Ascii (true, true, false, false, true, true, true, false)), (String
    ((Ascii (false, false, true, false, true, true, true, false)), (String
    ((Ascii (true, false, false, false, false, true, true, false)), (String
    ((Ascii (false, false, true, false, true, true, true, false)), (String
    ((Ascii (true, false, true, false, false, true, true, false)), (String
    ((Ascii (false, true, false, false, true, false, true, false)), (String
    ((Ascii (true, false, true, false, false, true, true, false)), (String
    ((Ascii (true, false, false, false, true, true, true, false)), (String
    ((Ascii (true, false, true, false, true, true, true, false)), (String
    ((Ascii (true, false, true, false, false, true, true, false)), (String
    ((Ascii (true, true, false, false, true, true, true, false)), (String
    ((Ascii (false, false, true, false, true, true, true, false)), (String
    ((Ascii (false, true, false, false, false, false, true, false)), (String
    ((Ascii (true, true, true, true, false, true, true, false)), (String
    ((Ascii (false, false, true, false, false, true, true, false)), (String
    ((Ascii (true, false, false, true, true, true, true, false)), (String
    ((Ascii (true, true, true, true, false, false, true, false)), (String
    ((Ascii (false, true, false, false, true, true, true, false)), (String
    ((Ascii (true, true, false, true, false, false, true, false)), (String
    ((Ascii (true, false, true, false, false, true, true, false)), (String
    ((Ascii (true, false, false, true, true, true, true, false)), (String
    ((Ascii (true, true, true, false, true, true, true, false)), (String
    ((Ascii (true, true, true, true, false, true, true, false)), (String
    ((Ascii (false, true, false, false, true, true, true, false)), (String
    ((Ascii (false, false, true, false, false, true, true, false)),
    EmptyString)))))))))))))))))))))))))))))))))))))))))))))))))), ((SIf
    ((CNot (CCtx QTypeOrAnyOrEmpty)), ((SIf ((CCtx QRegex), ((SPush
    st_stateRegex) :: []), ((SPush st_stateJSchema) :: []))) :: ((SSetStep
    st_stateRequestBody) :: [])), ((SSetStep
    st_stateExpectKeyword) :: []))) :: (SRetRedispatch :: []))) :: (((String
    ((Ascii (true, true, false, false, true, true, true, false)), (String
    ((Ascii (false, false, true, false, true, true, true, false)), (String
    ((Ascii (true, false, false, false, false, true, true, false)), (String
    ((Ascii (false, false, true, false, true, true, true, false)), (String
    ((Ascii (true, false, true, false, false, true, true, false)), (String
    ((Ascii (false, true, false, false, true, false, true, false)), (String
    ((Ascii (true, false, true, false, false, true, true, false)), (String
    ((Ascii (true, true, false, false, true, true, true, false)),
    EmptyString)))))))))))))))), ((SIf ((CByte (Npos (XI (XO (XI (XO (XI (XI
    XH)))))))), ((SSetStep st_stateResu) :: (SRetNil :: [])), ((SRetErr
    ((String ((Ascii (true, false, false, true, false, true, true, false)),
    (String ((Ascii (false, true, true, true, false, true, true, false)),
    (String ((Ascii (false, false, false, false, false, true, false, false)),
    (String ((Ascii (true, true, false, true, false, true, true, false)),
    (String ((Ascii (true, false, true, false, false, true, true, false)),
    (String ((Ascii (true, false, false, true, true, true, true, false)),
    (String ((Ascii (true, true, true, false, true, true, true, false)),
    (String ((Ascii (true, true, true, true, false, true, true, false)),
    (String ((Ascii (false, true, false, false, true, true, true, false)),
    (String ((Ascii (false, false, true, false, false, true, true, false)),
    (String ((Ascii (false, false, false, false, false, true, false, false)),
    (String ((Ascii (false, true, false, false, true, false, true, false)),
    (String ((Ascii (true, false, true, false, false, true, true, false)),
    (String ((Ascii (true, true, false, false, true, true, true, false)),
    (String ((Ascii (true, false, true, false, true, true, true, false)),
    (String ((Ascii (false, false, true, true, false, true, true, false)),
    (String ((Ascii (false, false, true, false, true, true, true, false)),
    EmptyString)))))))))))))))))))))))))))))))))), (String ((Ascii (true,
    false, true, false, true, true, true, false)),
    EmptyString)))) :: []))) :: [])) :: (((String ((Ascii (true, true, false,
    false, true, true, true, false)), (String ((Ascii (false, false, true,
    false, true, true, true, false)), (String ((Ascii (true, false, false,
    false, false, true, true, false)), (String ((Ascii (false, false, true,
    false, true, true, true, false)), (String ((Ascii (true, false, true,
    false, false, true, true, false)), (String ((Ascii (false, true, false,
    false, true, false, true, false)), (String ((Ascii (true, false, true,
    false, false, true, true, false)), (String ((Ascii (true, true, false,
    false, true, true, true, false)), (String ((Ascii (false, false, false,
    false, true, true, true, false)), (String ((Ascii (true, true, true,
    true, false, true, true, false)), (String ((Ascii (false, true, true,
    true, false, true, true, false)), (String ((Ascii (true, true, false,
    false, true, true, true, false)), (String ((Ascii (true, false, true,
    false, false, true, true, false)), (String ((Ascii (false, true, false,
    false, false, false, true, false)), (String ((Ascii (true, true, true,
    true, false, true, true, false)), (String ((Ascii (false, false, true,
    false, false, true, true, false)), (String ((Ascii (true, false, false,
    true, true, true, true, false)),
    EmptyString)))))))))))))))))))))))))))))))))), ((SIf ((CByte (Npos (XO
    (XO (XO (XI (XO XH))))))), ((SFound (ContextOpen,
    Z0)) :: (SRetNil :: [])), ((SIf ((COr (CWhitespace, CNewLine)),
    (SRetNil :: []), ((SIf ((CByte (Npos (XI (XI (XO (XO (XO XH))))))),
    (SPushCur :: ((SSetStep st_stateCommentStarted) :: (SRetNil :: []))),
    ((SIf ((COr ((CByte (Npos (XO (XI (XO (XO (XO (XO XH)))))))), (COr
    ((CByte (Npos (XO (XO (XO (XI (XO (XO XH)))))))), (COr ((CByte (Npos (XO
    (XO (XO (XO (XI (XO XH)))))))), (CByte (Npos (XI (XO (XO (XI (XO (XO
    XH)))))))))))))), ((SRetCall st_stateExpectKeyword) :: []),
    (SPop :: (SRetRedispatch :: [])))) :: []))) :: []))) :: []))) :: [])) :: (((String
    ((Ascii (true, true, false, false, true, true, true, false)), (String
    ((Ascii (false, false, true, false, true, true, true, false)), (String
    ((Ascii (true, false, false, false, false, true, true, false)), (String
    ((Ascii (false, false, true, false, true, true, true, false)), (String
    ((Ascii (true, false, true, false, false, true, true, false)), (String
    ((Ascii (false, true, false, false, true, false, true, false)), (String
    ((Ascii (true, false, true, false, false, true, true, false)), (String
    ((Ascii (true, true, false, false, true, true, true, false)), (String
    ((Ascii (false, false, false, false, true, true, true, false)), (String
    ((Ascii (true, true, true, true, false, true, true, false)), (String
    ((Ascii (false, true, true, true, false, true, true, false)), (String
    ((Ascii (true, true, false, false, true, true, true, false)), (String
    ((Ascii (true, false, true, false, false, true, true, false)), (String
    ((Ascii (false, true, false, false, false, false, true, false)), (String
    ((Ascii (true, true, true, true, false, true, true, false)), (String
    ((Ascii (false, false, true, false, false, true, true, false)), (String
    ((Ascii (true, false, false, true, true, true, true, false)), (String
    ((Ascii (true, true, true, true, false, false, true, false)), (String
    ((Ascii (false, true, false, false, true, true, true, false)), (String
    ((Ascii (true, true, false, true, false, false, true, false)), (String
    ((Ascii (true, false, true, false, false, true, true, false)), (String
    ((Ascii (true, false, false, true, true, true, true, false)), (String
    ((Ascii (true, true, true, false, true, true, true, false)), (String
    ((Ascii (true, true, true, true, false, true, true, false)), (String
    ((Ascii (false, true, false, false, true, true, true, false)), (String
    ((Ascii (false, false, true, false, false, true, true, false)),
    EmptyString)))))))))))))))))))))))))))))))))))))))))))))))))))), ((SIf
    ((CNot (CCtx QTypeOrAnyOrEmpty)), ((SIf ((CCtx QRegex), ((SPush
    st_stateRegex) :: []), ((SPush st_stateJSchema) :: []))) :: ((SSetStep
    st_stateResponseBody) :: [])), ((SSetStep
    st_stateExpectKeyword) :: []))) :: (SRetRedispatch :: []))) :: (((String
    ((Ascii (true, true, false, false, true, true, true, false)), (String
    ((Ascii (false, false, true, false, true, true, true, false)), (String
    ((Ascii (true, false, false, false, false, true, true, false)), (String
    ((Ascii (false, false, true, false, true, true, true, false)), (String
    ((Ascii (true, false, true, false, false, true, true, false)), (String
    ((Ascii (false, true, false, false, true, false, true, false)), (String
    ((Ascii (true, false, true, false, false, true, true, false)), (String
    ((Ascii (true, true, false, false, true, true, true, false)), (String
    ((Ascii (false, false, false, false, true, true, true, false)), (String
    ((Ascii (true, true, true, true, false, true, true, false)), (String
    ((Ascii (false, true, true, true, false, true, true, false)), (String
    ((Ascii (true, true, false, false, true, true, true, false)), (String
    ((Ascii (true, false, true, false, false, true, true, false)), (String
    ((Ascii (true, true, false, true, false, false, true, false)), (String
    ((Ascii (true, false, true, false, false, true, true, false)), (String
    ((Ascii (true, false, false, true, true, true, true, false)), (String
    ((Ascii (true, true, true, false, true, true, true, false)), (String
    ((Ascii (true, true, true, true, false, true, true, false)), (String
    ((Ascii (false, true, false, false, true, true, true, false)), (String
    ((Ascii (false, false, true, false, false, true, true, false)), (String
    ((Ascii (true, true, false, false, true, false, true, false)), (String
    ((Ascii (true, false, true, false, false, true, true, false)), (String
    ((Ascii (true, true, false, false, false, true, true, false)), (String
    ((Ascii (true, true, true, true, false, true, true, false)), (String
    ((Ascii (false, true, true, true, false, true, true, false)), (String
    ((Ascii (false, false, true, false, false, true, true, false)),
    EmptyString)))))))))))))))))))))))))))))))))))))))))))))))))))), ((SIf
    ((COr ((CByte (Npos (XO (XO (XO (XO (XI XH))))))), (COr ((CByte (Npos (XI
    (XO (XO (XO (XI XH))))))), (COr ((CByte (Npos (XO (XI (XO (XO (XI
    XH))))))), (COr ((CByte (Npos (XI (XI (XO (XO (XI XH))))))), (COr ((CByte
    (Npos (XO (XO (XI (XO (XI XH))))))), (COr ((CByte (Npos (XI (XO (XI (XO
    (XI XH))))))), (COr ((CByte (Npos (XO (XI (XI (XO (XI XH))))))), (COr
    ((CByte (Npos (XI (XI (XI (XO (XI XH))))))), (COr ((CByte (Npos (XO (XO
    (XO (XI (XI XH))))))), (CByte (Npos (XI (XO (XO (XI (XI
    XH))))))))))))))))))))))))), ((SFound (KeywordEnd, Z0)) :: ((SPush
    st_stateResponseBodyOrKeyword) :: ((SSetStep
    st_stateParameterOrAnnotation) :: (SRetNil :: [])))), ((SRetErr ((String
    ((Ascii (true, false, false, false, false, true, true, false)), (String
    ((Ascii (false, false, true, false, true, true, true, false)), (String
    ((Ascii (false, false, false, false, false, true, false, false)), (String
    ((Ascii (false, true, false, false, true, true, true, false)), (String
    ((Ascii (true, false, true, false, false, true, true, false)), (String
    ((Ascii (true, true, false, false, true, true, true, false)), (String
    ((Ascii (false, false, false, false, true, true, true, false)), (String
    ((Ascii (true, true, true, true, false, true, true, false)), (String
    ((Ascii (false, true, true, true, false, true, true, false)), (String
    ((Ascii (true, true, false, false, true, true, true, false)), (String
    ((Ascii (true, false, true, false, false, true, true, false)), (String
    ((Ascii (false, false, false, false, false, true, false, false)), (String
    ((Ascii (false, false, true, false, false, true, true, false)), (String
    ((Ascii (true, false, false, true, false, true, true, false)), (String
    ((Ascii (false, true, false, false, true, true, true, false)), (String
    ((Ascii (true, false, true, false, false, true, true, false)), (String
    ((Ascii (true, true, false, false, false, true, true, false)), (String
    ((Ascii (false, false, true, false, true, true, true, false)), (String
    ((Ascii (true, false, false, true, false, true, true, false)), (String
    ((Ascii (false, true, true, false, true, true, true, false)), (String
    ((Ascii (true, false, true, false, false, true, true, false)),
    EmptyString)))))))))))))))))))))))))))))))))))))))))), (String ((Ascii
    (false, false, true, false, false, true, true, false)), (String ((Ascii
    (true, false, false, true, false, true, true, false)), (String ((Ascii
    (true, true, true, false, false, true, true, false)), (String ((Ascii
    (true, false, false, true, false, true, true, false)), (String ((Ascii
    (false, false, true, false, true, true, true, false)),
    EmptyString)))))))))))) :: []))) :: [])) :: (((String ((Ascii (true,
    true, false, false, true, true, true, false)), (String ((Ascii (false,
    false, true, false, true, true, true, false)), (String ((Ascii (true,
    false, false, false, false, true, true, false)), (String ((Ascii (false,
    false, true, false, true, true, true, false)), (String ((Ascii (true,
    false, true, false, false, true, true, false)), (String ((Ascii (false,
    true, false, false, true, false, true, false)), (String ((Ascii (true,
    false, true, false, false, true, true, false)), (String ((Ascii (true,
    true, false, false, true, true, true, false)), (String ((Ascii (false,
    false, false, false, true, true, true, false)), (String ((Ascii (true,
    true, true, true, false, true, true, false)), (String ((Ascii (false,
    true, true, true, false, true, true, false)), (String ((Ascii (true,
    true, false, false, true, true, true, false)), (String ((Ascii (true,
    false, true, false, false, true, true, false)), (String ((Ascii (true,
    true, false, true, false, false, true, false)), (String ((Ascii (true,
    false, true, false, false, true, true, false)), (String ((Ascii (true,
    false, false, true, true, true, true, false)), (String ((Ascii (true,
    true, true, false, true, true, true, false)), (String ((Ascii (true,
    true, true, true, false, true, true, false)), (String ((Ascii (false,
    true, false, false, true, true, true, false)), (String ((Ascii (false,
    false, true, false, false, true, true, false)), (String ((Ascii (true,
    true, false, false, true, false, true, false)), (String ((Ascii (false,
    false, true, false, true, true, true, false)), (String ((Ascii (true,
    false, false, false, false, true, true, false)), (String ((Ascii (false,
    true, false, false, true, true, true, false)), (String ((Ascii (false,
    false, true, false, true, true, true, false)), (String ((Ascii (true,
    false, true, false, false, true, true, false)), (String ((Ascii (false,
    false, true, false, false, true, true, false)),
    EmptyString)))))))))))))))))))))))))))))))))))))))))))))))))))))), ((SIf
    ((COr ((CByte (Npos (XO (XO (XO (XO (XI XH))))))), (COr ((CByte (Npos (XI
    (XO (XO (XO (XI XH))))))), (COr ((CByte (Npos (XO (XI (XO (XO (XI
    XH))))))), (COr ((CByte (Npos (XI (XI (XO (XO (XI XH))))))), (COr ((CByte
    (Npos (XO (XO (XI (XO (XI XH))))))), (COr ((CByte (Npos (XI (XO (XI (XO
    (XI XH))))))), (COr ((CByte (Npos (XO (XI (XI (XO (XI XH))))))), (COr
    ((CByte (Npos (XI (XI (XI (XO (XI XH))))))), (COr ((CByte (Npos (XO (XO
    (XO (XI (XI XH))))))), (CByte (Npos (XI (XO (XO (XI (XI
    XH))))))))))))))))))))))))), ((SSetStep
    st_stateResponseKeywordSecond) :: (SRetNil :: [])), ((SRetErr ((String
    ((Ascii (true, false, false, false, false, true, true, false)), (String
    ((Ascii (false, false, true, false, true, true, true, false)), (String
    ((Ascii (false, false, false, false, false, true, false, false)), (String
    ((Ascii (false, true, false, false, true, true, true, false)), (String
    ((Ascii (true, false, true, false, false, true, true, false)), (String
    ((Ascii (true, true, false, false, true, true, true, false)), (String
    ((Ascii (false, false, false, false, true, true, true, false)), (String
    ((Ascii (true, true, true, true, false, true, true, false)), (String
    ((Ascii (false, true, true, true, false, true, true, false)), (String
    ((Ascii (true, true, false, false, true, true, true, false)), (String
    ((Ascii (true, false, true, false, false, true, true, false)), (String
    ((Ascii (false, false, false, false, false, true, false, false)), (String
    ((Ascii (false, false, true, false, false, true, true, false)), (String
    ((Ascii (true, false, false, true, false, true, true, false)), (String
    ((Ascii (false, true, false, false, true, true, true, false)), (String
    ((Ascii (true, false, true, false, false, true, true, false)), (String
    ((Ascii (true, true, false, false, false, true, true, false)), (String
    ((Ascii (false, false, true, false, true, true, true, false)), (String
    ((Ascii (true, false, false, true, false, true, true, false)), (String
    ((Ascii (false, true, true, false, true, true, true, false)), (String
    ((Ascii (true, false, true, false, false, true, true, false)),
    EmptyString)))))))))))))))))))))))))))))))))))))))))), (String ((Ascii
    (false, false, true, false, false, true, true, false)), (String ((Ascii
    (true, false, false, true, false, true, true, false)), (String ((Ascii
    (true, true, true, false, false, true, true, false)), (String ((Ascii
    (true, false, false, true, false, true, true, false)), (String ((Ascii
    (false, false, true, false, true, true, true, false)),
    EmptyString)))))))))))) :: []))) :: [])) :: (((String ((Ascii (true,
    true, false, false, true, true, true, false)), (String ((Ascii (false,
    false, true, false, true, true, true, false)), (String ((Ascii (true,
    false, false, false, false, true, true, false)), (String ((Ascii (false,
    false, true, false, true, true, true, false)), (String ((Ascii (true,
    false, true, false, false, true, true, false)), (String ((Ascii (false,
    true, false, false, true, false, true, false)), (String ((Ascii (true,
    false, true, false, false, true, true, false)), (String ((Ascii (true,
    true, false, false, true, true, true, false)), (String ((Ascii (true,
    false, true, false, true, true, true, false)),
    EmptyString)))))))))))))))))), ((SIf ((CByte (Npos (XO (XO (XI (XI (XO
    (XI XH)))))))), ((SSetStep st_stateResul) :: (SRetNil :: [])), ((SRetErr
    ((String ((Ascii (true, false, false, true, false, true, true, false)),
    (String ((Ascii (false, true, true, true, false, true, true, false)),
    (String ((Ascii (false, false, false, false, false, true, false, false)),
    (String ((Ascii (true, true, false, true, false, true, true, false)),
    (String ((Ascii (true, false, true, false, false, true, true, false)),
    (String ((Ascii (true, false, false, true, true, true, true, false)),
    (String ((Ascii (true, true, true, false, true, true, true, false)),
    (String ((Ascii (true, true, true, true, false, true, true, false)),
    (String ((Ascii (false, true, false, false, true, true, true, false)),
    (String ((Ascii (false, false, true, false, false, true, true, false)),
    (String ((Ascii (false, false, false, false, false, true, false, false)),
    (String ((Ascii (false, true, false, false, true, false, true, false)),
    (String ((Ascii (true, false, true, false, false, true, true, false)),
    (String ((Ascii (true, true, false, false, true, true, true, false)),
    (String ((Ascii (true, false, true, false, true, true, true, false)),
    (String ((Ascii (false, false, true, true, false, true, true, false)),
    (String ((Ascii (false, false, true, false, true, true, true, false)),
    EmptyString)))))))))))))))))))))))))))))))))), (String ((Ascii (false,
    false, true, true, false, true, true, false)),
    EmptyString)))) :: []))) :: [])) :: (((String ((Ascii (true, true, false,
    false, true, true, true, false)), (String ((Ascii (false, false, true,
    false, true, true, true, false)), (String ((Ascii (true, false, false,
    false, false, true, true, false)), (String ((Ascii (false, false, true,
    false, true, true, true, false)), (String ((Ascii (true, false, true,
    false, false, true, true, false)), (String ((Ascii (false, true, false,
    false, true, false, true, false)), (String ((Ascii (true, false, true,
    false, false, true, true, false)), (String ((Ascii (true, true, false,
    false, true, true, true, false)), (String ((Ascii (true, false, true,
    false, true, true, true, false)), (String ((Ascii (false, false, true,
    true, false, true, true, false)), EmptyString)))))))))))))))))))), ((SIf
    ((CByte (Npos (XO (XO (XI (XO (XI (XI XH)))))))), ((SFound (KeywordEnd,
    Z0)) :: ((SPush st_stateResultBody) :: ((SSetStep
    st_stateParameterOrAnnotation) :: (SRetNil :: [])))), ((SRetErr ((String
    ((Ascii (true, false, false, true, false, true, true, false)), (String
    ((Ascii (false, true, true, true, false, true, true, false)), (String
    ((Ascii (false, false, false, false, false, true, false, false)), (String
    ((Ascii (true, true, false, true, false, true, true, false)), (String
    ((Ascii (true, false, true, false, false, true, true, false)), (String
    ((Ascii (true, false, false, true, true, true, true, false)), (String
    ((Ascii (true, true, true, false, true, true, true, false)), (String
    ((Ascii (true, true, true, true, false, true, true, false)), (String
    ((Ascii (false, true, false, false, true, true, true, false)), (String
    ((Ascii (false, false, true, false, false, true, true, false)), (String
    ((Ascii (false, false, false, false, false, true, false, false)), (String
    ((Ascii (false, true, false, false, true, false, true, false)), (String
    ((Ascii (true, false, true, false, false, true, true, false)), (String
    ((Ascii (true, true, false, false, true, true, true, false)), (String
    ((Ascii (true, false, true, false, true, true, true, false)), (String
    ((Ascii (false, false, true, true, false, true, true, false)), (String
    ((Ascii (false, false, true, false, true, true, true, false)),
    EmptyString)))))))))))))))))))))))))))))))))), (String ((Ascii (false,
    false, true, false, true, true, true, false)),
    EmptyString)))) :: []))) :: [])) :: (((String ((Ascii (true, true, false,
    false, true, true, true, false)), (String ((Ascii (false, false, true,
    false, true, true, true, false)), (String ((Ascii (true, false, false,
    false, false, true, true, false)), (String ((Ascii (false, false, true,
    false, true, true, true, false)), (String ((Ascii (true, false, true,
    false, false, true, true, false)), (String ((Ascii (false, true, false,
    false, true, false, true, false)), (String ((Ascii (true, false, true,
    false, false, true, true, false)), (String ((Ascii (true, true, false,
    false, true, true, true, false)), (String ((Ascii (true, false, true,
    false, true, true, true, false)), (String ((Ascii (false, false, true,
    true, false, true, true, false)), (String ((Ascii (false, false, true,
    false, true, true, true, false)), (String ((Ascii (false, true, false,
    false, false, false, true, false)), (String ((Ascii (true, true, true,
    true, false, true, true, false)), (String ((Ascii (false, false, true,
    false, false, true, true, false)), (String ((Ascii (true, false, false,
    true, true, true, true, false)),
    EmptyString)))))))))))))))))))))))))))))), ((SIf ((CByte (Npos (XO (XO
    (XO (XI (XO XH))))))), ((SFound (ContextOpen, Z0)) :: (SRetNil :: [])),
    ((SIf ((COr (CWhitespace, CNewLine)), (SRetNil :: []), ((SIf ((CByte
    (Npos (XI (XI (XO (XO (XO XH))))))), (SPushCur :: ((SSetStep
    st_stateCommentStarted) :: (SRetNil :: []))), ((SRetCall
    st_stateJSchema) :: []))) :: []))) :: []))) :: [])) :: (((String ((Ascii
    (true, true, false, false, true, true, true, false)), (String ((Ascii
    (false, false, true, false, true, true, true, false)), (String ((Ascii
    (true, false, false, false, false, true, true, false)), (String ((Ascii
    (false, false, true, false, true, true, true, false)), (String ((Ascii
    (true, false, true, false, false, true, true, false)), (String ((Ascii
    (false, true, false, false, true, false, true, false)), (String ((Ascii
    (true, true, true, true, false, true, true, false)), (String ((Ascii
    (true, true, true, true, false, true, true, false)), (String ((Ascii
    (false, false, true, false, true, true, true, false)),
    EmptyString)))))))))))))))))), ((SIf ((CByte (Npos (XI (XI (XO (XO (XO
    XH))))))), (SPushCur :: ((SSetStep
    st_stateCommentStarted) :: (SRetNil :: []))), [])) :: ((SRetCall
    st_stateExpectKeyword) :: []))) :: (((String ((Ascii (true, true, false,
    false, true, true, true, false)), (String ((Ascii (false, false, true,
    false, true, true, true, false)), (String ((Ascii (true, false, false,
    false, false, true, true, false)), (String ((Ascii (false, false, true,
    false, true, true, true, false)), (String ((Ascii (true, false, true,
    false, false, true, true, false)), (String ((Ascii (true, true, false,
    false, true, false, true, false)), EmptyString)))))))))))), ((SIf ((CByte
    (Npos (XI (XO (XI (XO (XO (XO XH)))))))), ((SSetStep
    st_stateSe) :: (SRetNil :: [])), ((SRetErr ((String ((Ascii (true, false,
    false, true, false, true, true, false)), (String ((Ascii (false, true,
    true, true, false, true, true, false)), (String ((Ascii (false, false,
    false, false, false, true, false, false)), (String ((Ascii (true, true,
    false, true, false, true, true, false)), (String ((Ascii (true, false,
    true, false, false, true, true, false)), (String ((Ascii (true, false,
    false, true, true, true, true, false)), (String ((Ascii (true, true,
    true, false, true, true, true, false)), (String ((Ascii (true, true,
    true, true, false, true, true, false)), (String ((Ascii (false, true,
    false, false, true, true, true, false)), (String ((Ascii (false, false,
    true, false, false, true, true, false)), (String ((Ascii (false, false,
    false, false, false, true, false, false)), (String ((Ascii (true, true,
    false, false, true, false, true, false)), (String ((Ascii (true, false,
    true, false, false, false, true, false)), (String ((Ascii (false, true,
    false, false, true, false, true, false)), (String ((Ascii (false, true,
    true, false, true, false, true, false)), (String ((Ascii (true, false,
    true, false, false, false, true, false)), (String ((Ascii (false, true,
    false, false, true, false, true, false)),
    EmptyString)))))))))))))))))))))))))))))))))), (String ((Ascii (true,
    false, true, false, false, false, true, false)),
    EmptyString)))) :: []))) :: [])) :: (((String ((Ascii (true, true, false,
    false, true, true, true, false)), (String ((Ascii (false, false, true,
    false, true, true, true, false)), (String ((Ascii (true, false, false,
    false, false, true, true, false)), (String ((Ascii (false, false, true,
    false, true, true, true, false)), (String ((Ascii (true, false, true,
    false, false, true, true, false)), (String ((Ascii (true, true, false,
    false, true, false, true, false)), (String ((Ascii (true, true, false,
    false, false, true, true, false)), (String ((Ascii (false, false, false,
    true, false, true, true, false)), (String ((Ascii (true, false, true,
    false, false, true, true, false)), (String ((Ascii (true, false, true,
    true, false, true, true, false)), (String ((Ascii (true, false, false,
    false, false, true, true, false)), (String ((Ascii (true, true, false,
    false, false, false, true, false)), (String ((Ascii (false, false, true,
    true, false, true, true, false)), (String ((Ascii (true, true, true,
    true, false, true, true, false)), (String ((Ascii (true, true, false,
    false, true, true, true, false)), (String ((Ascii (true, false, true,
    false, false, true, true, false)), (String ((Ascii (false, false, true,
    false, false, true, true, false)),
    EmptyString)))))))))))))))))))))))))))))))))), ((SIf (CWhitespace,
    ((SFound (SchemaEnd, (Zneg XH))) :: ((SSetStep
    st_stateBodyEnded) :: (SRetNil :: []))), ((SIf ((COr (CNewLine, (CByte
    N0))), ((SFound (SchemaEnd, (Zneg XH))) :: ((SSetStep
    st_stateExpectKeyword) :: (SRetNil :: []))), ((SRetErr ((String ((Ascii
    (true, false, false, false, false, true, true, false)), (String ((Ascii
    (false, true, true, false, false, true, true, false)), (String ((Ascii
    (false, false, true, false, true, true, true, false)), (String ((Ascii
    (true, false, true, false, false, true, true, false)), (String ((Ascii
    (false, true, false, false, true, true, true, false)), (String ((Ascii
    (false, false, false, false, false, true, false, false)), (String ((Ascii
    (true, true, false, false, true, true, true, false)), (String ((Ascii
    (true, true, false, false, false, true, true, false)), (String ((Ascii
    (false, false, false, true, false, true, true, false)), (String ((Ascii
    (true, false, true, false, false, true, true, false)), (String ((Ascii
    (true, false, true, true, false, true, true, false)), (String ((Ascii
    (true, false, false, false, false, true, true, false)),
    EmptyString)))))))))))))))))))))))),
    EmptyString)) :: []))) :: []))) :: [])) :: (((String ((Ascii (true, true,
    false, false, true, true, true, false)), (String ((Ascii (false, false,
    true, false, true, true, true, false)), (String ((Ascii (true, false,
    false, false, false, true, true, false)), (String ((Ascii (false, false,
    true, false, true, true, true, false)), (String ((Ascii (true, false,
    true, false, false, true, true, false)), (String ((Ascii (true, true,
    false, false, true, false, true, false)), (String ((Ascii (true, false,
    true, false, false, true, true, false)), EmptyString)))))))))))))), ((SIf
    ((CByte (Npos (XO (XI (XO (XO (XI (XO XH)))))))), ((SSetStep
    st_stateSer) :: (SRetNil :: [])), ((SRetErr ((String ((Ascii (true,
    false, false, true, false, true, true, false)), (String ((Ascii (false,
    true, true, true, false, true, true, false)), (String ((Ascii (false,
    false, false, false, false, true, false, false)), (String ((Ascii (true,
    true, false, true, false, true, true, false)), (String ((Ascii (true,
    false, true, false, false, true, true, false)), (String ((Ascii (true,
    false, false, true, true, true, true, false)), (String ((Ascii (true,
    true, true, false, true, true, true, false)), (String ((Ascii (true,
    true, true, true, false, true, true, false)), (String ((Ascii (false,
    true, false, false, true, true, true, false)), (String ((Ascii (false,
    false, true, false, false, true, true, false)), (String ((Ascii (false,
    false, false, false, false, true, false, false)), (String ((Ascii (true,
    true, false, false, true, false, true, false)), (String ((Ascii (true,
    false, true, false, false, false, true, false)), (String ((Ascii (false,
    true, false, false, true, false, true, false)), (String ((Ascii (false,
    true, true, false, true, false, true, false)), (String ((Ascii (true,
    false, true, false, false, false, true, false)), (String ((Ascii (false,
    true, false, false, true, false, true, false)),
    EmptyString)))))))))))))))))))))))))))))))))), (String ((Ascii (false,
    true, false, false, true, false, true, false)),
    EmptyString)))) :: []))) :: [])) :: (((String ((Ascii (true, true, false,
    false, true, true, true, false)), (String ((Ascii (false, false, true,
    false, true, true, true, false)), (String ((Ascii (true, false, false,
    false, false, true, true, false)), (String ((Ascii (false, false, true,
    false, true, true, true, false)), (String ((Ascii (true, false, true,
    false, false, true, true, false)), (String ((Ascii (true, true, false,
    false, true, false, true, false)), (String ((Ascii (true, false, true,
    false, false, true, true, false)), (String ((Ascii (false, true, false,
    false, true, true, true, false)), EmptyString)))))))))))))))), ((SIf
    ((CByte (Npos (XO (XI (XI (XO (XI (XO XH)))))))), ((SSetStep
    st_stateServ) :: (SRetNil :: [])), ((SRetErr ((String ((Ascii (true,
    false, false, true, false, true, true, false)), (String ((Ascii (false,
    true, true, true, false, true, true, false)), (String ((Ascii (false,
    false, false, false, false, true, false, false)), (String ((Ascii (true,
    true, false, true, false, true, true, false)), (String ((Ascii (true,
    false, true, false, false, true, true, false)), (String ((Ascii (true,
    false, false, true, true, true, true, false)), (String ((Ascii (true,
    true, true, false, true, true, true, false)), (String ((Ascii (true,
    true, true, true, false, true, true, false)), (String ((Ascii (false,
    true, false, false, true, true, true, false)), (String ((Ascii (false,
    false, true, false, false, true, true, false)), (String ((Ascii (false,
    false, false, false, false, true, false, false)), (String ((Ascii (true,
    true, false, false, true, false, true, false)), (String ((Ascii (true,
    false, true, false, false, false, true, false)), (String ((Ascii (false,
    true, false, false, true, false, true, false)), (String ((Ascii (false,
    true, true, false, true, false, true, false)), (String ((Ascii (true,
    false, true, false, false, false, true, false)), (String ((Ascii (false,
    true, false, false, true, false, true, false)),
    EmptyString)))))))))))))))))))))))))))))))))), (String ((Ascii (false,
    true, true, false, true, false, true, false)),
    EmptyString)))) :: []))) :: [])) :: (((String ((Ascii (true, true, false,
    false, true, true, true, false)), (String ((Ascii (false, false, true,
    false, true, true, true, false)), (String ((Ascii (true, false, false,
    false, false, true, true, false)), (String ((Ascii (false, false, true,
    false, true, true, true, false)), (String ((Ascii (true, false, true,
    false, false, true, true, false)), (String ((Ascii (true, true, false,
    false, true, false, true, false)), (String ((Ascii (true, false, true,
    false, false, true, true, false)), (String ((Ascii (false, true, false,
    false, true, true, true, false)), (String ((Ascii (false, true, true,
    false, true, true, true, false)), EmptyString)))))))))))))))))), ((SIf
    ((CByte (Npos (XI (XO (XI (XO (XO (XO XH)))))))), ((SSetStep
    st_stateServe) :: (SRetNil :: [])), ((SRetErr ((String ((Ascii (true,
    false, false, true, false, true, true, false)), (String ((Ascii (false,
    true, true, true, false, true, true, false)), (String ((Ascii (false,
    false, false, false, false, true, false, false)), (String ((Ascii (true,
    true, false, true, false, true, true, false)), (String ((Ascii (true,
    false, true, false, false, true, true, false)), (String ((Ascii (true,
    false, false, true, true, true, true, false)), (String ((Ascii (true,
    true, true, false, true, true, true, false)), (String ((Ascii (true,
    true, true, true, false, true, true, false)), (String ((Ascii (false,
    true, false, false, true, true, true, false)), (String ((Ascii (false,
    false, true, false, false, true, true, false)), (String ((Ascii (false,
    false, false, false, false, true, false, false)), (String ((Ascii (true,
    true, false, false, true, false, true, false)), (String ((Ascii (true,
    false, true, false, false, false, true, false)), (String ((Ascii (false,
    true, false, false, true, false, true, false)), (String ((Ascii (false,
    true, true, false, true, false, true, false)), (String ((Ascii (true,
    false, true, false, false, false, true, false)), (String ((Ascii (false,
    true, false, false, true, false, true, false)),
    EmptyString)))))))))))))))))))))))))))))))))), (String ((Ascii (true,
    false, true, false, false, false, true, false)),
    EmptyString)))) :: []))) :: [])) :: (((String ((Ascii (true, true, false,
    false, true, true, true, false)), (String ((Ascii (false, false, true,
    false, true, true, true, false)), (String ((Ascii (true, false, false,
    false, false, true, true, false)), (String ((Ascii (false, false, true,
    false, true, true, true, false)), (String ((Ascii (true, false, true,
    false, false, true, true, false)), (String ((Ascii (true, true, false,
    false, true, false, true, false)), (String ((Ascii (true, false, true,
    false, false, true, true, false)), (String ((Ascii (false, true, false,
    false, true, true, true, false)), (String ((Ascii (false, true, true,
    false, true, true, true, false)), (String ((Ascii (true, false, true,
    false, false, true, true, false)), EmptyString)))))))))))))))))))), ((SIf
    ((CByte (Npos (XO (XI (XO (XO (XI (XO XH)))))))), ((SFound (KeywordEnd,
    Z0)) :: ((SPush st_stateExpectKeyword) :: ((SSetStep
    st_stateParameterOrAnnotation) :: (SRetNil :: [])))), ((SRetErr ((String
    ((Ascii (true, false, false, true, false, true, true, false)), (String
    ((Ascii (false, true, true, true, false, true, true, false)), (String
    ((Ascii (false, false, false, false, false, true, false, false)), (String
    ((Ascii (true, true, false, true, false, true, true, false)), (String
    ((Ascii (true, false, true, false, false, true, true, false)), (String
    ((Ascii (true, false, false, true, true, true, true, false)), (String
    ((Ascii (true, true, true, false, true, true, true, false)), (String
    ((Ascii (true, true, true, true, false, true, true, false)), (String
    ((Ascii (false, true, false, false, true, true, true, false)), (String
    ((Ascii (false, false, true, false, false, true, true, false)), (String
    ((Ascii (false, false, false, false, false, true, false, false)), (String
    ((Ascii (true, true, false, false, true, false, true, false)), (String
    ((Ascii (true, false, true, false, false, false, true, false)), (String
    ((Ascii (false, true, false, false, true, false, true, false)), (String
    ((Ascii (false, true, true, false, true, false, true, false)), (String
    ((Ascii (true, false, true, false, false, false, true, false)), (String
    ((Ascii (false, true, false, false, true, false, true, false)),
    EmptyString)))))))))))))))))))))))))))))))))), (String ((Ascii (false,
    true, false, false, true, false, true, false)),
    EmptyString)))) :: []))) :: [])) :: (((String ((Ascii (true, true, false,
    false, true, true, true, false)), (String ((Ascii (false, false, true,
    false, true, true, true, false)), (String ((Ascii (true, false, false,
    false, false, true, true, false)), (String ((Ascii (false, false, true,
    false, true, true, true, false)), (String ((Ascii (true, false, true,
    false, false, true, true, false)), (String ((Ascii (true, true, false,
    false, true, false, true, false)), (String ((Ascii (true, false, false,
    true, false, true, true, false)), (String ((Ascii (false, true, true,
    true, false, true, true, false)), (String ((Ascii (true, true, true,
    false, false, true, true, false)), (String ((Ascii (false, false, true,
    true, false, true, true, false)), (String ((Ascii (true, false, true,
    false, false, true, true, false)), (String ((Ascii (true, true, false,
    false, false, false, true, false)), (String ((Ascii (true, true, true,
    true, false, true, true, false)), (String ((Ascii (true, false, true,
    true, false, true, true, false)), (String ((Ascii (true, false, true,
    true, false, true, true, false)), (String ((Ascii (true, false, true,
    false, false, true, true, false)), (String ((Ascii (false, true, true,
    true, false, true, true, false)), (String ((Ascii (false, false, true,
    false, true, true, true, false)),
    EmptyString)))))))))))))))))))))))))))))))))))), ((SIf ((COr (CNewLine,
    (CByte N0))), (SPop :: (SRetRedispatch :: [])),
    (SRetNil :: []))) :: [])) :: (((String ((Ascii (true, true, false, false,
    true, true, true, false)), (String ((Ascii (false, false, true, false,
    true, true, true, false)), (String ((Ascii (true, false, false, false,
    false, true, true, false)), (String ((Ascii (false, false, true, false,
    true, true, true, false)), (String ((Ascii (true, false, true, false,
    false, true, true, false)), (String ((Ascii (false, false, true, false,
    true, false, true, false)), EmptyString)))))))))))), ((SIf ((CByte (Npos
    (XI (XO (XO (XI (XO (XI XH)))))))), ((SSetStep
    st_stateTi) :: (SRetNil :: [])), ((SIf ((CByte (Npos (XI (XO (XO (XI (XI
    (XO XH)))))))), ((SSetStep st_stateTy) :: (SRetNil :: [])), ((SIf ((CByte
    (Npos (XI (XO (XO (XO (XO (XO XH)))))))), ((SSetStep
    st_stateTA) :: (SRetNil :: [])), ((SIf ((CByte (Npos (XI (XO (XO (XO (XO
    (XI XH)))))))), ((SSetStep st_stateTa) :: (SRetNil :: [])), ((SRetErr
    ((String ((Ascii (true, false, false, true, false, true, true, false)),
    (String ((Ascii (false, true, true, true, false, true, true, false)),
    (String ((Ascii (false, false, false, false, false, true, false, false)),
    (String ((Ascii (false, false, true, false, false, true, true, false)),
    (String ((Ascii (true, false, false, true, false, true, true, false)),
    (String ((Ascii (false, true, false, false, true, true, true, false)),
    (String ((Ascii (true, false, true, false, false, true, true, false)),
    (String ((Ascii (true, true, false, false, false, true, true, false)),
    (String ((Ascii (false, false, true, false, true, true, true, false)),
    (String ((Ascii (true, false, false, true, false, true, true, false)),
    (String ((Ascii (false, true, true, false, true, true, true, false)),
    (String ((Ascii (true, false, true, false, false, true, true, false)),
    (String ((Ascii (false, false, false, false, false, true, false, false)),
    (String ((Ascii (false, true, true, true, false, true, true, false)),
    (String ((Ascii (true, false, false, false, false, true, true, false)),
    (String ((Ascii (true, false, true, true, false, true, true, false)),
    (String ((Ascii (true, false, true, false, false, true, true, false)),
    EmptyString)))))))))))))))))))))))))))))))))),
    EmptyString)) :: []))) :: []))) :: []))) :: []))) :: [])) :: (((String
    ((Ascii (true, true, false, false, true, true, true, false)), (String
    ((Ascii (false, false, true, false, true, true, true, false)), (String
    ((Ascii (true, false, false, false, false, true, true, false)), (String
    ((Ascii (false, false, true, false, true, true, true, false)), (String
    ((Ascii (true, false, true, false, false, true, true, false)), (String
    ((Ascii (false, false, true, false, true, false, true, false)), (String
    ((Ascii (true, false, false, false, false, false, true, false)),
    EmptyString)))))))))))))), ((SIf ((CNot (CByte (Npos (XI (XI (XI (XO (XO
    (XO XH))))))))), ((SRetErr ((String ((Ascii (true, false, false, true,
    false, true, true, false)), (String ((Ascii (false, true, true, true,
    false, true, true, false)), (String ((Ascii (false, false, false, false,
    false, true, false, false)), (String ((Ascii (true, true, false, true,
    false, true, true, false)), (String ((Ascii (true, false, true, false,
    false, true, true, false)), (String ((Ascii (true, false, false, true,
    true, true, true, false)), (String ((Ascii (true, true, true, false,
    true, true, true, false)), (String ((Ascii (true, true, true, true,
    false, true, true, false)), (String ((Ascii (false, true, false, false,
    true, true, true, false)), (String ((Ascii (false, false, true, false,
    false, true, true, false)), (String ((Ascii (false, false, false, false,
    false, true, false, false)), (String ((Ascii (false, false, true, false,
    true, false, true, false)), (String ((Ascii (true, false, false, false,
    false, false, true, false)), (String ((Ascii (true, true, true, false,
    false, false, true, false)), EmptyString)))))))))))))))))))))))))))),
    (String ((Ascii (true, true, true, false, false, false, true, false)),
    EmptyString)))) :: []), [])) :: ((SFound (KeywordEnd, Z0)) :: ((SPush
    st_stateExpectKeyword) :: ((SSetStep
    st_stateParameterOrAnnotation) :: (SRetNil :: [])))))) :: (((String
    ((Ascii (true, true, false, false, true, true, true, false)), (String
    ((Ascii (false, false, true, false, true, true, true, false)), (String
    ((Ascii (true, false, false, false, false, true, true, false)), (String
    ((Ascii (false, false, true, false, true, true, true, false)), (String
    ((Ascii (true, false, true, false, false, true, true, false)), (String
    ((Ascii (false, false, true, false, true, false, true, false)), (String
    ((Ascii (true, false, false, false, false, true, true, false)),
    EmptyString)))))))))))))), ((SIf ((CNot (CByte (Npos (XI (XI (XI (XO (XO
    (XI XH))))))))), ((SRetErr ((String ((Ascii (true, false, false, true,
    false, true, true, false)), (String ((Ascii (false, true, true, true,
    false, true, true, false)), (String ((Ascii (false, false, false, false,
    false, true, false, false)), (String ((Ascii (true, true, false, true,
    false, true, true, false)), (String ((Ascii (true, false, true, false,
    false, true, true, false)), (String ((Ascii (true, false, false, true,
    true, true, true, false)), (String ((Ascii (true, true, true, false,
    true, true, true, false)), (String ((Ascii (true, true, true, true,
    false, true, true, false)), (String ((Ascii (false, true, false, false,
    true, true, true, false)), (String ((Ascii (false, false, true, false,
    false, true, true, false)), (String ((Ascii (false, false, false, false,
    false, true, false, false)), (String ((Ascii (false, true, false, false,
    false, true, false, false)), (String ((Ascii (false, false, true, false,
    true, false, true, false)), (String ((Ascii (true, false, false, false,
    false, true, true, false)), (String ((Ascii (true, true, true, false,
    false, true, true, false)), (String ((Ascii (true, true, false, false,
    true, true, true, false)), (String ((Ascii (false, true, false, false,
    false, true, false, false)),
    EmptyString)))))))))))))))))))))))))))))))))), (String ((Ascii (true,
    true, true, false, false, true, true, false)), EmptyString)))) :: []),
    [])) :: ((SSetStep st_stateTag) :: (SRetNil :: [])))) :: (((String
    ((Ascii (true, true, false, false, true, true, true, false)), (String
    ((Ascii (false, false, true, false, true, true, true, false)), (String
    ((Ascii (true, false, false, false, false, true, true, false)), (String
    ((Ascii (false, false, true, false, true, true, true, false)), (String
    ((Ascii (true, false, true, false, false, true, true, false)), (String
    ((Ascii (false, false, true, false, true, false, true, false)), (String
    ((Ascii (true, false, false, false, false, true, true, false)), (String
    ((Ascii (true, true, true, false, false, true, true, false)),
    EmptyString)))))))))))))))), ((SIf ((CNot (CByte (Npos (XI (XI (XO (XO
    (XI (XI XH))))))))), ((SRetErr ((String ((Ascii (true, false, false,
    true, false, true, true, false)), (String ((Ascii (false, true, true,
    true, false, true, true, false)), (String ((Ascii (false, false, false,
    false, false, true, false, false)), (String ((Ascii (true, true, false,
    true, false, true, true, false)), (String ((Ascii (true, false, true,
    false, false, true, true, false)), (String ((Ascii (true, false, false,
    true, true, true, true, false)), (String ((Ascii (true, true, true,
    false, true, true, true, false)), (String ((Ascii (true, true, true,
    true, false, true, true, false)), (String ((Ascii (false, true, false,
    false, true, true, true, false)), (String ((Ascii (false, false, true,
    false, false, true, true, false)), (String ((Ascii (false, false, false,
    false, false, true, false, false)), (String ((Ascii (false, true, false,
    false, false, true, false, false)), (String ((Ascii (false, false, true,
    false, true, false, true, false)), (String ((Ascii (true, false, false,
    false, false, true, true, false)), (String ((Ascii (true, true, true,
    false, false, true, true, false)), (String ((Ascii (true, true, false,
    false, true, true, true, false)), (String ((Ascii (false, true, false,
    false, false, true, false, false)),
    EmptyString)))))))))))))))))))))))))))))))))), (String ((Ascii (true,
    true, false, false, true, true, true, false)), EmptyString)))) :: []),
    [])) :: ((SFound (KeywordEnd, Z0)) :: ((SPush
    st_stateExpectKeyword) :: ((SSetStep
    st_stateParameterOrAnnotation) :: (SRetNil :: [])))))) :: (((String
    ((Ascii (true, true, false, false, true, true, true, false)), (String
    ((Ascii (false, false, true, false, true, true, true, false)), (String
    ((Ascii (true, false, false, false, false, true, true, false)), (String
    ((Ascii (false, false, true, false, true, true, true, false)), (String
    ((Ascii (true, false, true, false, false, true, true, false)), (String
    ((Ascii (false, false, true, false, true, false, true, false)), (String
    ((Ascii (true, false, false, true, false, true, true, false)),
    EmptyString)))))))))))))), ((SIf ((CByte (Npos (XO (XO (XI (XO (XI (XI
    XH)))))))), ((SSetStep st_stateTit) :: (SRetNil :: [])), ((SRetErr
    ((String ((Ascii (true, false, false, true, false, true, true, false)),
    (String ((Ascii (false, true, true, true, false, true, true, false)),
    (String ((Ascii (false, false, false, false, false, true, false, false)),
    (String ((Ascii (true, true, false, true, false, true, true, false)),
    (String ((Ascii (true, false, true, false, false, true, true, false)),
    (String ((Ascii (true, false, false, true, true, true, true, false)),
    (String ((Ascii (true, true, true, false, true, true, true, false)),
    (String ((Ascii (true, true, true, true, false, true, true, false)),
    (String ((Ascii (false, true, false, false, true, true, true, false)),
    (String ((Ascii (false, false, true, false, false, true, true, false)),
    (String ((Ascii (false, false, false, false, false, true, false, false)),
    (String ((Ascii (false, false, true, false, true, false, true, false)),
    (String ((Ascii (true, false, false, true, false, true, true, false)),
    (String ((Ascii (false, false, true, false, true, true, true, false)),
    (String ((Ascii (false, false, true, true, false, true, true, false)),
    (String ((Ascii (true, false, true, false, false, true, true, false)),
    EmptyString)))))))))))))))))))))))))))))))), (String ((Ascii (false,
    false, true, false, true, true, true, false)),
    EmptyString)))) :: []))) :: [])) :: (((String ((Ascii (true, true, false,
    false, true, true, true, false)), (String ((Ascii (false, false, true,
    false, true, true, true, false)), (String ((Ascii (true, false, false,
    false, false, true, true, false)), (String ((Ascii (false, false, true,
    false, true, true, true, false)), (String ((Ascii (true, false, true,
    false, false, true, true, false)), (String ((Ascii (false, false, true,
    false, true, false, true, false)), (String ((Ascii (true, false, false,
    true, false, true, true, false)), (String ((Ascii (false, false, true,
    false, true, true, true, false)), EmptyString)))))))))))))))), ((SIf
    ((CByte (Npos (XO (XO (XI (XI (XO (XI XH)))))))), ((SSetStep
    st_stateTitl) :: (SRetNil :: [])), ((SRetErr ((String ((Ascii (true,
    false, false, true, false, true, true, false)), (String ((Ascii (false,
    true, true, true, false, true, true, false)), (String ((Ascii (false,
    false, false, false, false, true, false, false)), (String ((Ascii (true,
    true, false, true, false, true, true, false)), (String ((Ascii (true,
    false, true, false, false, true, true, false)), (String ((Ascii (true,
    false, false, true, true, true, true, false)), (String ((Ascii (true,
    true, true, false, true, true, true, false)), (String ((Ascii (true,
    true, true, true, false, true, true, false)), (String ((Ascii (false,
    true, false, false, true, true, true, false)), (String ((Ascii (false,
    false, true, false, false, true, true, false)), (String ((Ascii (false,
    false, false, false, false, true, false, false)), (String ((Ascii (false,
    false, true, false, true, false, true, false)), (String ((Ascii (true,
    false, false, true, false, true, true, false)), (String ((Ascii (false,
    false, true, false, true, true, true, false)), (String ((Ascii (false,
    false, true, true, false, true, true, false)), (String ((Ascii (true,
    false, true, false, false, true, true, false)),
    EmptyString)))))))))))))))))))))))))))))))), (String ((Ascii (false,
    false, true, true, false, true, true, false)),
    EmptyString)))) :: []))) :: [])) :: (((String ((Ascii (true, true, false,
    false, true, true, true, false)), (String ((Ascii (false, false, true,
    false, true, true, true, false)), (String ((Ascii (true, false, false,
    false, false, true, true, false)), (String ((Ascii (false, false, true,
    false, true, true, true, false)), (String ((Ascii (true, false, true,
    false, false, true, true, false)), (String ((Ascii (false, false, true,
    false, true, false, true, false)), (String ((Ascii (true, false, false,
    true, false, true, true, false)), (String ((Ascii (false, false, true,
    false, true, true, true, false)), (String ((Ascii (false, false, true,
    true, false, true, true, false)), EmptyString)))))))))))))))))), ((SIf
    ((CByte (Npos (XI (XO (XI (XO (XO (XI XH)))))))), ((SFound (KeywordEnd,
    Z0)) :: ((SPush st_stateExpectKeyword) :: ((SSetStep
    st_stateParameterOrAnnotation) :: (SRetNil :: [])))), ((SRetErr ((String
    ((Ascii (true, false, false, true, false, true, true, false)), (String
    ((Ascii (false, true, true, true, false, true, true, false)), (String
    ((Ascii (false, false, false, false, false, true, false, false)), (String
    ((Ascii (true, true, false, true, false, true, true, false)), (String
    ((Ascii (true, false, true, false, false, true, true, false)), (String
    ((Ascii (true, false, false, true, true, true, true, false)), (String
    ((Ascii (true, true, true, false, true, true, true, false)), (String
    ((Ascii (true, true, true, true, false, true, true, false)), (String
    ((Ascii (false, true, false, false, true, true, true, false)), (String
    ((Ascii (false, false, true, false, false, true, true, false)), (String
    ((Ascii (false, false, false, false, false, true, false, false)), (String
    ((Ascii (false, false, true, false, true, false, true, false)), (String
    ((Ascii (true, false, false, true, false, true, true, false)), (String
    ((Ascii (false, false, true, false, true, true, true, false)), (String
    ((Ascii (false, false, true, true, false, true, true, false)), (String
    ((Ascii (true, false, true, false, false, true, true, false)),
    EmptyString)))))))))))))))))))))))))))))))), (String ((Ascii (false,
    false, true, true, false, true, true, false)),
    EmptyString)))) :: []))) :: [])) :: (((String ((Ascii (true, true, false,
    false, true, true, true, false)), (String ((Ascii (false, false, true,
    false, true, true, true, false)), (String ((Ascii (true, false, false,
    false, false, true, true, false)), (String ((Ascii (false, false, true,
    false, true, true, true, false)), (String ((Ascii (true, false, true,
    false, false, true, true, false)), (String ((Ascii (false, false, true,
    false, true, false, true, false)), (String ((Ascii (true, false, false,
    true, true, true, true, false)), EmptyString)))))))))))))), ((SIf ((CByte
    (Npos (XO (XO (XO (XO (XI (XO XH)))))))), ((SSetStep
    st_stateTyp) :: (SRetNil :: [])), ((SRetErr ((String ((Ascii (true,
    false, false, true, false, true, true, false)), (String ((Ascii (false,
    true, true, true, false, true, true, false)), (String ((Ascii (false,
    false, false, false, false, true, false, false)), (String ((Ascii (true,
    true, false, true, false, true, true, false)), (String ((Ascii (true,
    false, true, false, false, true, true, false)), (String ((Ascii (true,
    false, false, true, true, true, true, false)), (String ((Ascii (true,
    true, true, false, true, true, true, false)), (String ((Ascii (true,
    true, true, true, false, true, true, false)), (String ((Ascii (false,
    true, false, false, true, true, true, false)), (String ((Ascii (false,
    false, true, false, false, true, true, false)), (String ((Ascii (false,
    false, false, false, false, true, false, false)), (String ((Ascii (false,
    false, true, false, true, false, true, false)), (String ((Ascii (true,
    false, false, true, true, false, true, false)), (String ((Ascii (false,
    false, false, false, true, false, true, false)), (String ((Ascii (true,
    false, true, false, false, false, true, false)),
    EmptyString)))))))))))))))))))))))))))))), (String ((Ascii (false, false,
    false, false, true, false, true, false)),
    EmptyString)))) :: []))) :: [])) :: (((String ((Ascii (true, true, false,
    false, true, true, true, false)), (String ((Ascii (false, false, true,
    false, true, true, true, false)), (String ((Ascii (true, false, false,
    false, false, true, true, false)), (String ((Ascii (false, false, true,
    false, true, true, true, false)), (String ((Ascii (true, false, true,
    false, false, true, true, false)), (String ((Ascii (false, false, true,
    false, true, false, true, false)), (String ((Ascii (true, false, false,
    true, true, true, true, false)), (String ((Ascii (false, false, false,
    false, true, true, true, false)), EmptyString)))))))))))))))), ((SIf
    ((CByte (Npos (XI (XO (XI (XO (XO (XO XH)))))))), ((SFound (KeywordEnd,
    Z0)) :: ((SPush st_stateTypeBodyOrKeyword) :: ((SSetStep
    st_stateParameterOrAnnotation) :: (SRetNil :: [])))), ((SRetErr ((String
    ((Ascii (true, false, false, true, false, true, true, false)), (String
    ((Ascii (false, true, true, true, false, true, true, false)), (String
    ((Ascii (false, false, false, false, false, true, false, false)), (String
    ((Ascii (true, true, false, true, false, true, true, false)), (String
    ((Ascii (true, false, true, false, false, true, true, false)), (String
    ((Ascii (true, false, false, true, true, true, true, false)), (String
    ((Ascii (true, true, true, false, true, true, true, false)), (String
    ((Ascii (true, true, true, true, false, true, true, false)), (String
    ((Ascii (false, true, false, false, true, true, true, false)), (String
    ((Ascii (false, false, true, false, false, true, true, false)), (String
    ((Ascii (false, false, false, false, false, true, false, false)), (String
    ((Ascii (false, false, true, false, true, false, true, false)), (String
    ((Ascii (true, false, false, true, true, false, true, false)), (String
    ((Ascii (false, false, false, false, true, false, true, false)), (String
    ((Ascii (true, false, true, false, false, false, true, false)),
    EmptyString)))))))))))))))))))))))))))))), (String ((Ascii (true, false,
    true, false, false, false, true, false)),
    EmptyString)))) :: []))) :: [])) :: (((String ((Ascii (true, true, false,
    false, true, true, true, false)), (String ((Ascii (false, false, true,
    false, true, true, true, false)), (String ((Ascii (true, false, false,
    false, false, true, true, false)), (String ((Ascii (false, false, true,
    false, true, true, true, false)), (String ((Ascii (true, false, true,
    false, false, true, true, false)), (String ((Ascii (false, false, true,
    false, true, false, true, false)), (String ((Ascii (true, false, false,
    true, true, true, true, false)), (String ((Ascii (false, false, false,
    false, true, true, true, false)), (String ((Ascii (true, false, true,
    false, false, true, true, false)), (String ((Ascii (false, true, false,
    false, false, false, true, false)), (String ((Ascii (true, true, true,
    true, false, true, true, false)), (String ((Ascii (false, false, true,
    false, false, true, true, false)), (String ((Ascii (true, false, false,
    true, true, true, true, false)), EmptyString)))))))))))))))))))))))))),
    ((SIf ((COr (CWhitespace, CNewLine)), (SRetNil :: []), ((SIf ((CByte
    (Npos (XO (XO (XO (XI (XO XH))))))), ((SFound (ContextOpen,
    Z0)) :: (SRetNil :: [])),
    (SPop :: (SRetRedispatch :: [])))) :: []))) :: [])) :: (((String ((Ascii
    (true, true, false, false, true, true, true, false)), (String ((Ascii
    (false, false, true, false, true, true, true, false)), (String ((Ascii
    (true, false, false, false, false, true, true, false)), (String ((Ascii
    (false, false, true, false, true, true, true, false)), (String ((Ascii
    (true, false, true, false, false, true, true, false)), (String ((Ascii
    (false, false, true, false, true, false, true, false)), (String ((Ascii
    (true, false, false, true, true, true, true, false)), (String ((Ascii
    (false, false, false, false, true, true, true, false)), (String ((Ascii
    (true, false, true, false, false, true, true, false)), (String ((Ascii
    (false, true, false, false, false, false, true, false)), (String ((Ascii
    (true, true, true, true, false, true, true, false)), (String ((Ascii
    (false, false, true, false, false, true, true, false)), (String ((Ascii
    (true, false, false, true, true, true, true, false)), (String ((Ascii
    (true, true, true, true, false, false, true, false)), (String ((Ascii
    (false, true, false, false, true, true, true, false)), (String ((Ascii
    (true, true, false, true, false, false, true, false)), (String ((Ascii
    (true, false, true, false, false, true, true, false)), (String ((Ascii
    (true, false, false, true, true, true, true, false)), (String ((Ascii
    (true, true, true, false, true, true, true, false)), (String ((Ascii
    (true, true, true, true, false, true, true, false)), (String ((Ascii
    (false, true, false, false, true, true, true, false)), (String ((Ascii
    (false, false, true, false, false, true, true, false)),
    EmptyString)))))))))))))))))))))))))))))))))))))))))))), ((SIf ((CCtx
    QAnyOrEmpty), ((SIf ((CCtx QRegex), ((SPush st_stateRegex) :: []),
    ((SPush st_stateJSchema) :: []))) :: ((SSetStep
    st_stateTypeBody) :: [])), ((SSetStep
    st_stateExpectKeyword) :: []))) :: (SRetRedispatch :: []))) :: (((String
    ((Ascii (true, true, false, false, true, true, true, false)), (String
    ((Ascii (false, false, true, false, true, true, true, false)), (String
    ((Ascii (true, false, false, false, false, true, true, false)), (String
    ((Ascii (false, false, true, false, true, true, true, false)), (String
    ((Ascii (true, false, true, false, false, true, true, false)), (String
    ((Ascii (true, false, true, false, true, false, true, false)),
    EmptyString)))))))))))), ((SIf ((CByte (Npos (XO (XI (XO (XO (XI (XO
    XH)))))))), ((SSetStep st_stateUR) :: (SRetNil :: [])), ((SRetErr
    ((String ((Ascii (true, false, false, true, false, true, true, false)),
    (String ((Ascii (false, true, true, true, false, true, true, false)),
    (String ((Ascii (false, false, false, false, false, true, false, false)),
    (String ((Ascii (true, true, false, true, false, true, true, false)),
    (String ((Ascii (true, false, true, false, false, true, true, false)),
    (String ((Ascii (true, false, false, true, true, true, true, false)),
    (String ((Ascii (true, true, true, false, true, true, true, false)),
    (String ((Ascii (true, true, true, true, false, true, true, false)),
    (String ((Ascii (false, true, false, false, true, true, true, false)),
    (String ((Ascii (false, false, true, false, false, true, true, false)),
    (String ((Ascii (false, false, false, false, false, true, false, false)),
    (String ((Ascii (true, false, true, false, true, false, true, false)),
    (String ((Ascii (false, true, false, false, true, false, true, false)),
    (String ((Ascii (false, false, true, true, false, false, true, false)),
    EmptyString)))))))))))))))))))))))))))), (String ((Ascii (false, true,
    false, false, true, false, true, false)),
    EmptyString)))) :: []))) :: [])) :: (((String ((Ascii (true, true, false,
    false, true, true, true, false)), (String ((Ascii (false, false, true,
    false, true, true, true, false)), (String ((Ascii (true, false, false,
    false, false, true, true, false)), (String ((Ascii (false, false, true,
    false, true, true, true, false)), (String ((Ascii (true, false, true,
    false, false, true, true, false)), (String ((Ascii (true, false, true,
    false, true, false, true, false)), (String ((Ascii (false, true, false,
    false, true, false, true, false)), EmptyString)))))))))))))), ((SIf
    ((CByte (Npos (XO (XO (XI (XI (XO (XO XH)))))))), ((SFound (KeywordEnd,
    Z0)) :: ((SPush st_stateExpectKeyword) :: ((SSetStep
    st_stateParameterOrAnnotation) :: (SRetNil :: [])))), ((SRetErr ((String
    ((Ascii (true, false, false, true, false, true, true, false)), (String
    ((Ascii (false, true, true, true, false, true, true, false)), (String
    ((Ascii (false, false, false, false, false, true, false, false)), (String
    ((Ascii (true, true, false, true, false, true, true, false)), (String
    ((Ascii (true, false, true, false, false, true, true, false)), (String
    ((Ascii (true, false, false, true, true, true, true, false)), (String
    ((Ascii (true, true, true, false, true, true, true, false)), (String
    ((Ascii (true, true, true, true, false, true, true, false)), (String
    ((Ascii (false, true, false, false, true, true, true, false)), (String
    ((Ascii (false, false, true, false, false, true, true, false)), (String
    ((Ascii (false, false, false, false, false, true, false, false)), (String
    ((Ascii (true, false, true, false, true, false, true, false)), (String
    ((Ascii (false, true, false, false, true, false, true, false)), (String
    ((Ascii (false, false, true, true, false, false, true, false)),
    EmptyString)))))))))))))))))))))))))))), (String ((Ascii (false, false,
    true, true, false, false, true, false)),
    EmptyString)))) :: []))) :: [])) :: (((String ((Ascii (true, true, false,
    false, true, true, true, false)), (String ((Ascii (false, false, true,
    false, true, true, true, false)), (String ((Ascii (true, false, false,
    false, false, true, true, false)), (String ((Ascii (false, false, true,
    false, true, true, true, false)), (String ((Ascii (true, false, true,
    false, false, true, true, false)), (String ((Ascii (false, true, true,
    false, true, false, true, false)), EmptyString)))))))))))), ((SIf ((CByte
    (Npos (XI (XO (XI (XO (XO (XI XH)))))))), ((SSetStep
    st_stateVe) :: (SRetNil :: [])), ((SRetErr ((String ((Ascii (true, false,
    false, true, false, true, true, false)), (String ((Ascii (false, true,
    true, true, false, true, true, false)), (String ((Ascii (false, false,
    false, false, false, true, false, false)), (String ((Ascii (false, false,
    true, false, false, true, true, false)), (String ((Ascii (true, false,
    false, true, false, true, true, false)), (String ((Ascii (false, true,
    false, false, true, true, true, false)), (String ((Ascii (true, false,
    true, false, false, true, true, false)), (String ((Ascii (true, true,
    false, false, false, true, true, false)), (String ((Ascii (false, false,
    true, false, true, true, true, false)), (String ((Ascii (true, false,
    false, true, false, true, true, false)), (String ((Ascii (false, true,
    true, false, true, true, true, false)), (String ((Ascii (true, false,
    true, false, false, true, true, false)), (String ((Ascii (false, false,
    false, false, false, true, false, false)), (String ((Ascii (false, true,
    true, false, true, false, true, false)), (String ((Ascii (true, false,
    true, false, false, true, true, false)), (String ((Ascii (false, true,
    false, false, true, true, true, false)), (String ((Ascii (true, true,
    false, false, true, true, true, false)), (String ((Ascii (true, false,
    false, true, false, true, true, false)), (String ((Ascii (true, true,
    true, true, false, true, true, false)), (String ((Ascii (false, true,
    true, true, false, true, true, false)),
    EmptyString)))))))))))))))))))))))))))))))))))))))), (String ((Ascii
    (true, false, true, false, false, true, true, false)),
    EmptyString)))) :: []))) :: [])) :: (((String ((Ascii (true, true, false,
    false, true, true, true, false)), (String ((Ascii (false, false, true,
    false, true, true, true, false)), (String ((Ascii (true, false, false,
    false, false, true, true, false)), (String ((Ascii (false, false, true,
    false, true, true, true, false)), (String ((Ascii (true, false, true,
    false, false, true, true, false)), (String ((Ascii (false, true, true,
    false, true, false, true, false)), (String ((Ascii (true, false, true,
    false, false, true, true, false)), EmptyString)))))))))))))), ((SIf
    ((CByte (Npos (XO (XI (XO (XO (XI (XI XH)))))))), ((SSetStep
    st_stateVer) :: (SRetNil :: [])), ((SRetErr ((String ((Ascii (true,
    false, false, true, false, true, true, false)), (String ((Ascii (false,
    true, true, true, false, true, true, false)), (String ((Ascii (false,
    false, false, false, false, true, false, false)), (String ((Ascii (true,
    true, false, true, false, true, true, false)), (String ((Ascii (true,
    false, true, false, false, true, true, false)), (String ((Ascii (true,
    false, false, true, true, true, true, false)), (String ((Ascii (true,
    true, true, false, true, true, true, false)), (String ((Ascii (true,
    true, true, true, false, true, true, false)), (String ((Ascii (false,
    true, false, false, true, true, true, false)), (String ((Ascii (false,
    false, true, false, false, true, true, false)), (String ((Ascii (false,
    false, false, false, false, true, false, false)), (String ((Ascii (false,
    true, true, false, true, false, true, false)), (String ((Ascii (true,
    false, true, false, false, true, true, false)), (String ((Ascii (false,
    true, false, false, true, true, true, false)), (String ((Ascii (true,
    true, false, false, true, true, true, false)), (String ((Ascii (true,
    false, false, true, false, true, true, false)), (String ((Ascii (true,
    true, true, true, false, true, true, false)), (String ((Ascii (false,
    true, true, true, false, true, true, false)),
    EmptyString)))))))))))))))))))))))))))))))))))), (String ((Ascii (false,
    true, false, false, true, true, true, false)),
    EmptyString)))) :: []))) :: [])) :: (((String ((Ascii (true, true, false,
    false, true, true, true, false)), (String ((Ascii (false, false, true,
    false, true, true, true, false)), (String ((Ascii (true, false, false,
    false, false, true, true, false)), (String ((Ascii (false, false, true,
    false, true, true, true, false)), (String ((Ascii (true, false, true,
    false, false, true, true, false)), (String ((Ascii (false, true, true,
    false, true, false, true, false)), (String ((Ascii (true, false, true,
    false, false, true, true, false)), (String ((Ascii (false, true, false,
    false, true, true, true, false)), EmptyString)))))))))))))))), ((SIf
    ((CByte (Npos (XI (XI (XO (XO (XI (XI XH)))))))), ((SSetStep
    st_stateVers) :: (SRetNil :: [])), ((SRetErr ((String ((Ascii (true,
    false, false, true, false, true, true, false)), (String ((Ascii (false,
    true, true, true, false, true, true, false)), (String ((Ascii (false,
    false, false, false, false, true, false, false)), (String ((Ascii (true,
    true, false, true, false, true, true, false)), (String ((Ascii (true,
    false, true, false, false, true, true, false)), (String ((Ascii (true,
    false, false, true, true, true, true, false)), (String ((Ascii (true,
    true, true, false, true, true, true, false)), (String ((Ascii (true,
    true, true, true, false, true, true, false)), (String ((Ascii (false,
    true, false, false, true, true, true, false)), (String ((Ascii (false,
    false, true, false, false, true, true, false)), (String ((Ascii (false,
    false, false, false, false, true, false, false)), (String ((Ascii (false,
    true, true, false, true, false, true, false)), (String ((Ascii (true,
    false, true, false, false, true, true, false)), (String ((Ascii (false,
    true, false, false, true, true, true, false)), (String ((Ascii (true,
    true, false, false, true, true, true, false)), (String ((Ascii (true,
    false, false, true, false, true, true, false)), (String ((Ascii (true,
    true, true, true, false, true, true, false)), (String ((Ascii (false,
    true, true, true, false, true, true, false)),
    EmptyString)))))))))))))))))))))))))))))))))))), (String ((Ascii (true,
    true, false, false, true, true, true, false)),
    EmptyString)))) :: []))) :: [])) :: (((String ((Ascii (true, true, false,
    false, true, true, true, false)), (String ((Ascii (false, false, true,
    false, true, true, true, false)), (String ((Ascii (true, false, false,
    false, false, true, true, false)), (String ((Ascii (false, false, true,
    false, true, true, true, false)), (String ((Ascii (true, false, true,
    false, false, true, true, false)), (String ((Ascii (false, true, true,
    false, true, false, true, false)), (String ((Ascii (true, false, true,
    false, false, true, true, false)), (String ((Ascii (false, true, false,
    false, true, true, true, false)), (String ((Ascii (true, true, false,
    false, true, true, true, false)), EmptyString)))))))))))))))))), ((SIf
    ((CByte (Npos (XI (XO (XO (XI (XO (XI XH)))))))), ((SSetStep
    st_stateVersi) :: (SRetNil :: [])), ((SRetErr ((String ((Ascii (true,
    false, false, true, false, true, true, false)), (String ((Ascii (false,
    true, true, true, false, true, true, false)), (String ((Ascii (false,
    false, false, false, false, true, false, false)), (String ((Ascii (true,
    true, false, true, false, true, true, false)), (String ((Ascii (true,
    false, true, false, false, true, true, false)), (String ((Ascii (true,
    false, false, true, true, true, true, false)), (String ((Ascii (true,
    true, true, false, true, true, true, false)), (String ((Ascii (true,
    true, true, true, false, true, true, false)), (String ((Ascii (false,
    true, false, false, true, true, true, false)), (String ((Ascii (false,
    false, true, false, false, true, true, false)), (String ((Ascii (false,
    false, false, false, false, true, false, false)), (String ((Ascii (false,
    true, true, false, true, false, true, false)), (String ((Ascii (true,
    false, true, false, false, true, true, false)), (String ((Ascii (false,
    true, false, false, true, true, true, false)), (String ((Ascii (true,
    true, false, false, true, true, true, false)), (String ((Ascii (true,
    false, false, true, false, true, true, false)), (String ((Ascii (true,
    true, true, true, false, true, true, false)), (String ((Ascii (false,
    true, true, true, false, true, true, false)),
    EmptyString)))))))))))))))))))))))))))))))))))), (String ((Ascii (true,
    false, false, true, false, true, true, false)),
    EmptyString)))) :: []))) :: [])) :: (((String ((Ascii (true, true, false,
    false, true, true, true, false)), (String ((Ascii (false, false, true,
    false, true, true, true, false)), (String ((Ascii (true, false, false,
    false, false, true, true, false)), (String ((Ascii (false, false, true,
    false, true, true, true, false)), (String ((Ascii (true, false, true,
    false, false, true, true, false)), (String ((Ascii (false, true, true,
    false, true, false, true, false)), (String ((Ascii (true, false, true,
    false, false, true, true, false)), (String ((Ascii (false, true, false,
    false, true, true, true, false)), (String ((Ascii (true, true, false,
    false, true, true, true, false)), (String ((Ascii (true, false, false,
    true, false, true, true, false)), EmptyString)))))))))))))))))))), ((SIf
    ((CByte (Npos (XI (XI (XI (XI (XO (XI XH)))))))), ((SSetStep
    st_stateVersio) :: (SRetNil :: [])), ((SRetErr ((String ((Ascii (true,
    false, false, true, false, true, true, false)), (String ((Ascii (false,
    true, true, true, false, true, true, false)), (String ((Ascii (false,
    false, false, false, false, true, false, false)), (String ((Ascii (true,
    true, false, true, false, true, true, false)), (String ((Ascii (true,
    false, true, false, false, true, true, false)), (String ((Ascii (true,
    false, false, true, true, true, true, false)), (String ((Ascii (true,
    true, true, false, true, true, true, false)), (String ((Ascii (true,
    true, true, true, false, true, true, false)), (String ((Ascii (false,
    true, false, false, true, true, true, false)), (String ((Ascii (false,
    false, true, false, false, true, true, false)), (String ((Ascii (false,
    false, false, false, false, true, false, false)), (String ((Ascii (false,
    true, true, false, true, false, true, false)), (String ((Ascii (true,
    false, true, false, false, true, true, false)), (String ((Ascii (false,
    true, false, false, true, true, true, false)), (String ((Ascii (true,
    true, false, false, true, true, true, false)), (String ((Ascii (true,
    false, false, true, false, true, true, false)), (String ((Ascii (true,
    true, true, true, false, true, true, false)), (String ((Ascii (false,
    true, true, true, false, true, true, false)),
    EmptyString)))))))))))))))))))))))))))))))))))), (String ((Ascii (true,
    true, true, true, false, true, true, false)),
    EmptyString)))) :: []))) :: [])) :: (((String ((Ascii (true, true, false,
    false, true, true, true, false)), (String ((Ascii (false, false, true,
    false, true, true, true, false)), (String ((Ascii (true, false, false,
    false, false, true, true, false)), (String ((Ascii (false, false, true,
    false, true, true, true, false)), (String ((Ascii (true, false, true,
    false, false, true, true, false)), (String ((Ascii (false, true, true,
    false, true, false, true, false)), (String ((Ascii (true, false, true,
    false, false, true, true, false)), (String ((Ascii (false, true, false,
    false, true, true, true, false)), (String ((Ascii (true, true, false,
    false, true, true, true, false)), (String ((Ascii (true, false, false,
    true, false, true, true, false)), (String ((Ascii (true, true, true,
    true, false, true, true, false)), EmptyString)))))))))))))))))))))),
    ((SIf ((CByte (Npos (XO (XI (XI (XI (XO (XI XH)))))))), ((SFound
    (KeywordEnd, Z0)) :: ((SPush st_stateExpectKeyword) :: ((SSetStep
    st_stateParameterOrAnnotation) :: (SRetNil :: [])))), ((SRetErr ((String
    ((Ascii (true, false, false, true, false, true, true, false)), (String
    ((Ascii (false, true, true, true, false, true, true, false)), (String
    ((Ascii (false, false, false, false, false, true, false, false)), (String
    ((Ascii (true, true, false, true, false, true, true, false)), (String
    ((Ascii (true, false, true, false, false, true, true, false)), (String
    ((Ascii (true, false, false, true, true, true, true, false)), (String
    ((Ascii (true, true, true, false, true, true, true, false)), (String
    ((Ascii (true, true, true, true, false, true, true, false)), (String
    ((Ascii (false, true, false, false, true, true, true, false)), (String
    ((Ascii (false, false, true, false, false, true, true, false)), (String
    ((Ascii (false, false, false, false, false, true, false, false)), (String
    ((Ascii (false, true, true, false, true, false, true, false)), (String
    ((Ascii (true, false, true, false, false, true, true, false)), (String
    ((Ascii (false, true, false, false, true, true, true, false)), (String
    ((Ascii (true, true, false, false, true, true, true, false)), (String
    ((Ascii (true, false, false, true, false, true, true, false)), (String
    ((Ascii (true, true, true, true, false, true, true, false)), (String
    ((Ascii (false, true, true, true, false, true, true, false)),
    EmptyString)))))))))))))))))))))))))))))))))))), (String ((Ascii (false,
    true, true, true, false, true, true, false)),
    EmptyString)))) :: []))) :: [])) :: [])))))))))))))))))))))))))))))))))))))))))))))))))))))))))))))))))))))))))))))))))))))))))))))))))))))))))))))))))))))))))))))))))))))))))))))))))))))))))))))))))))))))))

(** val is_newline_cond : cond **)

let is_newline_cond =
  COr ((CByte (Npos (XO (XI (XO XH))))), (CByte (Npos (XI (XO (XI XH))))))

(** val is_whitespace_cond : cond **)

let is_whitespace_cond =
  COr ((CByte (Npos (XO (XO (XO (XO (XO XH))))))), (CByte (Npos (XI (XO (XO
    XH))))))

(** val initial_state : state **)

let initial_state =
  st_stateRoot

(** val okind_eqb : okind -> okind -> bool **)

let okind_eqb a b =
  match a with
  | OJSchema -> (match b with
                 | OJSchema -> true
                 | OEnum -> false)
  | OEnum -> (match b with
              | OJSchema -> false
              | OEnum -> true)

(** val missing_oracle_id : n **)

let missing_oracle_id =
  Npos (XI (XI (XI (XI (XI (XI (XO (XO (XO (XI (XO (XO (XO (XO (XI (XO (XI
    (XI (XI XH)))))))))))))))))))

(** val olen_of_table :
    ((okind * z) * olen_res) list -> okind -> z -> olen_res **)

let rec olen_of_table tbl k pos =
  match tbl with
  | [] -> OLenErr (missing_oracle_id, Z0)
  | p :: rest ->
    let (p0, r) = p in
    let (k', p') = p0 in
    if (&&) (okind_eqb k k') (Z.eqb pos p')
    then r
    else olen_of_table rest k pos

(** val the_next :
    bytes -> ((okind * z) * olen_res) list -> conf -> (lexeme option * conf)
    res **)

let the_next data tbl =
  next prog_table is_newline_cond is_whitespace_cond data (olen_of_table tbl)

(** val lex_traj :
    bytes -> ((okind * z) * olen_res) list -> nat -> conf -> (lexeme
    list * scan_end) * conf list **)

let rec lex_traj data tbl fuel cf =
  match fuel with
  | O -> (([], EndFuel), [])
  | S fuel' ->
    (match the_next data tbl cf with
     | ROk a ->
       let (o, cf') = a in
       (match o with
        | Some l ->
          let (p, tr) = lex_traj data tbl fuel' cf' in
          let (ls, e) = p in (((l :: ls), e), (cf' :: tr))
        | None -> (([], EndOk), (cf' :: [])))
     | RErr e -> (([], (EndErr e)), [])
     | RPanic p -> (([], (EndPanic p)), [])
     | RFuel -> (([], EndFuel), []))

(** val scan_case :
    bytes -> ((okind * z) * olen_res) list -> (lexeme list * scan_end) * conf
    list **)

let scan_case data tbl =
  lex_traj data tbl
    (add (mul (S (S (S (S O)))) (length data)) (S (S (S (S (S (S (S (S (S (S
      (S (S (S (S (S (S (S (S (S (S (S (S (S (S (S (S (S (S (S (S (S (S (S (S
      (S (S (S (S (S (S (S (S (S (S (S (S (S (S (S (S (S (S (S (S (S (S (S (S
      (S (S (S (S (S (S
      O)))))))))))))))))))))))))))))))))))))))))))))))))))))))))))))))))
    (init_conf initial_state)

(** val state_name : state -> string **)

let state_name st =
  match nth_error prog_table (N.to_nat st) with
  | Some p -> let (n0, _) = p in n0
  | None ->
    String ((Ascii (true, true, true, true, true, true, false, false)),
      EmptyString)
