
val negb : bool -> bool

type nat =
| O
| S of nat

val option_map : ('a1 -> 'a2) -> 'a1 option -> 'a2 option

val fst : ('a1 * 'a2) -> 'a1

val snd : ('a1 * 'a2) -> 'a2

val length : 'a1 list -> nat

val app : 'a1 list -> 'a1 list -> 'a1 list

type comparison =
| Eq
| Lt
| Gt

val compOpp : comparison -> comparison

val add : nat -> nat -> nat

val mul : nat -> nat -> nat

module Nat :
 sig
  val leb : nat -> nat -> bool

  val ltb : nat -> nat -> bool
 end

val tl : 'a1 list -> 'a1 list

val nth_error : 'a1 list -> nat -> 'a1 option

val removelast : 'a1 list -> 'a1 list

val rev : 'a1 list -> 'a1 list

val map : ('a1 -> 'a2) -> 'a1 list -> 'a2 list

val fold_right : ('a2 -> 'a1 -> 'a1) -> 'a1 -> 'a2 list -> 'a1

val existsb : ('a1 -> bool) -> 'a1 list -> bool

val forallb : ('a1 -> bool) -> 'a1 list -> bool

val filter : ('a1 -> bool) -> 'a1 list -> 'a1 list

val combine : 'a1 list -> 'a2 list -> ('a1 * 'a2) list

val firstn : nat -> 'a1 list -> 'a1 list

val skipn : nat -> 'a1 list -> 'a1 list

val seq : nat -> nat -> nat list

type positive =
| XI of positive
| XO of positive
| XH

type n =
| N0
| Npos of positive

type z =
| Z0
| Zpos of positive
| Zneg of positive

module Pos :
 sig
  val succ : positive -> positive

  val add : positive -> positive -> positive

  val add_carry : positive -> positive -> positive

  val pred_double : positive -> positive

  val mul : positive -> positive -> positive

  val compare_cont : comparison -> positive -> positive -> comparison

  val compare : positive -> positive -> comparison

  val eqb : positive -> positive -> bool

  val iter_op : ('a1 -> 'a1 -> 'a1) -> positive -> 'a1 -> 'a1

  val to_nat : positive -> nat

  val of_succ_nat : nat -> positive
 end

module N :
 sig
  val add : n -> n -> n

  val mul : n -> n -> n

  val compare : n -> n -> comparison

  val eqb : n -> n -> bool

  val leb : n -> n -> bool

  val ltb : n -> n -> bool

  val to_nat : n -> nat

  val of_nat : nat -> n
 end

type ascii =
| Ascii of bool * bool * bool * bool * bool * bool * bool * bool

val n_of_digits : bool list -> n

val n_of_ascii : ascii -> n

module Z :
 sig
  val double : z -> z

  val succ_double : z -> z

  val pred_double : z -> z

  val pos_sub : positive -> positive -> z

  val add : z -> z -> z

  val opp : z -> z

  val sub : z -> z -> z

  val compare : z -> z -> comparison

  val ltb : z -> z -> bool

  val eqb : z -> z -> bool

  val to_nat : z -> nat

  val of_nat : nat -> z
 end

type string =
| EmptyString
| String of ascii * string

val list_ascii_of_string : string -> ascii list

type byte = n

type bytes = n list

type event =
| KeywordBegin
| KeywordEnd
| ParameterBegin
| ParameterEnd
| AnnotationBegin
| AnnotationEnd
| SchemaBegin
| SchemaEnd
| TextBegin
| TextEnd
| ContextOpen
| ContextClose
| EnumBegin
| EnumEnd

type lexkind =
| LKeyword
| LParameter
| LAnnotation
| LSchema
| LJson
| LText
| LContextOpen
| LContextClose
| LEnum

type state = n

type ctxq =
| QTypeOrAnyOrEmpty
| QAnyOrEmpty
| QRegex
| QIsDirective

type cond =
| CByte of n
| CNewLine
| CWhitespace
| CPrevByte of z * n
| CCtx of ctxq
| CNot of cond
| CAnd of cond * cond
| COr of cond * cond
| CTrue

type okind =
| OJSchema
| OEnum

type stmt =
| SSetStep of state
| SPush of state
| SPushCur
| SPop
| SFound of event * z
| SAddCur of z
| SIf of cond * stmt * stmt
| SSeq of stmt * stmt
| SSkip
| SOracle of okind
| SRetNil
| SRetErr of string * string
| SRetErrBasic of string
| SRetCall of state
| SRetRedispatch

val block : stmt list -> stmt

val n_eqb_list : n list -> n list -> bool

val bytes_of_string : string -> bytes

val beq : bytes -> bytes -> bool

val is_prefix : bytes -> bytes -> bool

val is_digit : n -> bool

val is_utn_byte : n -> bool

val is_user_type_name : bytes -> bool

val in_quotes : bytes -> bool

val unquote_body : bytes -> bytes option

val unquote : bytes -> bytes

val trim_square_brackets : bytes -> bytes

val to_end_of_line : bytes -> bytes

val sub0 : bytes -> z -> z -> bytes

val byte_at : bytes -> z -> n option

val ev_IsBeginning : event -> bool

val ev_IsEnding : event -> bool

val ev_IsSingle : event -> bool

val ev_ToLexemeType : event -> lexkind option

val dir_HTTPResponseCode : n

val dir_keywords : string list

type lexeme = { lk : lexkind; lb : z; le : z }

type conf = { c_step : state; c_sstack : state list;
              c_finds : (event * z) list; c_estack : (event * z) list;
              c_params : lexeme list; c_cur : z }

type serr =
| EUnexpected of string * string * z * bool
| EBasic of string * z
| EOracle of n * z

type panic =
| PStepStackEmpty
| PEventStackEmpty
| PFindsEmpty
| PIndexRange
| PFallthrough
| PNoState
| PLexemeType
| PValueSlice

type 'a res =
| ROk of 'a
| RErr of serr
| RPanic of panic
| RFuel

type olen_res =
| OLen of z
| OLenErr of n * z

type retk =
| KNil
| KCall of state
| KRedispatch

type flow =
| FFall of conf
| FRet of retk * conf
| FErr of serr
| FPanic of panic

val set_step : conf -> state -> conf

val set_sstack : conf -> state list -> conf

val set_finds : conf -> (event * z) list -> conf

val set_estack : conf -> (event * z) list -> conf

val set_params : conf -> lexeme list -> conf

val set_cur : conf -> z -> conf

val init_conf : state -> conf

val lexeme_value : bytes -> lexeme -> bytes option

val kw_any : bytes

val kw_empty : bytes

val kw_regex : bytes

val is_response_code3 : bytes -> bool

val keyword_bytes : bytes list

val real_keywords : bytes list

val is_start_with_directive : bytes -> bool

val data_size : bytes -> z

val param_values : bytes -> lexeme list -> bytes list option

val eval_ctx : bytes -> conf -> ctxq -> bool option

val eval_cond_simple : byte -> cond -> bool option

val eval_cond : cond -> cond -> bytes -> conf -> byte -> cond -> bool option

val mk_unexpected : bytes -> conf -> string -> string -> serr

val exec :
  cond -> cond -> bytes -> (okind -> z -> olen_res) -> byte -> stmt -> conf
  -> flow

val body_of : (string * stmt) list -> state -> stmt option

val run_step :
  (string * stmt) list -> cond -> cond -> bytes -> (okind -> z -> olen_res)
  -> nat -> state -> byte -> conf -> conf res

val pair_ok : event -> event -> bool

val process_event : conf -> (event * z) -> (lexeme option * conf) res

val note_lexeme : conf -> lexeme -> conf

val drain : nat -> conf -> (lexeme option * conf) res

val step_fuel : nat

val next_loop :
  (string * stmt) list -> cond -> cond -> bytes -> (okind -> z -> olen_res)
  -> nat -> conf -> (lexeme option * conf) res

val loop_fuel : bytes -> nat

val next :
  (string * stmt) list -> cond -> cond -> bytes -> (okind -> z -> olen_res)
  -> conf -> (lexeme option * conf) res

type scan_end =
| EndOk
| EndErr of serr
| EndPanic of panic
| EndFuel

val st_stateAnnotation : state

val st_stateAnnotationSign2 : state

val st_stateAnnotationTextStart : state

val st_stateB : state

val st_stateBa : state

val st_stateBas : state

val st_stateBase : state

val st_stateBaseU : state

val st_stateBaseUr : state

val st_stateBo : state

val st_stateBod : state

val st_stateBodyBody : state

val st_stateBodyBodyOrKeyword : state

val st_stateBodyEnded : state

val st_stateCommentBlock : state

val st_stateCommentDouble : state

val st_stateCommentOnceClosed : state

val st_stateCommentStarted : state

val st_stateCommentTwiceClosed : state

val st_stateContextClosed : state

val st_stateContextOpenedOnNewline : state

val st_stateD : state

val st_stateDE : state

val st_stateDEL : state

val st_stateDELE : state

val st_stateDELET : state

val st_stateDe : state

val st_stateDes : state

val st_stateDesc : state

val st_stateDescr : state

val st_stateDescri : state

val st_stateDescrip : state

val st_stateDescript : state

val st_stateDescripti : state

val st_stateDescriptio : state

val st_stateDescriptionText : state

val st_stateDescriptionTextBegin : state

val st_stateDescriptionTextBeginStarter : state

val st_stateDescriptionTextBracketsInner : state

val st_stateDescriptionTextBracketsInnerNewLine : state

val st_stateDescriptionTextNewline : state

val st_stateE : state

val st_stateEN : state

val st_stateENU : state

val st_stateEnumBody : state

val st_stateEnumBodyClose : state

val st_stateEnumBodyEnded : state

val st_stateExpectKeyword : state

val st_stateG : state

val st_stateGE : state

val st_stateH : state

val st_stateHe : state

val st_stateHea : state

val st_stateHead : state

val st_stateHeade : state

val st_stateHeader : state

val st_stateHeaderBody : state

val st_stateI : state

val st_stateIN : state

val st_stateINC : state

val st_stateINCL : state

val st_stateINCLU : state

val st_stateINCLUD : state

val st_stateINF : state

val st_stateJ : state

val st_stateJS : state

val st_stateJSI : state

val st_stateJSIG : state

val st_stateJSIGH : state

val st_stateJSchema : state

val st_stateM : state

val st_stateMA : state

val st_stateMAC : state

val st_stateMACR : state

val st_stateMe : state

val st_stateMet : state

val st_stateMeth : state

val st_stateMetho : state

val st_stateMultilineAnnotation : state

val st_stateMultilineAnnotationTextStart : state

val st_stateO : state

val st_stateOp : state

val st_stateOpe : state

val st_stateOper : state

val st_stateOpera : state

val st_stateOperat : state

val st_stateOperati : state

val st_stateOperatio : state

val st_stateOperation : state

val st_stateOperationI : state

val st_stateP : state

val st_statePA : state

val st_statePAS : state

val st_statePAST : state

val st_statePAT : state

val st_statePATC : state

val st_statePO : state

val st_statePOS : state

val st_statePU : state

val st_statePa : state

val st_statePar : state

val st_statePara : state

val st_stateParam : state

val st_stateParameterInQuoted : state

val st_stateParameterInQuotedSlash : state

val st_stateParameterOrAnnotation : state

val st_stateParameterOrAnnotationAfterFirstSpace : state

val st_stateParameterStart : state

val st_stateParameterWoQuoted : state

val st_stateParamsBody : state

val st_statePat : state

val st_statePathBody : state

val st_statePr : state

val st_statePro : state

val st_stateProt : state

val st_stateProto : state

val st_stateProtoc : state

val st_stateProtoco : state

val st_stateQ : state

val st_stateQu : state

val st_stateQue : state

val st_stateQuer : state

val st_stateQueryBodyOrKeyword : state

val st_stateR : state

val st_stateRe : state

val st_stateRegex : state

val st_stateRegexBody : state

val st_stateRegexBodyAfterSlash : state

val st_stateRegexFirstChar : state

val st_stateReq : state

val st_stateRequ : state

val st_stateReque : state

val st_stateReques : state

val st_stateRequestBody : state

val st_stateRequestBodyOrKeyword : state

val st_stateRes : state

val st_stateResponseBody : state

val st_stateResponseBodyOrKeyword : state

val st_stateResponseKeywordSecond : state

val st_stateResponseKeywordStarted : state

val st_stateResu : state

val st_stateResul : state

val st_stateResultBody : state

val st_stateRoot : state

val st_stateS : state

val st_stateSchemaClosed : state

val st_stateSe : state

val st_stateSer : state

val st_stateServ : state

val st_stateServe : state

val st_stateSingleComment : state

val st_stateT : state

val st_stateTA : state

val st_stateTa : state

val st_stateTag : state

val st_stateTi : state

val st_stateTit : state

val st_stateTitl : state

val st_stateTy : state

val st_stateTyp : state

val st_stateTypeBody : state

val st_stateTypeBodyOrKeyword : state

val st_stateU : state

val st_stateUR : state

val st_stateV : state

val st_stateVe : state

val st_stateVer : state

val st_stateVers : state

val st_stateVersi : state

val st_stateVersio : state

val prog_table : (string * stmt) list

val is_newline_cond : cond

val is_whitespace_cond : cond

val initial_state : state

val okind_eqb : okind -> okind -> bool

val missing_oracle_id : n

val olen_of_table : ((okind * z) * olen_res) list -> okind -> z -> olen_res

val the_next :
  bytes -> ((okind * z) * olen_res) list -> conf -> (lexeme option * conf) res

val lex_traj :
  bytes -> ((okind * z) * olen_res) list -> nat -> conf -> (lexeme
  list * scan_end) * conf list

val scan_case :
  bytes -> ((okind * z) * olen_res) list -> (lexeme list * scan_end) * conf
  list

val state_name : state -> string
