
val negb : bool -> bool

type nat =
| O
| S of nat

val option_map : ('a1 -> 'a2) -> 'a1 option -> 'a2 option

type ('a, 'b) sum =
| Inl of 'a
| Inr of 'b

val fst : ('a1 * 'a2) -> 'a1

val snd : ('a1 * 'a2) -> 'a2

val length : 'a1 list -> nat

val app : 'a1 list -> 'a1 list -> 'a1 list

type comparison =
| Eq
| Lt
| Gt

val compOpp : comparison -> comparison

val add : nat -> nat -> nat

val mul : nat -> nat -> nat

val sub : nat -> nat -> nat

val eqb : bool -> bool -> bool

module Nat :
 sig
  val eqb : nat -> nat -> bool

  val leb : nat -> nat -> bool

  val ltb : nat -> nat -> bool

  val min : nat -> nat -> nat
 end

val tl : 'a1 list -> 'a1 list

val nth_error : 'a1 list -> nat -> 'a1 option

val last : 'a1 list -> 'a1 -> 'a1

val removelast : 'a1 list -> 'a1 list

val rev : 'a1 list -> 'a1 list

val map : ('a1 -> 'a2) -> 'a1 list -> 'a2 list

val flat_map : ('a1 -> 'a2 list) -> 'a1 list -> 'a2 list

val fold_left : ('a1 -> 'a2 -> 'a1) -> 'a2 list -> 'a1 -> 'a1

val fold_right : ('a2 -> 'a1 -> 'a1) -> 'a1 -> 'a2 list -> 'a1

val existsb : ('a1 -> bool) -> 'a1 list -> bool

val forallb : ('a1 -> bool) -> 'a1 list -> bool

val filter : ('a1 -> bool) -> 'a1 list -> 'a1 list

val find : ('a1 -> bool) -> 'a1 list -> 'a1 option

val combine : 'a1 list -> 'a2 list -> ('a1 * 'a2) list

val firstn : nat -> 'a1 list -> 'a1 list

val skipn : nat -> 'a1 list -> 'a1 list

val seq : nat -> nat -> nat list

type positive =
| XI of positive
| XO of positive
| XH

type n =
| N0
| Npos of positive

type z =
| Z0
| Zpos of positive
| Zneg of positive

module Pos :
 sig
  type mask =
  | IsNul
  | IsPos of positive
  | IsNeg
 end

module Coq_Pos :
 sig
  val succ : positive -> positive

  val add : positive -> positive -> positive

  val add_carry : positive -> positive -> positive

  val pred_double : positive -> positive

  type mask = Pos.mask =
  | IsNul
  | IsPos of positive
  | IsNeg

  val succ_double_mask : mask -> mask

  val double_mask : mask -> mask

  val double_pred_mask : positive -> mask

  val sub_mask : positive -> positive -> mask

  val sub_mask_carry : positive -> positive -> mask

  val mul : positive -> positive -> positive

  val compare_cont : comparison -> positive -> positive -> comparison

  val compare : positive -> positive -> comparison

  val eqb : positive -> positive -> bool

  val iter_op : ('a1 -> 'a1 -> 'a1) -> positive -> 'a1 -> 'a1

  val to_nat : positive -> nat

  val of_succ_nat : nat -> positive
 end

module N :
 sig
  val succ_double : n -> n

  val double : n -> n

  val add : n -> n -> n

  val sub : n -> n -> n

  val mul : n -> n -> n

  val compare : n -> n -> comparison

  val eqb : n -> n -> bool

  val leb : n -> n -> bool

  val ltb : n -> n -> bool

  val pos_div_eucl : positive -> n -> n * n

  val div_eucl : n -> n -> n * n

  val div : n -> n -> n

  val modulo : n -> n -> n

  val to_nat : n -> nat

  val of_nat : nat -> n
 end

type ascii =
| Ascii of bool * bool * bool * bool * bool * bool * bool * bool

val n_of_digits : bool list -> n

val n_of_ascii : ascii -> n

module Z :
 sig
  val double : z -> z

  val succ_double : z -> z

  val pred_double : z -> z

  val pos_sub : positive -> positive -> z

  val add : z -> z -> z

  val opp : z -> z

  val sub : z -> z -> z

  val compare : z -> z -> comparison

  val leb : z -> z -> bool

  val ltb : z -> z -> bool

  val eqb : z -> z -> bool

  val to_nat : z -> nat

  val of_nat : nat -> z
 end

type string =
| EmptyString
| String of ascii * string

val list_ascii_of_string : string -> ascii list

type byte = n

type bytes = n list

type event =
| KeywordBegin
| KeywordEnd
| ParameterBegin
| ParameterEnd
| AnnotationBegin
| AnnotationEnd
| SchemaBegin
| SchemaEnd
| TextBegin
| TextEnd
| ContextOpen
| ContextClose
| EnumBegin
| EnumEnd

type lexkind =
| LKeyword
| LParameter
| LAnnotation
| LSchema
| LJson
| LText
| LContextOpen
| LContextClose
| LEnum

type state = n

type ctxq =
| QTypeOrAnyOrEmpty
| QAnyOrEmpty
| QRegex
| QIsDirective

type cond =
| CByte of n
| CNewLine
| CWhitespace
| CPrevByte of z * n
| CCtx of ctxq
| CNot of cond
| CAnd of cond * cond
| COr of cond * cond
| CTrue

type okind =
| OJSchema
| OEnum

type stmt =
| SSetStep of state
| SPush of state
| SPushCur
| SPop
| SFound of event * z
| SAddCur of z
| SIf of cond * stmt * stmt
| SSeq of stmt * stmt
| SSkip
| SOracle of okind
| SRetNil
| SRetErr of string * string
| SRetErrBasic of string
| SRetCall of state
| SRetRedispatch

val block : stmt list -> stmt

val n_eqb_list : n list -> n list -> bool

val bytes_of_string : string -> bytes

val beq : bytes -> bytes -> bool

val is_prefix : bytes -> bytes -> bool

val contains : bytes -> bytes -> bool

val is_suffix : bytes -> bytes -> bool

val is_digit : n -> bool

val is_utn_byte : n -> bool

val is_user_type_name : bytes -> bool

val in_quotes : bytes -> bool

val escape_image : n -> n option

val unquote_body : bytes -> bytes option

val unquote : bytes -> bytes

val trim_square_brackets : bytes -> bytes

val to_end_of_line : bytes -> bytes

val sub0 : bytes -> z -> z -> bytes

val byte_at : bytes -> z -> n option

val ev_IsBeginning : event -> bool

val ev_IsEnding : event -> bool

val ev_IsSingle : event -> bool

val ev_ToLexemeType : event -> lexkind option

val dir_Jsight : n

val dir_Info : n

val dir_Title : n

val dir_Version : n

val dir_Description : n

val dir_Server : n

val dir_BaseURL : n

val dir_URL : n

val dir_Get : n

val dir_Post : n

val dir_Put : n

val dir_Patch : n

val dir_Delete : n

val dir_Body : n

val dir_Request : n

val dir_HTTPResponseCode : n

val dir_Path : n

val dir_Headers : n

val dir_Query : n

val dir_Type : n

val dir_Enum : n

val dir_Macro : n

val dir_Paste : n

val dir_Protocol : n

val dir_Method : n

val dir_Params : n

val dir_Result : n

val dir_TAG : n

val dir_Tags : n

val dir_OperationID : n

val dir_keywords : string list

val dir_root_allowed : n list

val dir_http_methods : n list

val dir_context_table : (n * n list) list

type lexeme = { lk : lexkind; lb : z; le : z }

type conf = { c_step : state; c_sstack : state list;
              c_finds : (event * z) list; c_estack : (event * z) list;
              c_params : lexeme list; c_cur : z }

type serr =
| EUnexpected of string * string * z * bool
| EBasic of string * z
| EOracle of n * z

type panic =
| PStepStackEmpty
| PEventStackEmpty
| PFindsEmpty
| PIndexRange
| PFallthrough
| PNoState
| PLexemeType
| PValueSlice

type 'a res =
| ROk of 'a
| RErr of serr
| RPanic of panic
| RFuel

type olen_res =
| OLen of z
| OLenErr of n * z

type retk =
| KNil
| KCall of state
| KRedispatch

type flow =
| FFall of conf
| FRet of retk * conf
| FErr of serr
| FPanic of panic

val set_step : conf -> state -> conf

val set_sstack : conf -> state list -> conf

val set_finds : conf -> (event * z) list -> conf

val set_estack : conf -> (event * z) list -> conf

val set_params : conf -> lexeme list -> conf

val set_cur : conf -> z -> conf

val init_conf : state -> conf

val lexeme_value : bytes -> lexeme -> bytes option

val kw_any : bytes

val kw_empty : bytes

val kw_regex : bytes

val is_response_code3 : bytes -> bool

val keyword_bytes : bytes list

val real_keywords : bytes list

val is_start_with_directive : bytes -> bool

val data_size : bytes -> z

val param_values : bytes -> lexeme list -> bytes list option

val eval_ctx : bytes -> conf -> ctxq -> bool option

val eval_cond_simple : byte -> cond -> bool option

val eval_cond : cond -> cond -> bytes -> conf -> byte -> cond -> bool option

val mk_unexpected : bytes -> conf -> string -> string -> serr

val exec :
  cond -> cond -> bytes -> (okind -> z -> olen_res) -> byte -> stmt -> conf
  -> flow

val body_of : (string * stmt) list -> state -> stmt option

val run_step :
  (string * stmt) list -> cond -> cond -> bytes -> (okind -> z -> olen_res)
  -> nat -> state -> byte -> conf -> conf res

val pair_ok : event -> event -> bool

val process_event : conf -> (event * z) -> (lexeme option * conf) res

val note_lexeme : conf -> lexeme -> conf

val drain : nat -> conf -> (lexeme option * conf) res

val step_fuel : nat

val next_loop :
  (string * stmt) list -> cond -> cond -> bytes -> (okind -> z -> olen_res)
  -> nat -> conf -> (lexeme option * conf) res

val loop_fuel : bytes -> nat

val next :
  (string * stmt) list -> cond -> cond -> bytes -> (okind -> z -> olen_res)
  -> conf -> (lexeme option * conf) res

type scan_end =
| EndOk
| EndErr of serr
| EndPanic of panic
| EndFuel

val st_stateAnnotation : state

val st_stateAnnotationSign2 : state

val st_stateAnnotationTextStart : state

val st_stateB : state

val st_stateBa : state

val st_stateBas : state

val st_stateBase : state

val st_stateBaseU : state

val st_stateBaseUr : state

val st_stateBo : state

val st_stateBod : state

val st_stateBodyBody : state

val st_stateBodyBodyOrKeyword : state

val st_stateBodyEnded : state

val st_stateCommentBlock : state

val st_stateCommentDouble : state

val st_stateCommentOnceClosed : state

val st_stateCommentStarted : state

val st_stateCommentTwiceClosed : state

val st_stateContextClosed : state

val st_stateContextOpenedOnNewline : state

val st_stateD : state

val st_stateDE : state

val st_stateDEL : state

val st_stateDELE : state

val st_stateDELET : state

val st_stateDe : state

val st_stateDes : state

val st_stateDesc : state

val st_stateDescr : state

val st_stateDescri : state

val st_stateDescrip : state

val st_stateDescript : state

val st_stateDescripti : state

val st_stateDescriptio : state

val st_stateDescriptionText : state

val st_stateDescriptionTextBegin : state

val st_stateDescriptionTextBeginStarter : state

val st_stateDescriptionTextBracketsInner : state

val st_stateDescriptionTextBracketsInnerNewLine : state

val st_stateDescriptionTextNewline : state

val st_stateE : state

val st_stateEN : state

val st_stateENU : state

val st_stateEnumBody : state

val st_stateEnumBodyClose : state

val st_stateEnumBodyEnded : state

val st_stateExpectKeyword : state

val st_stateG : state

val st_stateGE : state

val st_stateH : state

val st_stateHe : state

val st_stateHea : state

val st_stateHead : state

val st_stateHeade : state

val st_stateHeader : state

val st_stateHeaderBody : state

val st_stateI : state

val st_stateIN : state

val st_stateINC : state

val st_stateINCL : state

val st_stateINCLU : state

val st_stateINCLUD : state

val st_stateINF : state

val st_stateJ : state

val st_stateJS : state

val st_stateJSI : state

val st_stateJSIG : state

val st_stateJSIGH : state

val st_stateJSchema : state

val st_stateM : state

val st_stateMA : state

val st_stateMAC : state

val st_stateMACR : state

val st_stateMe : state

val st_stateMet : state

val st_stateMeth : state

val st_stateMetho : state

val st_stateMultilineAnnotation : state

val st_stateMultilineAnnotationTextStart : state

val st_stateO : state

val st_stateOp : state

val st_stateOpe : state

val st_stateOper : state

val st_stateOpera : state

val st_stateOperat : state

val st_stateOperati : state

val st_stateOperatio : state

val st_stateOperation : state

val st_stateOperationI : state

val st_stateP : state

val st_statePA : state

val st_statePAS : state

val st_statePAST : state

val st_statePAT : state

val st_statePATC : state

val st_statePO : state

val st_statePOS : state

val st_statePU : state

val st_statePa : state

val st_statePar : state

val st_statePara : state

val st_stateParam : state

val st_stateParameterInQuoted : state

val st_stateParameterInQuotedSlash : state

val st_stateParameterOrAnnotation : state

val st_stateParameterOrAnnotationAfterFirstSpace : state

val st_stateParameterStart : state

val st_stateParameterWoQuoted : state

val st_stateParamsBody : state

val st_statePat : state

val st_statePathBody : state

val st_statePr : state

val st_statePro : state

val st_stateProt : state

val st_stateProto : state

val st_stateProtoc : state

val st_stateProtoco : state

val st_stateQ : state

val st_stateQu : state

val st_stateQue : state

val st_stateQuer : state

val st_stateQueryBodyOrKeyword : state

val st_stateR : state

val st_stateRe : state

val st_stateRegex : state

val st_stateRegexBody : state

val st_stateRegexBodyAfterSlash : state

val st_stateRegexFirstChar : state

val st_stateReq : state

val st_stateRequ : state

val st_stateReque : state

val st_stateReques : state

val st_stateRequestBody : state

val st_stateRequestBodyOrKeyword : state

val st_stateRes : state

val st_stateResponseBody : state

val st_stateResponseBodyOrKeyword : state

val st_stateResponseKeywordSecond : state

val st_stateResponseKeywordStarted : state

val st_stateResu : state

val st_stateResul : state

val st_stateResultBody : state

val st_stateRoot : state

val st_stateS : state

val st_stateSchemaClosed : state

val st_stateSe : state

val st_stateSer : state

val st_stateServ : state

val st_stateServe : state

val st_stateSingleComment : state

val st_stateT : state

val st_stateTA : state

val st_stateTa : state

val st_stateTag : state

val st_stateTi : state

val st_stateTit : state

val st_stateTitl : state

val st_stateTy : state

val st_stateTyp : state

val st_stateTypeBody : state

val st_stateTypeBodyOrKeyword : state

val st_stateU : state

val st_stateUR : state

val st_stateV : state

val st_stateVe : state

val st_stateVer : state

val st_stateVers : state

val st_stateVersi : state

val st_stateVersio : state

val prog_table : (string * stmt) list

val is_newline_cond : cond

val is_whitespace_cond : cond

val initial_state : state

val okind_eqb : okind -> okind -> bool

val missing_oracle_id : n

val olen_of_table : ((okind * z) * olen_res) list -> okind -> z -> olen_res

val the_next :
  bytes -> ((okind * z) * olen_res) list -> conf -> (lexeme option * conf) res

val lex_traj :
  bytes -> ((okind * z) * olen_res) list -> nat -> conf -> (lexeme
  list * scan_end) * conf list

val scan_case :
  bytes -> ((okind * z) * olen_res) list -> (lexeme list * scan_end) * conf
  list

val state_name : state -> string

val digits_value : bytes -> n

val is_http_response_code : bytes -> bool

val indexed_keywords : (n * bytes) list

val new_directive_type : bytes -> n option

val mem_N : n -> n list -> bool

val is_http_request_method : n -> bool

val is_allowed_for_root : n -> bool

val is_allowed_in : n -> n -> bool

type icond =
| IFirstByte of n
| IEquals of n list
| IContains of n list
| IHasPrefix of n list
| IHasSuffix of n list
| ISegmentIn of n list list
| IOr of icond * icond
| IAnd of icond * icond

val include_checks : (icond * string) list

val jerr_AnnotationIsForbiddenForTheDirective : string

val jerr_ApartFromTheOpeningParenthesis : string

val jerr_BodyIsEmpty : string

val jerr_CannotUseTheTypeAndSchemaNotationParametersTogether : string

val jerr_ContextNotClosed : string

val jerr_DescriptionIsEmpty : string

val jerr_DirectiveBaseURLAlreadyDefined : string

val jerr_DirectiveINFOGottaBeOnlyOneTime : string

val jerr_DirectiveJSIGHTGottaBeOnlyOneTime : string

val jerr_DirectiveJSIGHTShouldBeTheFirst : string

val jerr_DirectiveNotAllowed : string

val jerr_DuplicateNames : string

val jerr_HTTPMethodNotFound : string

val jerr_HTTPResourceNotFound : string

val jerr_IncludeDirectiveErr : string

val jerr_IncorrectDirectiveContext : string

val jerr_IncorrectParameter : string

val jerr_IncorrectPath : string

val jerr_IncorrectRequest : string

val jerr_InfoIsEmpty : string

val jerr_JsonRpcMethodNotFound : string

val jerr_JsonRpcResourceNotFound : string

val jerr_MacroIsEmpty : string

val jerr_MacroNotFound : string

val jerr_MethodIsAlreadyDefinedInResource : string

val jerr_NotUniqueDirective : string

val jerr_NotUniqueOperationID : string

val jerr_NotUniquePath : string

val jerr_ParametersAreForbiddenForTheDirective : string

val jerr_ParametersIsAlreadyDefined : string

val jerr_ParentNotFound : string

val jerr_PathEmptyParameter : string

val jerr_PathNotFound : string

val jerr_PathParameterIsDuplicatedInThePath : string

val jerr_PathsAreSimilar : string

val jerr_ProtocolNotFound : string

val jerr_ProtocolParameterErr : string

val jerr_RecursionIsProhibited : string

val jerr_RequestIsEmpty : string

val jerr_RequiredParameterNotSpecified : string

val jerr_ResponsesIsEmpty : string

val jerr_ServerNotFound : string

val jerr_TagNotFound : string

val jerr_ThereIsNoExplicitContextForClosure : string

val jerr_UndefinedRequestBodyForResource : string

val jerr_UnknownDirective : string

val jerr_UnsupportedVersion : string

val jerr_WrongDescriptionContext : string

type pkey =
| KPath
| KSchemaNotation
| KType
| KName
| KFormat
| KQueryExample
| KVersion
| KTitle
| KProtocolName
| KMethodName
| KTagName
| KOperationId

val pkey_eqb : pkey -> pkey -> bool

val pkey_name : pkey -> string

type coords = { co_file : n; co_begin : z; co_end : z }

type trace = (n * z) list

type dir = { d_kind : n; d_keyword : bytes; d_kw : coords;
             d_named : (pkey * bytes) list; d_unnamed : bytes list;
             d_annot : bytes; d_body : coords option; d_explicit : bool;
             d_trace : trace; d_children : dir list }

val with_children : dir -> dir list -> dir

val named : dir -> pkey -> bytes

val has_named : dir -> pkey -> bool

type cmsg = { m_fmt : string; m_args : bytes list; m_suffix : (n * z) list }

val mkMsg : string -> bytes list -> cmsg

type cerr = { e_msg : cmsg; e_file : n; e_index : z; e_trace : trace }

type cpanic =
| CPNilCurrentDirective
| CPEmptyIncludeName
| CPLexemeValue
| CPScanner of panic
| CPOther of string

type 'a cres =
| COk of 'a
| CErr of cerr
| CPanic of cpanic
| CFuel

val str : string -> bytes

val msg1 : string -> cmsg

val is_trim_space : n -> bool

val is_re_space : n -> bool

val drop_while : (n -> bool) -> bytes -> bytes

val trim_space : bytes -> bytes

val collapse_spaces : bytes -> bool -> bytes

val annotation : bytes -> bytes

val is_schema_notation : bytes -> bool

val is_array_of_types : bytes -> bool

type append_res =
| ASet of pkey * bytes
| AUnnamed of bytes
| ABad of bytes

val kind_in : n -> n list -> bool

val append_parameter_kind : n -> bytes -> append_res

val append_parameter : dir -> bytes -> (dir, cmsg) sum

type path = nat list

val node_at : dir list -> path -> dir option

val update_nth : 'a1 list -> nat -> ('a1 -> 'a1) -> 'a1 list

val append_child : dir list -> path -> dir -> dir list * nat

val parent_path : path -> path option

val dir_error : dir -> cmsg -> cerr

val kind_name : n -> bytes

val incorrect_context : dir -> cerr

val incorrect_context_path : dir -> cerr

val attach :
  nat -> dir list -> path option -> dir -> (dir list * path option) cres

val attach_fuel : path option -> nat

val close_explicit : nat -> dir list -> path option -> path option option

val has_unclosed : nat -> dir list -> path option -> bool

type fsentry =
| FFile of bytes
| FDir

type fsmap = (bytes * fsentry) list

val fs_lookup : fsmap -> bytes -> fsentry option

val segments : bytes -> bytes list

val dot : n list

val dotdot : n list

val clean_segs : bytes list -> bytes list -> bytes list

val join_segs : bytes list -> bytes

val join_dir : bytes -> bytes -> bytes

type stat_res =
| SFile of bytes
| SDir
| SMissing
| SNotDir

val proper_prefixes : bytes list -> bytes list -> bytes list list

val stat_path : fsmap -> bytes -> stat_res

val eval_icond : icond -> bytes -> bool option

val validate_include : (icond * string) list -> bytes -> string option option

val newline_symbol_aux : bytes -> n option -> n

val newline_symbol : bytes -> n

val count_lines : n -> bytes -> z -> z -> z * z

val line_and_column : bytes -> z -> z * z

val bol_loop : bytes -> n -> nat -> nat -> nat option

val beginning_of_line : bytes -> nat -> nat option

val eol_loop : n -> bytes -> nat -> nat

val end_of_line : bytes -> nat -> nat option

val is_blank : n -> bool

val trim_spaces_from_left : bytes -> bytes

val dots : n list

val quote : bytes -> z -> bytes option

type sitem = { si_file : n; si_conf : conf; si_at : z }

type cstate = { cs_forest : dir list; cs_ctx : path option;
                cs_cur : dir option; cs_file : n; cs_conf : conf;
                cs_stack : sitem list; cs_tracers : (bytes * trace) list;
                cs_files : (bytes * bytes) list;
                cs_log : (string * bytes) list }

val file_name : cstate -> n -> bytes

val file_content : cstate -> n -> bytes

val live_trace : cstate -> trace

val with_live_trace : cstate -> cerr -> cerr

val scan_next :
  (string * stmt) list -> cond -> cond -> (bytes -> okind -> z -> olen_res)
  -> cstate -> (lexeme option * conf) res

val set_conf : cstate -> conf -> cstate

val set_cur_dir : cstate -> dir option -> cstate

val set_tree : cstate -> dir list -> path option -> cstate

val add_log : cstate -> string -> bytes -> cstate

val core_error : cstate -> cmsg -> z -> cerr

val scan_error : cstate -> serr -> cerr

val process_current : cstate -> cstate cres

val directive_tracer : cstate -> trace * cstate

val lex_coords : cstate -> lexeme -> coords

val lex_value : cstate -> lexeme -> bytes option

val jsight_kw : bytes

val include_kw : bytes

val process_keyword : cstate -> lexeme -> cstate cres

val process_parameter : cstate -> lexeme -> cstate cres

val process_annotation : cstate -> lexeme -> cstate cres

val process_body : cstate -> lexeme -> cstate cres

val process_context_begin : cstate -> cstate cres

val process_context_end : cstate -> cstate cres

val orphan_lexeme : cstate -> lexeme -> cstate cres option

val core_next : cstate -> lexeme -> cstate cres

val lexeme_error : cstate -> lexeme -> cmsg -> cerr

val fname : bytes

val process_include :
  (string * stmt) list -> cond -> cond -> fsmap -> (bytes -> okind -> z ->
  olen_res) -> state -> cstate -> lexeme -> cstate cres * cstate

val is_include : cstate -> lexeme -> bool

val process_eof : cstate -> cstate cres

type sres =
| SDone of cstate
| SErr of cerr * cstate
| SPanic of cpanic * cstate
| SFuel

val lift : cstate -> cstate cres -> (cstate -> sres) -> sres

val scan_project :
  (string * stmt) list -> cond -> cond -> fsmap -> (bytes -> okind -> z ->
  olen_res) -> state -> nat -> cstate -> sres

val initial_cstate : state -> bytes -> bytes -> cstate

type macros = (bytes * dir) list

val macro_lookup : macros -> bytes -> dir option

val required_name : dir -> cerr

val add_macro : macros -> dir -> macros cres

val collect_macro : dir list -> dir list -> macros -> (dir list * macros) cres

val paste_nodes : nat -> dir -> dir list

val macro_pastes : nat -> dir -> dir list

val reaches : nat -> nat -> macros -> bytes -> bytes -> bool

val paste_verdict : nat -> nat -> macros -> bytes -> dir -> cerr option

val first_some : ('a1 -> 'a2 option) -> 'a1 list -> 'a2 option

val find_paste : nat -> nat -> macros -> bytes -> dir -> cerr option

val check_recursion : nat -> macros -> cerr option

type xstate = { x_forest : dir list; x_ctx : path option; x_enums : bytes list }

val wrap_error : dir -> cerr -> cerr

val build_rule : (coords -> (n * z) option) -> xstate -> dir -> xstate cres

val build_rules :
  (coords -> (n * z) option) -> xstate -> dir list -> xstate cres

val expand_dir :
  (coords -> (n * z) option) -> macros -> nat -> xstate -> dir -> xstate cres

val expand_list :
  (coords -> (n * z) option) -> macros -> nat -> xstate -> dir list -> xstate
  cres

type expanded = { ex_roots : dir list; ex_macros : macros;
                  ex_forest : dir list; ex_enums : bytes list }

type xres =
| XOk of expanded
| XErr of cerr
| XErrOneOf of cerr list
| XPanic of cpanic
| XFuel

val compile_macros : (coords -> (n * z) option) -> nat -> dir list -> xres

type bodyfmt =
| FJson
| FPlain
| FBinary

type response = { rs_code : bytes; rs_annot : bytes; rs_dir : dir;
                  rs_headers : dir option; rs_body : bodyfmt option }

type request = { rq_dir : dir; rq_headers : dir option;
                 rq_body : bodyfmt option }

type http_inter = { hi_id : bytes; hi_method : bytes; hi_path : bytes;
                    hi_annot : bytes; hi_descr : bytes option;
                    hi_tags : bytes list; hi_query : (bytes * bytes) option;
                    hi_request : request option;
                    hi_responses : response list; hi_opid : bytes option }

type rpc_inter = { ri_id : bytes; ri_method : bytes; ri_path : bytes;
                   ri_annot : bytes; ri_descr : bytes option;
                   ri_tags : bytes list; ri_params : bool; ri_result : 
                   bool }

type inter =
| IHttp of http_inter
| IRpc of rpc_inter

val inter_id : inter -> bytes

type tag = { tg_name : bytes; tg_title : bytes; tg_descr : bytes option;
             tg_http : bytes list; tg_rpc : bytes list }

type info = { in_dir : dir; in_title : bytes; in_version : bytes;
              in_descr : bytes option }

type catalog = { c_jsight : bytes; c_info : info option;
                 c_servers : ((bytes * bytes) * bytes) list;
                 c_tags : tag list; c_types : ((bytes * bytes) * bytes) list;
                 c_inters : inter list; c_url_paths : bytes list;
                 c_similar : (bytes * bytes) list; c_opids : bytes list;
                 c_protocol_urls : coords list }

val empty_catalog : catalog

val kerr : dir -> cmsg -> catalog cres

val kerr1 : dir -> string -> catalog cres

val required : dir -> string -> catalog cres

val has_annot : dir -> bool

val has_body : dir -> bool

val is_method : n -> bool

val dir_path : dir -> dir list -> (bytes, string) sum

val dir_method : dir -> dir list -> n option

val dir_rpc_method : dir -> dir list -> bytes option

val sp : n list

val http_id : dir -> dir list -> ((bytes * bytes) * bytes, string) sum

val rpc_id : dir -> dir list -> ((bytes * bytes) * bytes, string) sum

val path_segments : bytes -> bytes list

val is_param_seg : bytes -> bool

val join_slash : bytes list -> bytes

val path_params_aux : bytes list -> bytes list -> (bytes * bytes) list

val path_params : bytes -> (bytes * bytes) list

val first_dup : bytes list -> bytes list -> bytes option

val path_params_error : bytes -> cmsg option

val assoc_get : (bytes * bytes) list -> bytes -> bytes option

val assoc_set : (bytes * bytes) list -> bytes -> bytes -> (bytes * bytes) list

val check_similar :
  (bytes * bytes) list -> (bytes * bytes) list -> ((bytes * bytes) list,
  cmsg) sum

val crlf_to_lf : bytes -> bytes

val is_nl : n -> bool

val is_sp_tab : n -> bool

val is_unicode_space_ascii : n -> bool

val trim_left : (n -> bool) -> bytes -> bytes

val trim_right : (n -> bool) -> bytes -> bytes

val trim_both : (n -> bool) -> bytes -> bytes

val remove_parens : bytes -> (bytes, string) sum

val split_lines : bytes -> bytes -> bytes list

val first_prefix : bytes -> bytes

val common_prefix : bytes -> bytes -> bytes

val longest_ws_prefix : bytes list -> bytes

val strip_prefix : bytes -> bytes -> bytes

val has_prefix_b : bytes -> bytes -> bool

val join_nl : bytes list -> bytes

val description : bytes -> (bytes, string) sum

val find_tag : tag list -> bytes -> tag option

val update_tag : tag list -> bytes -> (tag -> tag) -> tag list

val drop_while_list : ('a1 -> bool) -> 'a1 list -> 'a1 list

val path_tag_title : bytes -> bytes

val hex_digit : n -> n

val path_unescaped : n -> bool

val path_escape : bytes -> bytes

val replace_first : n -> n -> bytes -> bytes

val tag_name : bytes -> bytes

val add_id_to_tag : bool -> bytes -> tag -> tag

val tags_child : dir -> dir option

val interaction_tags :
  catalog -> dir -> dir list -> bool -> bytes -> bytes -> (tag list * bytes
  list, cerr) sum

val set_tags : catalog -> tag list -> catalog

val set_inters : catalog -> inter list -> catalog

val set_similar : catalog -> (bytes * bytes) list -> catalog

val find_inter : inter list -> bytes -> inter option

val update_inter : inter list -> bytes -> (inter -> inter) -> inter list

val upd_http : catalog -> bytes -> (http_inter -> http_inter) -> catalog

val upd_rpc : catalog -> bytes -> (rpc_inter -> rpc_inter) -> catalog

val find_http : catalog -> bytes -> http_inter option

val find_rpc : catalog -> bytes -> rpc_inter option

val not_found : dir -> string -> bytes -> catalog cres

val notation_format : bytes -> bodyfmt

val is_any_or_empty : bytes -> bool

val is_jsight : bytes -> bool

val check_paths : catalog -> dir -> dir list -> (catalog * bytes, cerr) sum

val is_rpc_child : dir -> bool

val url_children_compatible : dir -> cerr option

val parent_kind : dir list -> n

val add_request : catalog -> dir -> dir list -> catalog cres

val add_response : catalog -> dir -> dir list -> catalog cres

val add_directive : n list -> catalog -> dir -> dir list -> catalog cres

val add_description : catalog -> dir -> dir list -> bytes -> catalog cres

val add_branch :
  (coords -> bytes) -> n list -> nat -> catalog -> dir -> dir list -> catalog
  cres

val add_all :
  (coords -> bytes) -> n list -> nat -> catalog -> dir list -> catalog cres

val collect_tags : catalog -> dir list -> catalog cres

val validate : catalog -> cerr option

val dup_type_error : bytes list -> dir list -> cerr option

val type_without_body : dir list -> cerr option

val same_dir : coords -> coords -> bool

val collect_paths :
  nat -> dir list -> dir list -> coords option -> (coords option, cerr) sum

val missed_path_errors : dir list -> cerr option

val build_catalog :
  (coords -> bytes) -> n list -> nat -> dir list -> catalog cres

val placed : n option -> dir -> bool

val nmtree : dir -> bool

val macros_on_top : dir list -> bool

type otable = (((bytes * okind) * z) * olen_res) list

type etable = (((bytes * z) * z) * (n * z)) list

val olen_lookup : otable -> bytes -> okind -> z -> olen_res

type rloc = { rl_name : bytes; rl_index : z; rl_line : z; rl_col : z;
              rl_quote : bytes option }

type rerr = { re_fmt : string; re_args : bytes list; re_suffix : rloc list;
              re_loc : rloc; re_trace : rloc list }

val render_loc : (bytes * bytes) list -> n -> z -> rloc

val render_err : (bytes * bytes) list -> cerr -> rerr

type rdir = { rd_kind : n; rd_keyword : bytes; rd_file : bytes; rd_begin : 
              z; rd_end : z; rd_named : (string * bytes) list;
              rd_unnamed : bytes list; rd_annot : bytes;
              rd_body : ((bytes * z) * z) option; rd_explicit : bool;
              rd_trace : rloc list; rd_children : rdir list }

val fname_of : (bytes * bytes) list -> n -> bytes

val render_dir : nat -> (bytes * bytes) list -> dir -> rdir

type cat_result =
| CatOk of catalog
| CatErr of rerr
| CatPanic of cpanic
| CatFuel

type tree_result =
| TScanErr of rerr * (string * bytes) list
| TScanPanic of cpanic * (string * bytes) list
| TFuel
| TScanned of rdir list * (string * bytes) list * tree_phase2
and tree_phase2 =
| T2Ok of rdir list * bytes list * rdir list * bytes list * cat_result
| T2Err of rerr
| T2ErrOneOf of rerr list
| T2Panic of cpanic
| T2Fuel

val render_depth : nat

val tree_case_b :
  n list -> fsmap -> bytes -> otable -> etable -> nat -> tree_result

val tree_case : fsmap -> bytes -> otable -> etable -> nat -> tree_result

val placed_case :
  fsmap -> bytes -> otable -> etable -> nat -> (bool * bool) option

type skind =
| KJsight
| KRegex
| KPseudo

type sdesc = { sd_kind : skind; sd_fails : bool }

type cell =
| LzNone
| LzDone
| LzErr

type lstate = { l_cell : cell; l_draws : nat }

type acc =
| AJ
| AJI
| AO
| AOI
| AT

type result =
| RJson of bool * nat list
| RJsonNull of bool * nat list * nat list
| RErrAt of nat
| ROpenApi of bool
| RTitle

type sem = { keep_error : bool; cache_example : bool }

val current : sem

val marshal_one :
  sem -> sdesc -> lstate -> lstate * ((bool * nat option) * bool)

val marshal_all :
  sem -> nat -> sdesc list -> lstate list -> nat list -> nat list -> lstate
  list * ((nat option * nat list) * nat list)

val call : sem -> sdesc list -> lstate list -> acc -> lstate list * result

val fresh : sdesc list -> lstate list

val trace0 :
  sem -> sdesc list -> lstate list -> acc list -> (cell list * result) list

val lazy_case : sdesc list -> acc list -> (cell list * result) list

type oas_op = { op_method : bytes; op_responses : bytes list }

type oas_item = { it_path : bytes; it_params : bytes list;
                  it_ops : oas_op list }

type oas = { oa_paths : oas_item list; oa_components : bytes list }

val lower : n -> n

val lower_bytes : bytes -> bytes

val dedup : bytes list -> bytes list

val response_keys : http_inter -> bytes list

val op_of : http_inter -> oas_op

val assign_op : oas_op list -> oas_op -> oas_op list

val add_http : oas_item list -> http_inter -> oas_item list

val fill_paths : inter list -> oas_item list

val schema_name : bytes -> bytes

val to_openapi : catalog -> oas
