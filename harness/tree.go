package main

import (
	"bufio"
	"encoding/hex"
	"encoding/json"
	"fmt"
	"os"
	"path/filepath"
	"sort"
	"strings"

	"github.com/jsightapi/jsight-schema-core/fs"
	sckit "github.com/jsightapi/jsight-schema-core/kit"
	"github.com/jsightapi/jsight-schema-core/rules/enum"

	"github.com/jsightapi/jsight-api-core/catalog"
	"github.com/jsightapi/jsight-api-core/core"
	"github.com/jsightapi/jsight-api-core/directive"
	"github.com/jsightapi/jsight-api-core/jerr"
	"github.com/jsightapi/jsight-api-core/scanner"
)

type treeCase struct {
	ID     string            `json:"id"`
	Files  map[string]string `json:"files"` // relative name -> hex content
	Dirs   []string          `json:"dirs"`
	Root   string            `json:"root"`
	Outer  map[string]string `json:"outer,omitempty"` // decoy files placed in the parent of the project root
	Banned []string          `json:"banned,omitempty"`
	// every banned kind passed as an option of its own (in this order), with an empty option between them
	BanSplit bool `json:"bansplit,omitempty"`
	// one Option value per kind, created once per PROCESS and handed to every build that asks for it
	BanReuse bool   `json:"banreuse,omitempty"`
	Mode     string `json:"mode,omitempty"` // tree (default) | build
	// how the root file is named when it is handed to the library: "" = absolute path (default);
	// "empty" = unnamed file, "rel" = "root.jst", "dotrel" = "./root.jst" - the three with the
	// project directory as working directory
	RootName string `json:"rootname,omitempty"`
}

type errOut struct {
	Msg   string      `json:"msg"` // hex
	File  string      `json:"file"`
	Index uint        `json:"index"`
	Line  uint        `json:"line"`
	Col   uint        `json:"col"`
	Quote string      `json:"quote"` // hex
	Trace [][2]string `json:"trace"` // [file, line]
}

type fileOracle struct {
	Name    string        `json:"name"`
	Entries []oracleEntry `json:"entries"`
	Enums   []enumCheck   `json:"enums"`
}

type enumCheck struct {
	Begin uint   `json:"begin"`
	End   uint   `json:"end"`
	Msg   string `json:"msg,omitempty"`
	Idx   uint   `json:"idx"`
	OK    bool   `json:"ok"`
}

type treeOut struct {
	ID       string       `json:"id"`
	Scan     string       `json:"scan"` // ok | err | panic
	Err      *errOut      `json:"err,omitempty"`
	Panic    string       `json:"panic,omitempty"`
	Dirs     []string     `json:"dirs"`
	P2       string       `json:"p2,omitempty"`
	Err2     *errOut      `json:"err2,omitempty"`
	Roots    []string     `json:"roots"`
	Macros   []string     `json:"macros"`
	Expanded []string     `json:"expanded"`
	Enums    []string     `json:"enums"`
	Oracle   []fileOracle `json:"oracle"`
}

func hx(s string) string { return hex.EncodeToString([]byte(s)) }

func relName(root, name string) string {
	r, err := filepath.Rel(root, name)
	if err != nil {
		return name
	}
	return filepath.ToSlash(r)
}

func convErr(root string, je *jerr.JApiError) *errOut {
	e := &errOut{Msg: hx(strings.ReplaceAll(je.Msg, root+string(os.PathSeparator), "")), Index: uint(je.Index), Line: uint(je.Line), Col: uint(je.Column), Quote: hx(je.Quote), Trace: [][2]string{}}
	if je.File != nil {
		e.File = hx(relName(root, je.File.Name()))
	}
	full := je.Error()
	if len(full) > len(je.Msg) {
		lines := strings.Split(full[len(je.Msg):], "\n")
		// lines[0] == "" ; lines[1] is the error's own file:line; the rest is the include trace
		for _, l := range lines[2:] {
			i := strings.LastIndex(l, ":")
			if i < 0 {
				continue
			}
			e.Trace = append(e.Trace, [2]string{hx(relName(root, l[:i])), l[i+1:]})
		}
	}
	return e
}

var keyOrder = []string{"Path", "SchemaNotation", "Type", "Name", "Format", "QueryExample", "Version",
	"Title", "ProtocolName", "MethodName", "TagName", "OperationId"}

func dirString(root string, d *directive.Directive) string {
	var b strings.Builder
	kc := d.VerifKeywordCoords()
	kf := ""
	if kc.File() != nil {
		kf = hx(relName(root, kc.File().Name()))
	}
	var named []string
	for _, k := range keyOrder {
		if v := d.NamedParameter(k); v != "" {
			named = append(named, k+"="+hx(v))
		}
	}
	var un []string
	for _, v := range d.UnnamedParameter() {
		un = append(un, hx(v))
	}
	body := "-"
	if d.BodyCoords.File() != nil {
		body = fmt.Sprintf("%s:%d-%d", hx(relName(root, d.BodyCoords.File().Name())), uint(d.BodyCoords.Begin()), d.BodyCoords.VerifEnd())
	}
	x := 0
	if d.HasExplicitContext {
		x = 1
	}
	var tr []string
	je := d.KeywordError("x")
	full := je.Error()
	if len(full) > 1 {
		lines := strings.Split(full[1:], "\n")
		for _, l := range lines[2:] {
			i := strings.LastIndex(l, ":")
			if i >= 0 {
				tr = append(tr, hx(relName(root, l[:i]))+":"+l[i+1:])
			}
		}
	}
	fmt.Fprintf(&b, "(%s %s %s:%d-%d {%s} [%s] a=%s b=%s x=%d t=[%s]", d.Type().String(), hx(d.Keyword), kf,
		uint(kc.Begin()), kc.VerifEnd(), strings.Join(named, ","), strings.Join(un, ","), hx(d.Annotation), body, x,
		strings.Join(tr, ","))
	for _, c := range d.Children {
		b.WriteString(" ")
		b.WriteString(dirString(root, c))
	}
	b.WriteString(")")
	return b.String()
}

func forest(root string, ds []*directive.Directive) []string {
	out := []string{}
	for _, d := range ds {
		out = append(out, dirString(root, d))
	}
	return out
}

// fileOracles: standalone scan of every file to learn where bodies begin, then ask the
// dependency for the length at those positions and for the validity of every enum body.
func fileOracles(files map[string][]byte) []fileOracle {
	var names []string
	for n := range files {
		names = append(names, n)
	}
	sort.Strings(names)
	var out []fileOracle
	for _, n := range names {
		data := files[n]
		so := scanOne(n, data, false)
		fo := fileOracle{Name: hx(n), Entries: so.Oracle, Enums: []enumCheck{}}
		for _, l := range so.Lexemes {
			var k string
			var b, e uint
			if _, err := fmt.Sscanf(l, "E:%d:%d", &b, &e); err == nil && strings.HasPrefix(l, "E:") {
				k = "E"
			}
			if k == "" || int(e)+1 > len(data) || b > e+1 {
				continue
			}
			ec := enumCheck{Begin: b, End: e}
			func() {
				defer func() {
					if r := recover(); r != nil {
						ec.Msg = "panic: " + fmt.Sprint(r)
					}
				}()
				body := data[b : e+1]
				err := enum.New("@e", body).Check()
				if err == nil {
					ec.OK = true
					return
				}
				if ke, ok := err.(sckit.Error); ok {
					ec.Msg = ke.Message()
					ec.Idx = ke.Index()
				} else {
					ec.Msg = "nonkit: " + err.Error()
				}
			}()
			fo.Enums = append(fo.Enums, ec)
		}
		out = append(out, fo)
	}
	return out
}

func setupProject(tc *treeCase) (root string, files map[string][]byte, err error) {
	outer, err := os.MkdirTemp("", "vh")
	if err != nil {
		return "", nil, err
	}
	return setupProjectAt(tc, outer)
}

// setupProjectAt writes the project under outer/proj, replacing whatever project was there.
func setupProjectAt(tc *treeCase, outer string) (root string, files map[string][]byte, err error) {
	root = filepath.Join(outer, "proj")
	if err := os.RemoveAll(root); err != nil {
		return root, nil, err
	}
	if err := os.MkdirAll(root, 0o755); err != nil {
		return root, nil, err
	}
	for n, h := range tc.Outer {
		data, err := hex.DecodeString(h)
		if err != nil {
			return root, nil, err
		}
		p := filepath.Join(outer, filepath.FromSlash(n))
		if err := os.MkdirAll(filepath.Dir(p), 0o755); err != nil {
			return root, nil, err
		}
		if err := os.WriteFile(p, data, 0o644); err != nil {
			return root, nil, err
		}
	}
	files = map[string][]byte{}
	for _, d := range tc.Dirs {
		if err := os.MkdirAll(filepath.Join(root, filepath.FromSlash(d)), 0o755); err != nil {
			return root, nil, err
		}
	}
	for n, h := range tc.Files {
		data, err := hex.DecodeString(h)
		if err != nil {
			return root, nil, err
		}
		files[n] = data
		p := filepath.Join(root, filepath.FromSlash(n))
		if err := os.MkdirAll(filepath.Dir(p), 0o755); err != nil {
			return root, nil, err
		}
		if err := os.WriteFile(p, data, 0o644); err != nil {
			return root, nil, err
		}
	}
	return root, files, nil
}

func treeOne(tc *treeCase) (out treeOut) {
	out.ID = tc.ID
	out.Dirs, out.Roots, out.Macros, out.Expanded, out.Enums = []string{}, []string{}, []string{}, []string{}, []string{}
	root, files, err := setupProject(tc)
	if root != "" {
		defer os.RemoveAll(filepath.Dir(root))
	}
	if err != nil {
		out.Scan = "setup-error: " + err.Error()
		return out
	}
	out.Oracle = fileOracles(files)
	phase := "scan"
	defer func() {
		if r := recover(); r != nil {
			if phase == "scan" {
				out.Scan = "panic"
			} else {
				out.P2 = "panic"
			}
			out.Panic = fmt.Sprint(r)
		}
	}()
	rootPath := filepath.Join(root, filepath.FromSlash(tc.Root))
	if tc.RootName != "" {
		if wd, err := os.Getwd(); err == nil {
			defer func() { _ = os.Chdir(wd) }()
		}
		if err := os.Chdir(root); err != nil {
			out.Scan = "setup-error: " + err.Error()
			return out
		}
		switch tc.RootName {
		case "empty":
			rootPath = ""
		case "rel":
			rootPath = filepath.FromSlash(tc.Root)
		case "dotrel":
			rootPath = "." + string(filepath.Separator) + filepath.FromSlash(tc.Root)
		}
	}
	if os.Getenv("VERIF_MARKERS") != "" {
		_, _ = os.Stat("/verif-mark-begin-" + tc.ID + "-" + hx(root))
		defer func() { _, _ = os.Stat("/verif-mark-end-" + tc.ID) }()
	}
	c := core.NewJApiCore(fs.NewFile(rootPath, files[tc.Root]))
	if je := c.VerifScanProject(); je != nil {
		out.Scan = "err"
		out.Err = convErr(root, je)
		return out
	}
	out.Scan = "ok"
	out.Dirs = forest(root, c.VerifDirectives())
	phase = "p2"
	if je := c.VerifCompileMacros(); je != nil {
		out.P2 = "err"
		out.Err2 = convErr(root, je)
		return out
	}
	out.P2 = "ok"
	out.Roots = forest(root, c.VerifDirectives())
	out.Expanded = forest(root, c.VerifExpanded())
	ms := []string{}
	for n := range c.VerifMacros() {
		ms = append(ms, hx(n))
	}
	sort.Strings(ms)
	out.Macros = ms
	_ = c.Catalog().UserEnums.Each(func(k string, _ *catalog.UserRule) error {
		out.Enums = append(out.Enums, hx(k))
		return nil
	})
	return out
}

var _ = scanner.Keyword

func cmdTree(args []string) {
	in := bufio.NewScanner(os.Stdin)
	in.Buffer(make([]byte, 1<<20), 1<<28)
	w := bufio.NewWriter(os.Stdout)
	defer w.Flush()
	enc := json.NewEncoder(w)
	for in.Scan() {
		line := strings.TrimSpace(in.Text())
		if line == "" {
			continue
		}
		var tc treeCase
		if err := json.Unmarshal([]byte(line), &tc); err != nil {
			fmt.Fprintln(os.Stderr, "bad case:", err)
			os.Exit(2)
		}
		fmt.Fprintf(w, "#START %s\n", tc.ID)
		w.Flush()
		_ = enc.Encode(treeOne(&tc))
		w.Flush()
	}
}
