package main

import (
	"bufio"
	"bytes"
	"encoding/json"
	"fmt"
	"os"
	"path/filepath"
	"runtime/debug"
	"strings"
	"time"
	"unicode/utf8"

	"github.com/jsightapi/jsight-schema-core/fs"

	"github.com/jsightapi/jsight-api-core/core"
	"github.com/jsightapi/jsight-api-core/directive"
	"github.com/jsightapi/jsight-api-core/kit"
)

type buildOut struct {
	ID      string          `json:"id"`
	End     string          `json:"end"` // ok | err | panic
	Err     *errOut         `json:"err,omitempty"`
	Panic   string          `json:"panic,omitempty"`
	Site    string          `json:"site,omitempty"` // first frame of this repository in the panic's stack
	JSON    json.RawMessage `json:"json,omitempty"`
	JSONErr string          `json:"jsonerr,omitempty"`
	Indent  string          `json:"indent,omitempty"` // "" = ToJsonIndent agrees with ToJson up to whitespace; else what differs
	Ms      float64         `json:"ms"`
}

var kindByName = map[string]directive.Enumeration{}

func init() {
	for i := 0; i < 64; i++ {
		func() {
			defer func() { _ = recover() }()
			kindByName[directive.Enumeration(i).String()] = directive.Enumeration(i)
		}()
	}
}

func buildOne(tc *treeCase) (out buildOut) {
	out.ID = tc.ID
	root, files, err := setupProject(tc)
	if root != "" {
		defer os.RemoveAll(filepath.Dir(root))
	}
	if err != nil {
		out.End = "setup-error: " + err.Error()
		return out
	}
	t0 := time.Now()
	defer func() {
		out.Ms = float64(time.Since(t0).Microseconds()) / 1000
		if r := recover(); r != nil {
			out.End = "panic"
			out.Panic = fmt.Sprint(r)
			out.Site = repoFrame(string(debug.Stack()))
		}
	}()
	if tc.Mode == "kit-missing" {
		_, je := kit.NewJapi(filepath.Join(root, "does-not-exist.jst"))
		if je != nil {
			out.End = "err"
			out.Err = convErr(root, je)
			return out
		}
		out.End = "ok"
		return out
	}
	if tc.Mode == "kit-file" {
		j, je := kit.NewJapi(filepath.Join(root, filepath.FromSlash(tc.Root)))
		if je != nil {
			out.End = "err"
			out.Err = convErr(root, je)
			return out
		}
		out.End = "ok"
		if b, e := j.ToJson(); e == nil {
			out.JSON = json.RawMessage(b)
		} else {
			out.JSONErr = e.Error()
		}
		return out
	}
	var opts []core.Option
	if len(tc.Banned) > 0 {
		var ks []directive.Enumeration
		for _, b := range tc.Banned {
			k, ok := kindByName[b]
			if !ok {
				out.End = "setup-error: unknown directive kind " + b
				return out
			}
			ks = append(ks, k)
		}
		if tc.BanReuse {
			for _, b := range tc.Banned {
				o, ok := sharedBanOptions[b]
				if !ok {
					o = core.WithBannedDirectives(kindByName[b])
					sharedBanOptions[b] = o
				}
				opts = append(opts, o)
			}
		} else if tc.BanSplit {
			for _, k := range ks {
				opts = append(opts, core.WithBannedDirectives(k), core.WithBannedDirectives())
			}
		} else {
			opts = append(opts, core.WithBannedDirectives(ks...))
		}
	}
	rootPath := filepath.Join(root, filepath.FromSlash(tc.Root))
	j, je := kit.NewJApiFromFile(fs.NewFile(rootPath, files[tc.Root]), opts...)
	if je != nil {
		out.End = "err"
		out.Err = convErr(root, je)
		return out
	}
	out.End = "ok"
	b, e := j.ToJson()
	if e != nil {
		out.JSONErr = e.Error()
		return out
	}
	out.JSON = json.RawMessage(b)
	if !utf8.Valid(b) {
		out.Indent = "ToJson is not valid UTF-8"
	}
	bi, ei := j.ToJsonIndent()
	if ei != nil {
		out.Indent = "ToJsonIndent failed: " + ei.Error()
	} else {
		var c1, c2 bytes.Buffer
		if e1, e2 := json.Compact(&c1, b), json.Compact(&c2, bi); e1 != nil || e2 != nil {
			out.Indent = "not well-formed JSON"
		} else if c1.String() != c2.String() {
			out.Indent = "ToJsonIndent differs from ToJson beyond whitespace"
		}
	}
	return out
}

// repoFrame returns "function (file:line)" of the innermost frame that belongs to
// jsight-api-core itself (not the harness, not the dependency, not the runtime).
func repoFrame(stack string) string {
	lines := strings.Split(stack, "\n")
	for i := 0; i+1 < len(lines); i++ {
		l := lines[i]
		if strings.HasPrefix(l, "github.com/jsightapi/jsight-api-core/") {
			fn := l
			if j := strings.LastIndex(fn, "("); j > 0 {
				fn = fn[:j]
			}
			loc := strings.TrimSpace(lines[i+1])
			if j := strings.Index(loc, " +"); j > 0 {
				loc = loc[:j]
			}
			if j := strings.Index(loc, "jsight-api-core/"); j >= 0 {
				loc = loc[j+len("jsight-api-core/"):]
			} else if strings.HasPrefix(loc, "/repo/") {
				loc = loc[len("/repo/"):]
			}
			return strings.TrimPrefix(fn, "github.com/jsightapi/jsight-api-core/") + " (" + loc + ")"
		}
	}
	return ""
}

func cmdBuild(args []string) {
	in := bufio.NewScanner(os.Stdin)
	in.Buffer(make([]byte, 1<<20), 1<<28)
	w := bufio.NewWriter(os.Stdout)
	defer w.Flush()
	enc := json.NewEncoder(w)
	enc.SetEscapeHTML(false)
	for in.Scan() {
		line := strings.TrimSpace(in.Text())
		if line == "" {
			continue
		}
		var tc treeCase
		if err := json.Unmarshal([]byte(line), &tc); err != nil {
			fmt.Fprintln(os.Stderr, "bad case:", err)
			os.Exit(2)
		}
		fmt.Fprintf(w, "#START %s\n", tc.ID)
		w.Flush()
		_ = enc.Encode(buildOne(&tc))
		w.Flush()
	}
}

// sharedBanOptions: Option values that live as long as the process (a caller may keep and reuse
// the options it made; one build must not change what an option means for the next)
var sharedBanOptions = map[string]core.Option{}
