package main

// ser: serialiser histories (C16), repeated builds (C06), OpenAPI export (C17) and concurrent
// builders / serialisers (C18).  One JSON case per input line:
//
//	{"id":…, "files":…, "root":…, "mode":"hist",   "hist":["J","JI","O","OI","T",…], "full":true}
//	{"id":…, "files":…, "root":…, "mode":"repeat", "n":8}
//	{"id":…, "mode":"conc", "group":[case,…], "workers":8, "shared":true|false}
//
// Accessors: J=ToJson JI=ToJsonIndent O=ToOpenAPIJson OI=ToOpenAPIJsonIndent T=Title.

import (
	"bufio"
	"crypto/sha256"
	"encoding/hex"
	"encoding/json"
	"fmt"
	"os"
	"path/filepath"
	"runtime/debug"
	"strings"
	"sync"

	"github.com/jsightapi/jsight-schema-core/fs"

	"github.com/jsightapi/jsight-api-core/kit"
)

type serCase struct {
	treeCase
	Hist    []string   `json:"hist"`
	Full    bool       `json:"full"`
	N       int        `json:"n"`
	Group   []treeCase `json:"group"`
	Workers int        `json:"workers"`
	Shared  bool       `json:"shared"`
	// conc: every worker owns one built catalog per project and all workers export them at once, for several rounds
	Exports bool `json:"exports,omitempty"`
}

type callOut struct {
	Acc   string `json:"acc"`
	Sha   string `json:"sha,omitempty"`
	Len   int    `json:"len"`
	Err   string `json:"err,omitempty"`
	Panic string `json:"panic,omitempty"`
	Site  string `json:"site,omitempty"`
	Lazy  string `json:"lazy"` // state of every lazily computed part after the call (catalog.VerifLazyState)
}

type buildRes struct {
	End   string  `json:"end"`
	Err   *errOut `json:"err,omitempty"`
	Full  string  `json:"full,omitempty"` // JApiError.Error()
	Panic string  `json:"panic,omitempty"`
	Site  string  `json:"site,omitempty"`
	Sha   string  `json:"sha,omitempty"`
	JErr  string  `json:"jsonerr,omitempty"`
}

type serOut struct {
	ID     string                     `json:"id"`
	End    string                     `json:"end"`
	Err    *errOut                    `json:"err,omitempty"`
	Calls  []callOut                  `json:"calls,omitempty"`
	Lazy0  []string                   `json:"lazy0,omitempty"` // schemas in serialisation order, state after the build
	First  map[string]json.RawMessage `json:"first,omitempty"` // first successful result per accessor (J, O; T as a JSON string)
	Builds []buildRes                 `json:"builds,omitempty"`
	Conc   [][]buildRes               `json:"conc,omitempty"` // per worker, per item
	Solo   []buildRes                 `json:"solo,omitempty"`
	Panic  string                     `json:"panic,omitempty"`
}

func sha(b []byte) string {
	h := sha256.Sum256(b)
	return hex.EncodeToString(h[:8])
}

func lazyString(j *kit.JApi) string {
	var sb strings.Builder
	for _, l := range j.Catalog().VerifLazyState() {
		sb.WriteString(l[strings.LastIndex(l, ":")+1:])
	}
	return sb.String()
}

func callAcc(j *kit.JApi, a string) (b []byte, co callOut) {
	co.Acc = a
	defer func() {
		if r := recover(); r != nil {
			co.Panic = fmt.Sprint(r)
			co.Site = repoFrame(string(debug.Stack()))
			b = nil
		}
	}()
	var err error
	switch a {
	case "J":
		b, err = j.ToJson()
	case "JI":
		b, err = j.ToJsonIndent()
	case "O":
		b, err = j.ToOpenAPIJson()
	case "OI":
		b, err = j.ToOpenAPIJsonIndent()
	case "T":
		b = []byte(j.Title())
	default:
		err = fmt.Errorf("unknown accessor %s", a)
	}
	if err != nil {
		co.Err = err.Error()
		return nil, co
	}
	co.Sha = sha(b)
	co.Len = len(b)
	return b, co
}

func buildQuiet(root string, files map[string][]byte, rootName string) (j kit.JApi, br buildRes) {
	defer func() {
		if r := recover(); r != nil {
			br.End = "panic"
			br.Panic = fmt.Sprint(r)
			br.Site = repoFrame(string(debug.Stack()))
		}
	}()
	rootPath := filepath.Join(root, filepath.FromSlash(rootName))
	// a private copy of the content: builds must not share the byte slice
	content := append([]byte(nil), files[rootName]...)
	j, je := kit.NewJApiFromFile(fs.NewFile(rootPath, content))
	if je != nil {
		br.End = "err"
		br.Err = convErr(root, je)
		br.Full = strings.ReplaceAll(je.Error(), root, "<root>")
		return j, br
	}
	br.End = "ok"
	return j, br
}

func serOne(sc *serCase) (out serOut) {
	out.ID = sc.ID
	defer func() {
		if r := recover(); r != nil {
			out.End = "panic"
			out.Panic = fmt.Sprint(r)
		}
	}()
	switch sc.Mode {
	case "hist":
		root, files, err := setupProject(&sc.treeCase)
		if root != "" {
			defer os.RemoveAll(filepath.Dir(root))
		}
		if err != nil {
			out.End = "setup-error: " + err.Error()
			return out
		}
		j, br := buildQuiet(root, files, sc.Root)
		out.End = br.End
		out.Err = br.Err
		out.Panic = br.Panic
		if br.End != "ok" {
			return out
		}
		out.First = map[string]json.RawMessage{}
		out.Lazy0 = j.Catalog().VerifLazyState()
		for _, a := range sc.Hist {
			b, co := callAcc(&j, a)
			co.Lazy = lazyString(&j)
			out.Calls = append(out.Calls, co)
			if sc.Full && b != nil {
				if _, seen := out.First[a]; !seen {
					switch a {
					case "J", "O":
						if json.Valid(b) {
							out.First[a] = json.RawMessage(b)
						} else {
							q, _ := json.Marshal("NOT-JSON:" + string(b))
							out.First[a] = q
						}
					case "T":
						q, _ := json.Marshal(string(b))
						out.First[a] = q
					}
				}
			}
		}
	case "repeat":
		root, files, err := setupProject(&sc.treeCase)
		if root != "" {
			defer os.RemoveAll(filepath.Dir(root))
		}
		if err != nil {
			out.End = "setup-error: " + err.Error()
			return out
		}
		out.End = "ok"
		for i := 0; i < sc.N; i++ {
			out.Builds = append(out.Builds, buildJO(root, files, sc.Root))
		}
	case "prior":
		// the projects of the group are built one after the other in ONE process and at ONE
		// path: whatever an earlier build leaves behind in the process is there for the later ones
		outer, err := os.MkdirTemp("", "vh")
		if err != nil {
			out.End = "setup-error: " + err.Error()
			return out
		}
		defer os.RemoveAll(outer)
		out.End = "ok"
		for i := range sc.Group {
			root, files, err := setupProjectAt(&sc.Group[i], outer)
			if err != nil {
				out.End = "setup-error: " + err.Error()
				return out
			}
			out.Builds = append(out.Builds, buildJO(root, files, sc.Group[i].Root))
		}
	case "conc":
		type proj struct {
			root  string
			files map[string][]byte
			name  string
		}
		var ps []proj
		for i := range sc.Group {
			root, files, err := setupProject(&sc.Group[i])
			if root != "" {
				defer os.RemoveAll(filepath.Dir(root))
			}
			if err != nil {
				out.End = "setup-error: " + err.Error()
				return out
			}
			ps = append(ps, proj{root, files, sc.Group[i].Root})
		}
		out.End = "ok"
		if sc.Shared {
			// one catalog per project, serialised by every worker at once
			out.Conc = make([][]buildRes, sc.Workers)
			for w := range out.Conc {
				out.Conc[w] = make([]buildRes, len(ps))
			}
			for i, p := range ps {
				j, br := buildQuiet(p.root, p.files, p.name)
				if br.End != "ok" {
					for w := range out.Conc {
						out.Conc[w][i] = br
					}
					out.Solo = append(out.Solo, br)
					continue
				}
				var wg sync.WaitGroup
				start := make(chan struct{})
				for w := 0; w < sc.Workers; w++ {
					wg.Add(1)
					go func(w int) {
						defer wg.Done()
						<-start
						r := buildRes{End: "ok"}
						var parts []string
						for _, a := range []string{"J", "O", "JI", "T"} {
							_, co := callAcc(&j, a)
							if co.Panic != "" {
								r.End = "panic"
								r.Panic = co.Panic
								r.Site = co.Site
							}
							parts = append(parts, a+"="+co.Sha+co.Err)
						}
						r.Sha = strings.Join(parts, ",")
						out.Conc[w][i] = r
					}(w)
				}
				close(start)
				wg.Wait()
				// the sequential result, from a fresh build
				j2, _ := buildQuiet(p.root, p.files, p.name)
				var parts []string
				for _, a := range []string{"J", "O", "JI", "T"} {
					_, co := callAcc(&j2, a)
					parts = append(parts, a+"="+co.Sha+co.Err)
				}
				out.Solo = append(out.Solo, buildRes{End: "ok", Sha: strings.Join(parts, ",")})
			}
			return out
		}
		if sc.Exports {
			for _, p := range ps {
				out.Solo = append(out.Solo, buildJO(p.root, p.files, p.name))
			}
			cats := make([][]kit.JApi, sc.Workers)
			oks := make([][]bool, sc.Workers)
			out.Conc = make([][]buildRes, sc.Workers)
			for w := 0; w < sc.Workers; w++ {
				cats[w] = make([]kit.JApi, len(ps))
				oks[w] = make([]bool, len(ps))
				out.Conc[w] = make([]buildRes, len(ps))
				for i, p := range ps {
					j, br := buildQuiet(p.root, p.files, p.name)
					cats[w][i] = j
					oks[w][i] = br.End == "ok"
					out.Conc[w][i] = br
				}
			}
			var wg sync.WaitGroup
			start := make(chan struct{})
			for w := 0; w < sc.Workers; w++ {
				wg.Add(1)
				go func(w int) {
					defer wg.Done()
					<-start
					for round := 0; round < 12; round++ {
						for k := range ps {
							i := (k + w) % len(ps)
							if !oks[w][i] {
								continue
							}
							r := buildRes{End: "ok"}
							var parts []string
							for _, a := range []string{"J", "O"} {
								_, co := callAcc(&cats[w][i], a)
								if co.Panic != "" {
									r.End = "panic"
									r.Panic = co.Panic
									r.Site = co.Site
								}
								parts = append(parts, a+"="+co.Sha+co.Err)
							}
							r.Sha = strings.Join(parts, ",")
							// keep the first result that differs from the sequential one, if any
							if round == 0 || (out.Conc[w][i].Sha == out.Solo[i].Sha && out.Conc[w][i].End == "ok") {
								out.Conc[w][i] = r
							}
						}
					}
				}(w)
			}
			close(start)
			wg.Wait()
			return out
		}
		// sequential baseline first (one at a time), then all workers at once
		for _, p := range ps {
			out.Solo = append(out.Solo, buildJO(p.root, p.files, p.name))
		}
		out.Conc = make([][]buildRes, sc.Workers)
		var wg sync.WaitGroup
		start := make(chan struct{})
		for w := 0; w < sc.Workers; w++ {
			out.Conc[w] = make([]buildRes, len(ps))
			wg.Add(1)
			go func(w int) {
				defer wg.Done()
				<-start
				for k := range ps {
					i := (k + w) % len(ps)
					out.Conc[w][i] = buildJO(ps[i].root, ps[i].files, ps[i].name)
				}
			}(w)
		}
		close(start)
		wg.Wait()
	default:
		out.End = "setup-error: unknown mode " + sc.Mode
	}
	return out
}

// buildJO builds and serialises with ToJson and ToOpenAPIJson
func buildJO(root string, files map[string][]byte, rootName string) buildRes {
	j, br := buildQuiet(root, files, rootName)
	if br.End != "ok" {
		return br
	}
	var parts []string
	for _, a := range []string{"J", "O"} {
		_, co := callAcc(&j, a)
		if co.Panic != "" {
			br.End = "panic"
			br.Panic = co.Panic
			br.Site = co.Site
		}
		parts = append(parts, a+"="+co.Sha+co.Err)
	}
	br.Sha = strings.Join(parts, ",")
	return br
}

func cmdSer(args []string) {
	in := bufio.NewScanner(os.Stdin)
	in.Buffer(make([]byte, 1<<20), 1<<28)
	w := bufio.NewWriter(os.Stdout)
	defer w.Flush()
	enc := json.NewEncoder(w)
	enc.SetEscapeHTML(false)
	for in.Scan() {
		line := strings.TrimSpace(in.Text())
		if line == "" {
			continue
		}
		var sc serCase
		if err := json.Unmarshal([]byte(line), &sc); err != nil {
			fmt.Fprintln(os.Stderr, "bad case:", err)
			os.Exit(2)
		}
		fmt.Fprintf(w, "#START %s\n", sc.ID)
		w.Flush()
		_ = enc.Encode(serOne(&sc))
		w.Flush()
	}
}
