package main

import (
	"bufio"
	"encoding/hex"
	"encoding/json"
	"fmt"
	"os"
	"strings"

	"github.com/jsightapi/jsight-schema-core/fs"
	sckit "github.com/jsightapi/jsight-schema-core/kit"
	"github.com/jsightapi/jsight-schema-core/notations/jschema"
	"github.com/jsightapi/jsight-schema-core/rules/enum"

	"github.com/jsightapi/jsight-api-core/jerr"
	"github.com/jsightapi/jsight-api-core/scanner"
)

var lexKindNames = map[scanner.LexemeType]string{
	scanner.Keyword: "K", scanner.Parameter: "P", scanner.Annotation: "A", scanner.Schema: "S",
	scanner.Json: "J", scanner.Text: "T", scanner.ContextExplicitOpening: "O",
	scanner.ContextExplicitClosing: "C", scanner.Enum: "E",
}

type oracleEntry struct {
	Kind string `json:"k"` // J | E
	Pos  uint   `json:"pos"`
	Len  *uint  `json:"len,omitempty"`
	Msg  string `json:"msg,omitempty"`
	Idx  uint   `json:"idx"`
	Pan  string `json:"panic,omitempty"`
}

type scanOut struct {
	ID      string        `json:"id"`
	Lexemes []string      `json:"lex"`
	End     string        `json:"end"` // ok | err | panic
	Msg     string        `json:"msg,omitempty"`
	Idx     uint          `json:"idx"`
	Traj    []string      `json:"traj"`
	Oracle  []oracleEntry `json:"oracle"`
}

func confString(c scanner.VerifConf) string {
	var b strings.Builder
	b.WriteString(c.Step)
	b.WriteString("|")
	b.WriteString(strings.Join(c.StepStack, ","))
	b.WriteString("|")
	for i, e := range c.Finds {
		if i > 0 {
			b.WriteString(",")
		}
		fmt.Fprintf(&b, "%s@%d", e.Type, e.Pos)
	}
	b.WriteString("|")
	for i, e := range c.Stack {
		if i > 0 {
			b.WriteString(",")
		}
		fmt.Fprintf(&b, "%s@%d", e.Type, e.Pos)
	}
	b.WriteString("|")
	for i, p := range c.Params {
		if i > 0 {
			b.WriteString(",")
		}
		fmt.Fprintf(&b, "%d-%d", p[0], p[1])
	}
	fmt.Fprintf(&b, "|%d", int64(int(c.Cur)))
	return b.String()
}

func oracleAt(data []byte, kind string, pos uint) (e oracleEntry) {
	e.Kind, e.Pos = kind, pos
	defer func() {
		if r := recover(); r != nil {
			e.Pan = fmt.Sprint(r)
		}
	}()
	if int(pos) > len(data) {
		e.Pan = "position outside data"
		return e
	}
	file := fs.NewFile("", data[pos:])
	var l uint
	var err error
	if kind == "J" {
		l, err = jschema.FromFile(file).Len()
	} else {
		l, err = enum.FromFile(file).Len()
	}
	if err != nil {
		ce := sckit.ConvertError(file, err)
		e.Msg = ce.Message()
		e.Idx = ce.Index()
		return e
	}
	e.Len = &l
	return e
}

// scanOne runs the real scanner over data, recording lexemes, the configuration after every
// Next() call and the oracle (schema/enum length) answers at every position where a body began.
func scanOne(id string, data []byte, withTraj bool) (out scanOut) {
	out.ID = id
	out.Lexemes = []string{}
	out.Traj = []string{}
	out.Oracle = []oracleEntry{}
	seen := map[string]bool{}
	var sc *scanner.Scanner
	note := func() {
		c := sc.VerifSnapshot()
		if withTraj {
			out.Traj = append(out.Traj, confString(c))
		}
		for _, l := range [][]scanner.VerifEvent{c.Finds, c.Stack} {
			for _, e := range l {
				k := ""
				switch e.Type {
				case "SchemaBegin":
					k = "J"
				case "EnumBegin":
					k = "E"
				}
				if k != "" {
					key := fmt.Sprintf("%s:%d", k, e.Pos)
					if !seen[key] {
						seen[key] = true
						out.Oracle = append(out.Oracle, oracleAt(data, k, e.Pos))
					}
				}
			}
		}
	}
	defer func() {
		if r := recover(); r != nil {
			out.End = "panic"
			out.Msg = fmt.Sprint(r)
			if sc != nil {
				func() {
					defer func() { _ = recover() }()
					note()
				}()
			}
		}
	}()
	sc = scanner.NewJApiScanner(fs.NewFile("root.jst", data))
	limit := 4*len(data) + 64
	for i := 0; ; i++ {
		if i > limit {
			out.End = "hang"
			return out
		}
		lex, je := sc.Next()
		note()
		if je != nil {
			out.End = "err"
			out.Msg = je.Msg
			out.Idx = uint(je.Index)
			return out
		}
		if lex == nil {
			out.End = "ok"
			return out
		}
		out.Lexemes = append(out.Lexemes, fmt.Sprintf("%s:%d:%d", lexKindNames[lex.Type()], int64(int(lex.Begin())), int64(int(lex.End()))))
		if lex.Type() == scanner.Schema || lex.Type() == scanner.Enum {
			k := "J"
			if lex.Type() == scanner.Enum {
				k = "E"
			}
			key := fmt.Sprintf("%s:%d", k, uint(lex.Begin()))
			if !seen[key] {
				seen[key] = true
				out.Oracle = append(out.Oracle, oracleAt(data, k, uint(lex.Begin())))
			}
		}
	}
}

var _ = jerr.RuntimeFailure

// cmdScan: stdin lines "<id> <hex>" → stdout one JSON object per line.
func cmdScan(args []string) {
	withTraj := true
	for _, a := range args {
		if a == "-notraj" {
			withTraj = false
		}
	}
	in := bufio.NewScanner(os.Stdin)
	in.Buffer(make([]byte, 1<<20), 1<<26)
	w := bufio.NewWriter(os.Stdout)
	defer w.Flush()
	enc := json.NewEncoder(w)
	for in.Scan() {
		f := strings.Fields(in.Text())
		if len(f) == 0 {
			continue
		}
		h := ""
		if len(f) > 1 {
			h = f[1]
		}
		data, err := hex.DecodeString(h)
		if err != nil {
			fmt.Fprintln(os.Stderr, "bad hex in case", f[0])
			os.Exit(2)
		}
		_ = enc.Encode(scanOne(f[0], data, withTraj))
	}
}
