module verifharness

go 1.18

require (
	github.com/jsightapi/jsight-api-core v0.0.0
	github.com/jsightapi/jsight-schema-core v0.2.0
)

require github.com/lucasjones/reggen v0.0.0-20200904144131-37ba4fa293bb // indirect

replace github.com/jsightapi/jsight-api-core => /repo
