// verifharness: runs jsight-api-core (built from /repo's working tree with -tags verif) on
// generated cases and prints canonical observables, one JSON object per line.
package main

import (
	"fmt"
	"os"
)

func main() {
	if len(os.Args) < 2 {
		fmt.Fprintln(os.Stderr, "usage: harness <scan|...> [flags]")
		os.Exit(2)
	}
	switch os.Args[1] {
	case "scan":
		cmdScan(os.Args[2:])
	case "tree":
		cmdTree(os.Args[2:])
	case "build":
		cmdBuild(os.Args[2:])
	case "ser":
		cmdSer(os.Args[2:])
	default:
		fmt.Fprintln(os.Stderr, "unknown command", os.Args[1])
		os.Exit(2)
	}
}
