// go2coq: translates the byte-level scanner of jsight-api-core (and a few tables) from
// Go source into Coq source (tie A of DESIGN.md).  Standard library only.
//
// usage: go2coq <repo> <outdir>
//
// Anything outside the supported subset aborts with a non-zero status and a message that
// names the file and line: a broken tie is reported, never papered over.
package main

import (
	"bytes"
	"fmt"
	"go/ast"
	"go/parser"
	"go/printer"
	"go/token"
	"os"
	"path/filepath"
	"sort"
	"strconv"
	"strings"
)

var fset = token.NewFileSet()

type failure struct{ msg string }

func failf(n ast.Node, format string, a ...interface{}) {
	pos := ""
	if n != nil {
		pos = fset.Position(n.Pos()).String() + ": "
	}
	panic(failure{pos + fmt.Sprintf(format, a...)})
}

func src(n ast.Node) string {
	var b bytes.Buffer
	_ = printer.Fprint(&b, fset, n)
	return b.String()
}

func parseDir(dir string) map[string]*ast.File {
	pkgs, err := parser.ParseDir(fset, dir, func(fi os.FileInfo) bool {
		return !strings.HasSuffix(fi.Name(), "_test.go") && !strings.HasPrefix(fi.Name(), "verif_")
	}, parser.ParseComments)
	if err != nil {
		panic(failure{err.Error()})
	}
	res := map[string]*ast.File{}
	for _, p := range pkgs {
		for name, f := range p.Files {
			res[name] = f
		}
	}
	return res
}

func coqString(s string) string {
	return "\"" + strings.ReplaceAll(s, "\"", "\"\"") + "\""
}

func writeIfChanged(path, content string) {
	old, err := os.ReadFile(path)
	if err == nil && string(old) == content {
		return
	}
	if err := os.WriteFile(path, []byte(content), 0o644); err != nil {
		panic(failure{err.Error()})
	}
}

func main() {
	if len(os.Args) != 3 {
		fmt.Fprintln(os.Stderr, "usage: go2coq <repo> <outdir>")
		os.Exit(2)
	}
	repo, out := os.Args[1], os.Args[2]
	defer func() {
		if r := recover(); r != nil {
			if f, ok := r.(failure); ok {
				fmt.Fprintln(os.Stderr, "go2coq: UNSUPPORTED: "+f.msg)
				os.Exit(3)
			}
			panic(r)
		}
	}()
	jerrConsts := stringConsts(parseDir(filepath.Join(repo, "jerr")))
	writeIfChanged(filepath.Join(out, "ScannerProg.v"), genScanner(repo, jerrConsts))
	writeIfChanged(filepath.Join(out, "LexemeEvents.v"), genLexemeEvents(repo))
	writeIfChanged(filepath.Join(out, "DirectiveTables.v"), genDirectiveTables(repo))
	writeIfChanged(filepath.Join(out, "IncludeName.v"), genIncludeName(repo, jerrConsts))
	writeIfChanged(filepath.Join(out, "ErrConsts.v"), genErrConsts(jerrConsts))
	writeIfChanged(filepath.Join(out, "Inventory.v"), genInventory(repo))
	writeIfChanged(filepath.Join(out, "JsonTags.v"), genJSONTags(repo))
}

// ---------------------------------------------------------------------------------------
// constants

func stringConsts(files map[string]*ast.File) map[string]string {
	res := map[string]string{}
	for _, f := range files {
		for _, d := range f.Decls {
			gd, ok := d.(*ast.GenDecl)
			if !ok || gd.Tok != token.CONST {
				continue
			}
			for _, s := range gd.Specs {
				vs := s.(*ast.ValueSpec)
				for i, n := range vs.Names {
					if i < len(vs.Values) {
						if bl, ok := vs.Values[i].(*ast.BasicLit); ok && bl.Kind == token.STRING {
							v, err := strconv.Unquote(bl.Value)
							if err == nil {
								res[n.Name] = v
							}
						}
					}
				}
			}
		}
	}
	return res
}

func byteConsts(files map[string]*ast.File) map[string]int {
	res := map[string]int{}
	for _, f := range files {
		for _, d := range f.Decls {
			gd, ok := d.(*ast.GenDecl)
			if !ok || gd.Tok != token.CONST {
				continue
			}
			for _, s := range gd.Specs {
				vs := s.(*ast.ValueSpec)
				for i, n := range vs.Names {
					if i < len(vs.Values) {
						if bl, ok := vs.Values[i].(*ast.BasicLit); ok {
							switch bl.Kind {
							case token.CHAR:
								r, _, _, err := strconv.UnquoteChar(bl.Value[1:len(bl.Value)-1], '\'')
								if err == nil && r < 256 {
									res[n.Name] = int(r)
								}
							case token.INT:
								v, err := strconv.Atoi(bl.Value)
								if err == nil && v >= 0 && v < 256 {
									res[n.Name] = v
								}
							}
						}
					}
				}
			}
		}
	}
	return res
}

// ---------------------------------------------------------------------------------------
// scanner program

type scannerTr struct {
	files      map[string]*ast.File
	funcs      map[string]*ast.FuncDecl // top-level functions and Scanner methods by name
	states     []string
	stateIdx   map[string]int
	bconst     map[string]int
	jerrConsts map[string]string
	events     map[string]bool
	depth      int
	repo       string
}

var eventNames = []string{"KeywordBegin", "KeywordEnd", "ParameterBegin", "ParameterEnd",
	"AnnotationBegin", "AnnotationEnd", "SchemaBegin", "SchemaEnd", "TextBegin", "TextEnd",
	"ContextOpen", "ContextClose", "EnumBegin", "EnumEnd"}

func isStateSig(fd *ast.FuncDecl) bool {
	if fd.Recv != nil || fd.Type.Params == nil || fd.Type.Results == nil {
		return false
	}
	ps := fd.Type.Params.List
	if len(ps) != 2 || len(fd.Type.Results.List) != 1 {
		return false
	}
	if src(ps[0].Type) != "*Scanner" || src(ps[1].Type) != "byte" {
		return false
	}
	return src(fd.Type.Results.List[0].Type) == "*jerr.JApiError"
}

func genScanner(repo string, jerrConsts map[string]string) string {
	t := &scannerTr{
		files:      parseDir(filepath.Join(repo, "scanner")),
		funcs:      map[string]*ast.FuncDecl{},
		stateIdx:   map[string]int{},
		jerrConsts: jerrConsts,
		events:     map[string]bool{},
		repo:       repo,
	}
	t.bconst = byteConsts(t.files)
	for _, e := range eventNames {
		t.events[e] = true
	}
	var names []string
	for n := range t.files {
		names = append(names, n)
	}
	sort.Strings(names)
	for _, n := range names {
		for _, d := range t.files[n].Decls {
			if fd, ok := d.(*ast.FuncDecl); ok {
				t.funcs[fd.Name.Name] = fd
				if isStateSig(fd) {
					t.states = append(t.states, fd.Name.Name)
				}
			}
		}
	}
	sort.Strings(t.states)
	for i, s := range t.states {
		t.stateIdx[s] = i
	}

	t.checkPinned()

	var b strings.Builder
	b.WriteString("(* GENERATED by tools/go2coq from /repo/scanner — do not edit. *)\n")
	b.WriteString("From JS Require Import Base.\nOpen Scope N_scope.\nOpen Scope string_scope.\n\n")
	for i, s := range t.states {
		fmt.Fprintf(&b, "Definition st_%s : state := %d.\n", s, i)
	}
	b.WriteString("\nDefinition prog_table : list (string * stmt) := [\n")
	for i, s := range t.states {
		fd := t.funcs[s]
		env := &trEnv{cname: paramName(fd, 1), sname: paramName(fd, 0)}
		body := t.block(fd.Body.List, env)
		sep := ";"
		if i == len(t.states)-1 {
			sep = ""
		}
		fmt.Fprintf(&b, "  (%s,\n   %s)%s\n", coqString(s), stmtList(body, 3), sep)
	}
	b.WriteString("].\n\n")
	// helper predicates translated from step-helpers.go
	nlBytes, wsBytes := byteClasses(t.repo)
	b.WriteString("Definition is_newline_cond : cond := " + byteSetCond(nlBytes) + ".\n")
	b.WriteString("Definition is_whitespace_cond : cond := " + byteSetCond(wsBytes) + ".\n")
	fmt.Fprintf(&b, "Definition eof_byte : N := %d.\n", t.bconst["EOF"])
	fmt.Fprintf(&b, "Definition initial_state : state := st_%s.\n", t.initialState())
	return b.String()
}

func paramName(fd *ast.FuncDecl, i int) string {
	p := fd.Type.Params.List[i]
	if len(p.Names) == 0 {
		return "_"
	}
	return p.Names[0].Name
}

// initialState reads `step: stateX` from NewJApiScanner.
func (t *scannerTr) initialState() string {
	fd := t.funcs["NewJApiScanner"]
	if fd == nil {
		failf(nil, "NewJApiScanner not found")
	}
	found := ""
	ast.Inspect(fd, func(n ast.Node) bool {
		if kv, ok := n.(*ast.KeyValueExpr); ok {
			if k, ok := kv.Key.(*ast.Ident); ok && k.Name == "step" {
				if v, ok := kv.Value.(*ast.Ident); ok {
					found = v.Name
				}
			}
		}
		return true
	})
	if _, ok := t.stateIdx[found]; !ok {
		failf(fd, "initial step of NewJApiScanner not recognised")
	}
	return found
}

// Functions whose bodies the hand-written model mirrors; pinned by normalised source text.
// A change here is reported as a broken tie (the model's counterpart must be re-validated).
var pinned = map[string]string{
	"readSchemaWithJsc": "func (s *Scanner) readSchemaWithJsc() (uint, *jerr.JApiError) {\n\tfc := s.file.Content()\n\tfile := fs.NewFile(\"\", fc.Sub(s.curIndex, fc.LenIndex()))\n\n\tl, err := jschema.FromFile(file).Len()\n\tif err != nil {\n\t\terr := kit.ConvertError(file, err)\n\t\treturn 0, s.japiError(err.Message(), s.curIndex+bytes.Index(err.Index()))\n\t}\n\treturn l, nil\n}",
	"readEnumWithJsc":   "func (s *Scanner) readEnumWithJsc() (uint, *jerr.JApiError) {\n\tfc := s.file.Content()\n\tfile := fs.NewFile(\"\", fc.Sub(s.curIndex, fc.LenIndex()))\n\n\tl, err := enum.FromFile(file).Len()\n\tif err != nil {\n\t\terr := kit.ConvertError(file, err)\n\t\treturn 0, s.japiError(err.Message(), s.curIndex+bytes.Index(err.Index()))\n\t}\n\treturn l, nil\n}",
}

func (t *scannerTr) checkPinned() {
	for name, want := range pinned {
		fd := t.funcs[name]
		if fd == nil {
			failf(nil, "pinned function %s not found", name)
		}
		cp := *fd
		cp.Doc = nil
		got := src(&cp)
		if got != want {
			failf(fd, "function %s differs from the form the model mirrors:\n%s", name, got)
		}
	}
}

// byteSetCond: c is one of the bytes, as a condition of the action language (in ascending order)
func byteSetCond(bs []int) string {
	if len(bs) == 0 {
		return "CNot CTrue"
	}
	r := fmt.Sprintf("CByte %d", bs[len(bs)-1])
	for i := len(bs) - 2; i >= 0; i-- {
		r = fmt.Sprintf("COr (CByte %d) (%s)", bs[i], r)
	}
	return r
}

// boolFuncCond translates `func f(c byte) bool { return <cond> }`.
func (t *scannerTr) boolFuncCond(name string) string {
	fd := t.funcs[name]
	if fd == nil || len(fd.Body.List) != 1 {
		failf(fd, "%s: expected a single return", name)
	}
	rs, ok := fd.Body.List[0].(*ast.ReturnStmt)
	if !ok || len(rs.Results) != 1 {
		failf(fd, "%s: expected a single return", name)
	}
	env := &trEnv{cname: paramName(fd, 0), sname: "_none_", noHelpers: true}
	return t.cond(rs.Results[0], env)
}

type trEnv struct {
	cname     string            // name of the byte parameter
	sname     string            // name of the scanner parameter / receiver
	strs      map[string]string // string parameters bound by inlining
	evs       map[string]string // LexemeEventType parameters bound by inlining: name -> event constant
	states    map[string]string // stepFunc parameters bound by inlining and local stepFunc variables: name -> "st_x" ("" = not assigned yet)
	void      bool              // inside a helper without result: a bare return is the end of the helper
	noHelpers bool
}

func (e *trEnv) clone() *trEnv {
	c := *e
	if e.states != nil {
		c.states = map[string]string{}
		for k, v := range e.states {
			c.states[k] = v
		}
	}
	return &c
}

func (e *trEnv) hasLocals() bool { return len(e.states) > 0 }

type st struct {
	kind string // coq constructor application, already rendered, for leaves
	cond string
	t, e []st
	isIf bool
}

func leaf(s string) st { return st{kind: s} }

func stmtList(l []st, ind int) string {
	if len(l) == 0 {
		return "SSkip"
	}
	pad := strings.Repeat(" ", ind+6)
	var parts []string
	for _, s := range l {
		if s.isIf {
			parts = append(parts, fmt.Sprintf("SIf (%s)\n%s  (%s)\n%s  (%s)", s.cond, pad, stmtList(s.t, ind+3), pad, stmtList(s.e, ind+3)))
		} else {
			parts = append(parts, s.kind)
		}
	}
	return "block [" + strings.Join(parts, ";\n"+pad+" ") + "]"
}

func (t *scannerTr) stateRef(e ast.Expr, env *trEnv) (string, bool) {
	if id, ok := e.(*ast.Ident); ok {
		if env != nil && env.states != nil {
			if v, bound := env.states[id.Name]; bound {
				if v == "" {
					failf(e, "step variable %s is read before it is assigned on this path", id.Name)
				}
				return v, true
			}
		}
		if _, ok := t.stateIdx[id.Name]; ok {
			return "st_" + id.Name, true
		}
	}
	return "", false
}

// terminates: the statement list ends with a return on every path we can see syntactically
func endsWithReturn(list []ast.Stmt) bool {
	if len(list) == 0 {
		return false
	}
	_, ok := list[len(list)-1].(*ast.ReturnStmt)
	return ok
}

func cat(a, b []ast.Stmt) []ast.Stmt {
	r := make([]ast.Stmt, 0, len(a)+len(b))
	r = append(r, a...)
	return append(r, b...)
}

func (t *scannerTr) block(list []ast.Stmt, env *trEnv) []st {
	var out []st
	for i := 0; i < len(list); i++ {
		s := list[i]
		// a local variable holding a step function: `var next stepFunc`, `next := stateX`, `next = stateX`
		if ds, ok := s.(*ast.DeclStmt); ok {
			if gd, ok := ds.Decl.(*ast.GenDecl); ok && gd.Tok == token.VAR && len(gd.Specs) == 1 {
				if vs, ok := gd.Specs[0].(*ast.ValueSpec); ok && len(vs.Names) == 1 && vs.Type != nil && src(vs.Type) == "stepFunc" && len(vs.Values) <= 1 {
					if env.states == nil {
						env.states = map[string]string{}
					}
					val := ""
					if len(vs.Values) == 1 {
						r, ok := t.stateRef(vs.Values[0], env)
						if !ok {
							failf(s, "unsupported initial value of a step variable: %s", src(s))
						}
						val = r
					}
					env.states[vs.Names[0].Name] = val
					continue
				}
			}
			failf(s, "unsupported declaration: %s", src(s))
		}
		if as, ok := s.(*ast.AssignStmt); ok && len(as.Lhs) == 1 && len(as.Rhs) == 1 {
			if id, ok := as.Lhs[0].(*ast.Ident); ok {
				_, isLocal := env.states[id.Name]
				if r, isState := t.stateRef(as.Rhs[0], env); isState && (as.Tok == token.DEFINE || (as.Tok == token.ASSIGN && isLocal)) {
					if _, isParam := t.stateIdx[id.Name]; isParam {
						failf(s, "assignment to a step function name: %s", src(s))
					}
					if env.states == nil {
						env.states = map[string]string{}
					}
					env.states[id.Name] = r
					continue
				}
			}
		}
		// with local step variables in scope the rest of the block is translated inside every branch
		// (each branch has its own binding): `if`/`switch` followed by statements that read the variable
		if env.hasLocals() && i+1 < len(list) {
			rest := list[i+1:]
			switch x := s.(type) {
			case *ast.IfStmt:
				if x.Init == nil {
					c := t.cond(x.Cond, env)
					thl := x.Body.List
					if !endsWithReturn(thl) {
						thl = cat(thl, rest)
					}
					th := t.block(thl, env.clone())
					var ell []ast.Stmt
					switch e := x.Else.(type) {
					case nil:
						ell = rest
					case *ast.BlockStmt:
						ell = e.List
						if !endsWithReturn(ell) {
							ell = cat(ell, rest)
						}
					case *ast.IfStmt:
						ell = cat([]ast.Stmt{e}, rest)
					default:
						failf(s, "unsupported else")
					}
					el := t.block(ell, env.clone())
					return append(out, st{isIf: true, cond: c, t: th, e: el})
				}
			case *ast.SwitchStmt:
				return append(out, t.switchStmtK(x, env, rest)...)
			}
		}
		// oracle pattern: n, je := s.readXWithJsc(); if je != nil {return je}; if n > 0 {s.curIndex += bytes.Index(n-1)}
		if as, ok := s.(*ast.AssignStmt); ok && as.Tok == token.DEFINE && len(as.Lhs) == 2 && len(as.Rhs) == 1 {
			if k, ok := t.oracleCall(as.Rhs[0], env); ok && i+2 < len(list) {
				n, je := src(as.Lhs[0]), src(as.Lhs[1])
				w1 := fmt.Sprintf("if %s != nil {\n\treturn %s\n}", je, je)
				w2 := fmt.Sprintf("if %s > 0 {\n\t%s.curIndex += bytes.Index(%s - 1)\n}", n, env.sname, n)
				if src(list[i+1]) == w1 && (src(list[i+2]) == w2 || t.isSkipHelperCall(list[i+2], n, env)) {
					out = append(out, leaf("SOracle "+k))
					i += 2
					continue
				}
			}
			failf(s, "unsupported assignment: %s", src(s))
		}
		out = append(out, t.stmt(s, env)...)
	}
	return out
}

// isSkipHelperCall: the statement is `s.h(n)` for a helper method h(x uint) whose whole body is
// `if x > 0 { s.curIndex += bytes.Index(x - 1) }` - the third statement of the oracle pattern, extracted
func (t *scannerTr) isSkipHelperCall(st ast.Stmt, n string, env *trEnv) bool {
	es, ok := st.(*ast.ExprStmt)
	if !ok {
		return false
	}
	call, ok := es.X.(*ast.CallExpr)
	if !ok || len(call.Args) != 1 || src(call.Args[0]) != n {
		return false
	}
	sel, ok := call.Fun.(*ast.SelectorExpr)
	if !ok || src(sel.X) != env.sname {
		return false
	}
	fd := t.funcs[sel.Sel.Name]
	if fd == nil || fd.Recv == nil || fd.Type.Results != nil || len(fd.Recv.List) != 1 || len(fd.Recv.List[0].Names) != 1 ||
		len(fd.Type.Params.List) != 1 || len(fd.Type.Params.List[0].Names) != 1 || len(fd.Body.List) != 1 {
		return false
	}
	rs, x := fd.Recv.List[0].Names[0].Name, fd.Type.Params.List[0].Names[0].Name
	want := fmt.Sprintf("if %s > 0 {\n\t%s.curIndex += bytes.Index(%s - 1)\n}", x, rs, x)
	return src(fd.Body.List[0]) == want
}

func (t *scannerTr) oracleCall(e ast.Expr, env *trEnv) (string, bool) {
	switch src(e) {
	case env.sname + ".readSchemaWithJsc()":
		return "OJSchema", true
	case env.sname + ".readEnumWithJsc()":
		return "OEnum", true
	}
	return "", false
}

func (t *scannerTr) stmt(s ast.Stmt, env *trEnv) []st {
	sn := env.sname
	switch x := s.(type) {
	case *ast.ReturnStmt:
		if len(x.Results) != 1 {
			failf(s, "unsupported return")
		}
		return t.ret(x.Results[0], env)
	case *ast.AssignStmt:
		if len(x.Lhs) == 1 && len(x.Rhs) == 1 {
			lhs := src(x.Lhs[0])
			if lhs == sn+".step" && x.Tok == token.ASSIGN {
				if r, ok := t.stateRef(x.Rhs[0], env); ok {
					return []st{leaf("SSetStep " + r)}
				}
				if src(x.Rhs[0]) == sn+".stepStack.Pop()" {
					return []st{leaf("SPop")}
				}
			}
			if lhs == sn+".curIndex" && x.Tok == token.SUB_ASSIGN {
				if bl, ok := x.Rhs[0].(*ast.BasicLit); ok && bl.Kind == token.INT {
					return []st{leaf("SAddCur (-" + bl.Value + ")%Z")}
				}
			}
		}
		failf(s, "unsupported assignment: %s", src(s))
	case *ast.IncDecStmt:
		if src(x.X) == sn+".curIndex" && x.Tok == token.DEC {
			return []st{leaf("SAddCur (-1)%Z")}
		}
		failf(s, "unsupported inc/dec: %s", src(s))
	case *ast.ExprStmt:
		call, ok := x.X.(*ast.CallExpr)
		if !ok {
			failf(s, "unsupported expression statement")
		}
		fn := src(call.Fun)
		switch {
		case fn == sn+".stepStack.Push" && len(call.Args) == 1:
			if r, ok := t.stateRef(call.Args[0], env); ok {
				return []st{leaf("SPush " + r)}
			}
			if src(call.Args[0]) == sn+".step" {
				return []st{leaf("SPushCur")}
			}
		case fn == sn+".found" && len(call.Args) == 1:
			return []st{leaf(fmt.Sprintf("SFound %s 0%%Z", t.event(call.Args[0], env)))}
		case fn == sn+".foundAt" && len(call.Args) == 2:
			return []st{leaf(fmt.Sprintf("SFound %s %s", t.event(call.Args[1], env), t.curOffset(call.Args[0], env)))}
		}
		// a helper without result: s.m(args) or f(s, args)
		if sel, ok := call.Fun.(*ast.SelectorExpr); ok && src(sel.X) == sn {
			if fd := t.funcs[sel.Sel.Name]; fd != nil && fd.Recv != nil && fd.Type.Results == nil {
				return t.inlineVoid(fd, call, env, true)
			}
		}
		if id, ok := call.Fun.(*ast.Ident); ok {
			if fd := t.funcs[id.Name]; fd != nil && fd.Recv == nil && fd.Type.Results == nil {
				return t.inlineVoid(fd, call, env, false)
			}
		}
		failf(s, "unsupported call statement: %s", src(s))
	case *ast.IfStmt:
		if x.Init != nil {
			failf(s, "unsupported if with init")
		}
		c := t.cond(x.Cond, env)
		th := t.block(x.Body.List, env)
		var el []st
		switch e := x.Else.(type) {
		case nil:
		case *ast.BlockStmt:
			el = t.block(e.List, env)
		case *ast.IfStmt:
			el = t.stmt(e, env)
		default:
			failf(s, "unsupported else")
		}
		return []st{{isIf: true, cond: c, t: th, e: el}}
	case *ast.SwitchStmt:
		return t.switchStmt(x, env)
	case *ast.BlockStmt:
		return t.block(x.List, env)
	}
	failf(s, "unsupported statement: %s", src(s))
	return nil
}

func (t *scannerTr) event(e ast.Expr, env *trEnv) string {
	id, ok := e.(*ast.Ident)
	if ok && env != nil && env.evs != nil {
		if v, bound := env.evs[id.Name]; bound {
			return v
		}
	}
	if !ok || !t.events[id.Name] {
		failf(e, "unknown lexeme event %s", src(e))
	}
	return id.Name
}

// curOffset: s.curIndex | s.curIndex-k  → Coq Z literal
func (t *scannerTr) curOffset(e ast.Expr, env *trEnv) string {
	if src(e) == env.sname+".curIndex" {
		return "0%Z"
	}
	if be, ok := e.(*ast.BinaryExpr); ok && src(be.X) == env.sname+".curIndex" {
		if bl, ok := be.Y.(*ast.BasicLit); ok && bl.Kind == token.INT {
			switch be.Op {
			case token.SUB:
				return "(-" + bl.Value + ")%Z"
			case token.ADD:
				return bl.Value + "%Z"
			}
		}
	}
	failf(e, "unsupported index expression %s", src(e))
	return ""
}

func (t *scannerTr) byteVal(e ast.Expr) (int, bool) {
	switch x := e.(type) {
	case *ast.BasicLit:
		if x.Kind == token.CHAR {
			r, _, _, err := strconv.UnquoteChar(x.Value[1:len(x.Value)-1], '\'')
			if err == nil && r < 256 {
				return int(r), true
			}
		}
		if x.Kind == token.INT {
			v, err := strconv.Atoi(x.Value)
			if err == nil && v >= 0 && v < 256 {
				return v, true
			}
		}
	case *ast.Ident:
		if v, ok := t.bconst[x.Name]; ok {
			return v, true
		}
	}
	return 0, false
}

func (t *scannerTr) cond(e ast.Expr, env *trEnv) string {
	switch x := e.(type) {
	case *ast.ParenExpr:
		return t.cond(x.X, env)
	case *ast.UnaryExpr:
		if x.Op == token.NOT {
			return "CNot (" + t.cond(x.X, env) + ")"
		}
	case *ast.BinaryExpr:
		switch x.Op {
		case token.LAND:
			return "CAnd (" + t.cond(x.X, env) + ") (" + t.cond(x.Y, env) + ")"
		case token.LOR:
			return "COr (" + t.cond(x.X, env) + ") (" + t.cond(x.Y, env) + ")"
		case token.EQL, token.NEQ:
			var c string
			if id, ok := x.X.(*ast.Ident); ok && id.Name == env.cname {
				if v, ok := t.byteVal(x.Y); ok {
					c = fmt.Sprintf("CByte %d", v)
				}
			} else if call, ok := x.X.(*ast.CallExpr); ok && src(call.Fun) == env.sname+".data.Byte" && len(call.Args) == 1 {
				if be, ok := call.Args[0].(*ast.BinaryExpr); ok && be.Op == token.SUB && src(be.X) == env.sname+".curIndex" {
					if bl, ok := be.Y.(*ast.BasicLit); ok && bl.Kind == token.INT {
						if v, ok := t.byteVal(x.Y); ok {
							c = fmt.Sprintf("CPrevByte %s%%Z %d", bl.Value, v)
						}
					}
				}
			}
			if c != "" {
				if x.Op == token.NEQ {
					return "CNot (" + c + ")"
				}
				return c
			}
		}
	case *ast.CallExpr:
		fn := src(x.Fun)
		if !env.noHelpers {
			switch {
			case fn == "IsNewLine" && len(x.Args) == 1 && src(x.Args[0]) == env.cname:
				return "CNewLine"
			case fn == "isWhitespace" && len(x.Args) == 1 && src(x.Args[0]) == env.cname:
				return "CWhitespace"
			case fn == env.sname+".isDirectiveParameterHasTypeOrAnyOrEmpty" && len(x.Args) == 0:
				return "CCtx QTypeOrAnyOrEmpty"
			case fn == env.sname+".isDirectiveParameterHasAnyOrEmpty" && len(x.Args) == 0:
				return "CCtx QAnyOrEmpty"
			case fn == env.sname+".isDirectiveParameterHasRegexNotation" && len(x.Args) == 0:
				return "CCtx QRegex"
			case fn == env.sname+".isDirective" && len(x.Args) == 0:
				return "CCtx QIsDirective"
			}
		}
	}
	failf(e, "unsupported condition %s", src(e))
	return ""
}

// switch label as a condition on c
func (t *scannerTr) label(e ast.Expr, env *trEnv) string {
	if v, ok := t.byteVal(e); ok {
		return fmt.Sprintf("CByte %d", v)
	}
	if call, ok := e.(*ast.CallExpr); ok && len(call.Args) == 1 && src(call.Args[0]) == env.cname {
		switch src(call.Fun) {
		case "caseNewLine":
			return "CNewLine"
		case "caseWhitespace":
			return "CWhitespace"
		}
	}
	failf(e, "unsupported switch label %s", src(e))
	return ""
}

func orConds(cs []string) string {
	if len(cs) == 0 {
		return "CNot CTrue"
	}
	r := cs[len(cs)-1]
	for i := len(cs) - 2; i >= 0; i-- {
		r = "COr (" + cs[i] + ") (" + r + ")"
	}
	return r
}

func (t *scannerTr) switchStmt(x *ast.SwitchStmt, env *trEnv) []st {
	return t.switchStmtK(x, env, nil)
}

// switchStmtK: the statements [rest] follow the switch and are translated at the end of every clause
// that does not end with a return (and after the switch when no clause is taken)
func (t *scannerTr) switchStmtK(x *ast.SwitchStmt, env *trEnv, rest []ast.Stmt) []st {
	if x.Init != nil {
		failf(x, "unsupported switch init")
	}
	tagless := x.Tag == nil
	if !tagless {
		if id, ok := x.Tag.(*ast.Ident); !ok || id.Name != env.cname {
			failf(x, "unsupported switch tag %s", src(x.Tag))
		}
	}
	type clause struct {
		cond string
		body []st
	}
	var clauses []clause
	var def []st
	hasDef := false
	for _, c := range x.Body.List {
		cc := c.(*ast.CaseClause)
		for _, s := range cc.Body {
			if br, ok := s.(*ast.BranchStmt); ok {
				failf(br, "unsupported branch statement in switch")
			}
		}
		bl := cc.Body
		if rest != nil && !endsWithReturn(bl) {
			bl = cat(bl, rest)
		}
		benv := env
		if rest != nil {
			benv = env.clone()
		}
		body := t.block(bl, benv)
		if cc.List == nil {
			def = body
			hasDef = true
			continue
		}
		var cs []string
		for _, l := range cc.List {
			if tagless {
				cs = append(cs, t.cond(l, env))
			} else {
				cs = append(cs, t.label(l, env))
			}
		}
		clauses = append(clauses, clause{orConds(cs), body})
	}
	if !hasDef && rest != nil {
		def = t.block(rest, env.clone())
	}
	res := def
	for i := len(clauses) - 1; i >= 0; i-- {
		res = []st{{isIf: true, cond: clauses[i].cond, t: clauses[i].body, e: res}}
	}
	return res
}

func (t *scannerTr) strArg(e ast.Expr, env *trEnv) string {
	switch x := e.(type) {
	case *ast.BasicLit:
		if x.Kind == token.STRING {
			v, err := strconv.Unquote(x.Value)
			if err == nil {
				return v
			}
		}
	case *ast.Ident:
		if env.strs != nil {
			if v, ok := env.strs[x.Name]; ok {
				return v
			}
		}
	case *ast.SelectorExpr:
		if id, ok := x.X.(*ast.Ident); ok && id.Name == "jerr" {
			if v, ok := t.jerrConsts[x.Sel.Name]; ok {
				return v
			}
		}
	case *ast.CallExpr:
		// fmt.Sprintf("%q character", RegexDelimiter) with constant byte arguments
		if src(x.Fun) == "fmt.Sprintf" && len(x.Args) >= 1 {
			if bl, ok := x.Args[0].(*ast.BasicLit); ok && bl.Kind == token.STRING {
				f, _ := strconv.Unquote(bl.Value)
				var args []interface{}
				for _, a := range x.Args[1:] {
					v, ok := t.byteVal(a)
					if !ok {
						failf(e, "unsupported Sprintf argument %s", src(a))
					}
					args = append(args, rune(v))
				}
				return fmt.Sprintf(f, args...)
			}
		}
	}
	failf(e, "unsupported string expression %s", src(e))
	return ""
}

func (t *scannerTr) ret(e ast.Expr, env *trEnv) []st {
	if id, ok := e.(*ast.Ident); ok && id.Name == "nil" {
		return []st{leaf("SRetNil")}
	}
	call, ok := e.(*ast.CallExpr)
	if !ok {
		failf(e, "unsupported return value %s", src(e))
	}
	fn := src(call.Fun)
	sn := env.sname
	switch {
	case fn == sn+".step" && len(call.Args) == 2 && src(call.Args[0]) == sn && src(call.Args[1]) == env.cname:
		return []st{leaf("SRetRedispatch")}
	case fn == sn+".japiErrorUnexpectedChar" && len(call.Args) == 2:
		return []st{leaf(fmt.Sprintf("SRetErr %s %s", coqString(t.strArg(call.Args[0], env)), coqString(t.strArg(call.Args[1], env))))}
	case fn == sn+".japiErrorBasic" && len(call.Args) == 1:
		return []st{leaf("SRetErrBasic " + coqString(t.strArg(call.Args[0], env)))}
	}
	// direct call of another state function
	if id, ok := call.Fun.(*ast.Ident); ok {
		if _, isState := t.stateIdx[id.Name]; isState {
			if len(call.Args) == 2 && src(call.Args[0]) == sn && src(call.Args[1]) == env.cname {
				return []st{leaf("SRetCall st_" + id.Name)}
			}
			failf(e, "state function called with unexpected arguments: %s", src(e))
		}
		// helper function f(s, "literal")
		if fd := t.funcs[id.Name]; fd != nil && fd.Recv == nil {
			return t.inline(fd, call, env, false)
		}
	}
	// method helper s.m(args)
	if sel, ok := call.Fun.(*ast.SelectorExpr); ok && src(sel.X) == sn {
		if fd := t.funcs[sel.Sel.Name]; fd != nil && fd.Recv != nil {
			return t.inline(fd, call, env, true)
		}
	}
	failf(e, "unsupported return value %s", src(e))
	return nil
}

func (t *scannerTr) inline(fd *ast.FuncDecl, call *ast.CallExpr, env *trEnv, method bool) []st {
	t.depth++
	defer func() { t.depth-- }()
	if t.depth > 4 {
		failf(call, "helper inlining too deep")
	}
	return t.inlineWith(fd, call, env, method, false)
}

// inlineVoid: a helper without result used as a statement; its body must not return early
func (t *scannerTr) inlineVoid(fd *ast.FuncDecl, call *ast.CallExpr, env *trEnv, method bool) []st {
	t.depth++
	defer func() { t.depth-- }()
	if t.depth > 4 {
		failf(call, "helper inlining too deep")
	}
	var hasReturn func(list []ast.Stmt) bool
	hasReturn = func(list []ast.Stmt) bool {
		found := false
		for _, s := range list {
			ast.Inspect(s, func(n ast.Node) bool {
				if _, ok := n.(*ast.ReturnStmt); ok {
					found = true
				}
				return true
			})
		}
		return found
	}
	if hasReturn(fd.Body.List) {
		failf(call, "helper %s without result returns early: not supported", fd.Name.Name)
	}
	return t.inlineWith(fd, call, env, method, true)
}

func (t *scannerTr) inlineWith(fd *ast.FuncDecl, call *ast.CallExpr, env *trEnv, method bool, void bool) []st {
	if !void && (fd.Type.Results == nil || len(fd.Type.Results.List) != 1 || src(fd.Type.Results.List[0].Type) != "*jerr.JApiError") {
		failf(call, "helper %s has an unsupported result type", fd.Name.Name)
	}
	ne := &trEnv{cname: "_", sname: "_", strs: map[string]string{}, void: void}
	var params []*ast.Field
	for _, p := range fd.Type.Params.List {
		if len(p.Names) == 0 {
			params = append(params, &ast.Field{Names: []*ast.Ident{ast.NewIdent("_")}, Type: p.Type})
			continue
		}
		for _, n := range p.Names {
			params = append(params, &ast.Field{Names: []*ast.Ident{n}, Type: p.Type})
		}
	}
	if method {
		if len(fd.Recv.List) != 1 || len(fd.Recv.List[0].Names) != 1 {
			failf(fd, "unsupported receiver")
		}
		rt := src(fd.Recv.List[0].Type)
		if rt != "*Scanner" {
			failf(fd, "helper %s has receiver %s", fd.Name.Name, rt)
		}
		ne.sname = fd.Recv.List[0].Names[0].Name
	}
	if len(params) != len(call.Args) {
		failf(call, "argument count mismatch inlining %s", fd.Name.Name)
	}
	for i, p := range params {
		name := p.Names[0].Name
		switch src(p.Type) {
		case "*Scanner":
			if src(call.Args[i]) != env.sname {
				failf(call, "unexpected scanner argument")
			}
			ne.sname = name
		case "byte":
			if src(call.Args[i]) != env.cname {
				failf(call, "unexpected byte argument")
			}
			ne.cname = name
		case "string":
			ne.strs[name] = t.strArg(call.Args[i], env)
		case "stepFunc":
			r, ok := t.stateRef(call.Args[i], env)
			if !ok {
				failf(call, "unsupported step argument %s", src(call.Args[i]))
			}
			if ne.states == nil {
				ne.states = map[string]string{}
			}
			ne.states[name] = r
		case "LexemeEventType":
			if ne.evs == nil {
				ne.evs = map[string]string{}
			}
			ne.evs[name] = t.event(call.Args[i], env)
		default:
			failf(call, "unsupported parameter type %s", src(p.Type))
		}
	}
	return t.block(fd.Body.List, ne)
}

// ---------------------------------------------------------------------------------------
// lexeme-event.go tables

func genLexemeEvents(repo string) string {
	// The four methods of LexemeEventType are finite functions of the event: they are EVALUATED on the
	// working tree (a few lines compiled against it), not parsed, so any rewriting of their bodies
	// that keeps their results is invisible here and any change of a result is not.
	lexKinds := map[string]string{"Keyword": "LKeyword", "Parameter": "LParameter", "Annotation": "LAnnotation",
		"Schema": "LSchema", "Json": "LJson", "Text": "LText", "ContextExplicitOpening": "LContextOpen",
		"ContextExplicitClosing": "LContextClose", "Enum": "LEnum"}
	var kindNames []string
	for k := range lexKinds {
		kindNames = append(kindNames, k)
	}
	sort.Strings(kindNames)
	var pb strings.Builder
	pb.WriteString("package main\n\nimport (\n\t\"fmt\"\n\n\t\"github.com/jsightapi/jsight-api-core/scanner\"\n)\n\n")
	pb.WriteString("func lt(e scanner.LexemeEventType) (r string) {\n\tdefer func() {\n\t\tif recover() != nil {\n\t\t\tr = \"panic\"\n\t\t}\n\t}()\n\tswitch e.ToLexemeType() {\n")
	for _, k := range kindNames {
		fmt.Fprintf(&pb, "\tcase scanner.%s:\n\t\treturn %q\n", k, k)
	}
	pb.WriteString("\t}\n\treturn \"other\"\n}\n\nfunc main() {\n")
	for _, e := range eventNames {
		fmt.Fprintf(&pb, "\tfmt.Println(%q, scanner.%s.IsBeginning(), scanner.%s.IsEnding(), scanner.%s.IsSingle(), lt(scanner.%s))\n", e, e, e, e, e)
	}
	pb.WriteString("}\n")
	out := runAgainstRepo(repo, pb.String(), "evaluating the LexemeEventType methods")
	type row struct{ beg, end, single, lt string }
	rows := map[string]row{}
	for _, l := range strings.Split(strings.TrimSpace(out), "\n") {
		f := strings.Fields(l)
		if len(f) != 5 {
			panic(failure{"unexpected line from the LexemeEventType evaluation: " + l})
		}
		rows[f[0]] = row{f[1], f[2], f[3], f[4]}
	}
	var b strings.Builder
	b.WriteString("(* GENERATED by tools/go2coq from /repo/scanner/lexeme-event.go (evaluated) — do not edit. *)\n")
	b.WriteString("From JS Require Import Base.\n\n")
	emit := func(name string, val func(r row) string) {
		fmt.Fprintf(&b, "Definition ev_%s (e : event) :=\n  match e with\n", name)
		for _, e := range eventNames {
			r, ok := rows[e]
			if !ok {
				panic(failure{"no evaluation result for the event " + e})
			}
			fmt.Fprintf(&b, "  | %s => %s\n", e, val(r))
		}
		b.WriteString("  end.\n\n")
	}
	emit("IsBeginning", func(r row) string { return r.beg })
	emit("IsEnding", func(r row) string { return r.end })
	emit("IsSingle", func(r row) string { return r.single })
	emit("ToLexemeType", func(r row) string {
		if r.lt == "panic" {
			return "None"
		}
		k, ok := lexKinds[r.lt]
		if !ok {
			panic(failure{"unknown lexeme type " + r.lt})
		}
		return "Some " + k
	})
	return b.String()
}

// ---------------------------------------------------------------------------------------
// jerr constants

func genErrConsts(c map[string]string) string {
	var names []string
	for n := range c {
		names = append(names, n)
	}
	sort.Strings(names)
	var b strings.Builder
	b.WriteString("(* GENERATED by tools/go2coq from /repo/jerr/const.go — do not edit. *)\n")
	b.WriteString("From Coq Require Import String List.\nImport ListNotations.\nOpen Scope string_scope.\n\n")
	for _, n := range names {
		fmt.Fprintf(&b, "Definition jerr_%s : string := %s.\n", n, coqString(c[n]))
	}
	return b.String()
}
