package main

import (
	"encoding/json"
	"fmt"
	"go/ast"
	"go/importer"
	"go/token"
	"go/types"
	"io"
	"os"
	"os/exec"
	"path/filepath"
	"sort"
	"strconv"
	"strings"
)

// ---------------------------------------------------------------------------------------
// directive/enumeration.go, core/core.go dispatch table

func findFunc(files map[string]*ast.File, recv, name string) *ast.FuncDecl {
	for _, f := range files {
		for _, d := range f.Decls {
			if fd, ok := d.(*ast.FuncDecl); ok && fd.Name.Name == name {
				if recv == "" && fd.Recv == nil {
					return fd
				}
				if recv != "" && fd.Recv != nil && strings.TrimPrefix(src(fd.Recv.List[0].Type), "*") == recv {
					return fd
				}
			}
		}
	}
	return nil
}

func findVar(files map[string]*ast.File, name string) ast.Expr {
	for _, f := range files {
		for _, d := range f.Decls {
			gd, ok := d.(*ast.GenDecl)
			if !ok || gd.Tok != token.VAR {
				continue
			}
			for _, s := range gd.Specs {
				vs := s.(*ast.ValueSpec)
				for i, n := range vs.Names {
					if n.Name == name && i < len(vs.Values) {
						return vs.Values[i]
					}
				}
			}
		}
	}
	return nil
}

func nList(xs []int) string {
	var p []string
	for _, x := range xs {
		p = append(p, strconv.Itoa(x))
	}
	return "[" + strings.Join(p, "; ") + "]"
}

type dirPredicates struct {
	root, meth []int
	ctx        map[int][]int
	str        []string
}

// evalDirectivePredicates runs the directive package of the working tree on its whole (finite) domain
// runAgainstRepo compiles and runs a small program against the working tree of the repository
// (same requirements and replacements as its go.mod) and returns what it prints.
func runAgainstRepo(repo, prog, what string) string {
	return runAgainstRepoOverlay(repo, prog, what, nil)
}

// runAgainstRepoOverlay: like runAgainstRepo, with extra source files added to packages of the
// repository through the go tool's -overlay (repository-relative path -> content): nothing is written
// into the repository; the extra files give access to unexported functions.
func runAgainstRepoOverlay(repo, prog, what string, extra map[string]string) string {
	dir, err := os.MkdirTemp("", "go2coq-eval-")
	if err != nil {
		panic(failure{err.Error()})
	}
	defer os.RemoveAll(dir)
	gomod, err := os.ReadFile(filepath.Join(repo, "go.mod"))
	if err != nil {
		panic(failure{err.Error()})
	}
	// same requirements and replacements as the repository, plus the repository itself from the working tree
	var b strings.Builder
	b.WriteString("module go2coqeval\n\n")
	inBlock := false
	for _, l := range strings.Split(string(gomod), "\n") {
		t := strings.TrimSpace(l)
		switch {
		case strings.HasPrefix(t, "module "):
		case strings.HasPrefix(t, "go ") || strings.HasPrefix(t, "toolchain "):
			b.WriteString(l + "\n")
		case strings.HasPrefix(t, "require (") || strings.HasPrefix(t, "replace ("):
			inBlock = true
			b.WriteString(l + "\n")
		case inBlock:
			b.WriteString(l + "\n")
			if t == ")" {
				inBlock = false
			}
		case strings.HasPrefix(t, "require ") || strings.HasPrefix(t, "replace "):
			b.WriteString(l + "\n")
		}
	}
	b.WriteString("\nrequire github.com/jsightapi/jsight-api-core v0.0.0\nreplace github.com/jsightapi/jsight-api-core => " + repo + "\n")
	if err := os.WriteFile(filepath.Join(dir, "go.mod"), []byte(b.String()), 0o644); err != nil {
		panic(failure{err.Error()})
	}
	if sum, err := os.ReadFile(filepath.Join(repo, "go.sum")); err == nil {
		_ = os.WriteFile(filepath.Join(dir, "go.sum"), sum, 0o644)
	}
	if err := os.WriteFile(filepath.Join(dir, "main.go"), []byte(prog), 0o644); err != nil {
		panic(failure{err.Error()})
	}
	args := []string{"run"}
	if len(extra) > 0 {
		repl := map[string]string{}
		k := 0
		for rel, content := range extra {
			k++
			tmp := filepath.Join(dir, fmt.Sprintf("overlay%d.go.txt", k))
			if err := os.WriteFile(tmp, []byte(content), 0o644); err != nil {
				panic(failure{err.Error()})
			}
			repl[filepath.Join(repo, rel)] = tmp
		}
		ov, _ := json.Marshal(map[string]interface{}{"Replace": repl})
		ovp := filepath.Join(dir, "overlay.json")
		if err := os.WriteFile(ovp, ov, 0o644); err != nil {
			panic(failure{err.Error()})
		}
		args = append(args, "-overlay", ovp)
	}
	cmd := exec.Command("go", append(args, ".")...)
	cmd.Dir = dir
	cmd.Env = append(os.Environ(), "GOFLAGS=-mod=mod")
	var stderr strings.Builder
	cmd.Stderr = &stderr
	out, err := cmd.Output()
	if err != nil {
		panic(failure{what + " failed (does the tree compile?): " + err.Error() + "\n" + stderr.String()})
	}
	return string(out)
}

// byteClasses: IsNewLine, isWhitespace and the two switch-label helpers caseNewLine / caseWhitespace
// are finite functions of a byte: they are EVALUATED for all 256 bytes (the unexported ones through an
// overlay file in package scanner).  What the model relies on is checked on the results: a label
// caseX(c) matches c exactly when the predicate holds, for every byte.
func byteClasses(repo string) (nl, ws []int) {
	wrap := "package scanner\n\nfunc Go2coqIsWhitespace(c byte) bool { return isWhitespace(c) }\n" +
		"func Go2coqCaseNewLine(c byte) byte  { return caseNewLine(c) }\nfunc Go2coqCaseWhitespace(c byte) byte { return caseWhitespace(c) }\n"
	prog := "package main\n\nimport (\n\t\"fmt\"\n\n\t\"github.com/jsightapi/jsight-api-core/scanner\"\n)\n\nfunc main() {\n" +
		"\tfor i := 0; i < 256; i++ {\n\t\tc := byte(i)\n" +
		"\t\tfmt.Println(i, scanner.IsNewLine(c), scanner.Go2coqIsWhitespace(c), scanner.Go2coqCaseNewLine(c) == c, scanner.Go2coqCaseWhitespace(c) == c)\n\t}\n}\n"
	out := runAgainstRepoOverlay(repo, prog, "evaluating the byte classes of package scanner", map[string]string{"scanner/zz_go2coq_eval.go": wrap})
	for _, l := range strings.Split(strings.TrimSpace(out), "\n") {
		f := strings.Fields(l)
		if len(f) != 5 {
			panic(failure{"unexpected line from the byte-class evaluation: " + l})
		}
		i, _ := strconv.Atoi(f[0])
		if f[1] != f[3] {
			panic(failure{fmt.Sprintf("byte %d: IsNewLine = %s but the label caseNewLine(c) matches c = %s: the model reads such a label as IsNewLine(c)", i, f[1], f[3])})
		}
		if f[2] != f[4] {
			panic(failure{fmt.Sprintf("byte %d: isWhitespace = %s but the label caseWhitespace(c) matches c = %s: the model reads such a label as isWhitespace(c)", i, f[2], f[4])})
		}
		if f[1] == "true" {
			nl = append(nl, i)
		}
		if f[2] == "true" {
			ws = append(ws, i)
		}
	}
	return nl, ws
}

func evalDirectivePredicates(repo string, n int) dirPredicates {
	prog := fmt.Sprintf(`package main

import (
	"fmt"

	"github.com/jsightapi/jsight-api-core/directive"
)

func main() {
	const n = %d
	for i := 0; i < n; i++ {
		e := directive.Enumeration(i)
		fmt.Printf("str %%d %%q\n", i, e.String())
		fmt.Printf("root %%d %%v\n", i, e.IsAllowedForRootContext())
		fmt.Printf("meth %%d %%v\n", i, e.IsHTTPRequestMethod())
		for j := 0; j < n; j++ {
			fmt.Printf("ctx %%d %%d %%v\n", i, j, e.IsAllowedForDirectiveContext(directive.Enumeration(j)))
		}
	}
}
`, n)
	out := runAgainstRepo(repo, prog, "evaluating the directive predicates")
	res := dirPredicates{ctx: map[int][]int{}, str: make([]string, n)}
	for _, l := range strings.Split(string(out), "\n") {
		f := strings.SplitN(l, " ", 4)
		switch {
		case len(f) == 3 && f[0] == "str":
			i, _ := strconv.Atoi(f[1])
			v, err := strconv.Unquote(f[2])
			if err != nil {
				v = f[2]
			}
			res.str[i] = v
		case len(f) == 3 && f[0] == "root" && f[2] == "true":
			i, _ := strconv.Atoi(f[1])
			res.root = append(res.root, i)
		case len(f) == 3 && f[0] == "meth" && f[2] == "true":
			i, _ := strconv.Atoi(f[1])
			res.meth = append(res.meth, i)
		case len(f) == 4 && f[0] == "ctx" && f[3] == "true":
			i, _ := strconv.Atoi(f[1])
			j, _ := strconv.Atoi(f[2])
			res.ctx[i] = append(res.ctx[i], j)
		}
	}
	return res
}

func genDirectiveTables(repo string) string {
	files := parseDir(filepath.Join(repo, "directive"))
	// Enumeration constants in iota order
	var enumNames []string
	for _, f := range files {
		for _, d := range f.Decls {
			gd, ok := d.(*ast.GenDecl)
			if !ok || gd.Tok != token.CONST {
				continue
			}
			isEnum := false
			for i, s := range gd.Specs {
				vs := s.(*ast.ValueSpec)
				if i == 0 && vs.Type != nil && src(vs.Type) == "Enumeration" && len(vs.Values) == 1 && src(vs.Values[0]) == "iota" {
					isEnum = true
				}
				if isEnum {
					if i > 0 && (vs.Type != nil || len(vs.Values) != 0) {
						failf(vs, "Enumeration const block is not a plain iota run")
					}
					for _, n := range vs.Names {
						enumNames = append(enumNames, n.Name)
					}
				}
			}
		}
	}
	if len(enumNames) == 0 {
		failf(nil, "directive.Enumeration constants not found")
	}
	idx := map[string]int{}
	for i, n := range enumNames {
		idx[n] = i
	}
	caseSet := func(name string) []int {
		fd := findFunc(files, "Enumeration", name)
		if fd == nil || len(fd.Body.List) != 1 {
			failf(fd, "Enumeration.%s: unexpected shape", name)
		}
		sw, ok := fd.Body.List[0].(*ast.SwitchStmt)
		if !ok {
			failf(fd, "Enumeration.%s: expected switch", name)
		}
		var res []int
		for _, c := range sw.Body.List {
			cc := c.(*ast.CaseClause)
			if len(cc.Body) != 1 {
				failf(cc, "unexpected case body")
			}
			rs, ok := cc.Body[0].(*ast.ReturnStmt)
			if !ok {
				failf(cc, "unexpected case body")
			}
			v := src(rs.Results[0])
			if cc.List == nil {
				if v != "false" {
					failf(cc, "default must return false")
				}
				continue
			}
			if v != "true" {
				failf(cc, "case must return true")
			}
			for _, l := range cc.List {
				i, ok := idx[src(l)]
				if !ok {
					failf(l, "unknown Enumeration %s", src(l))
				}
				res = append(res, i)
			}
		}
		return res
	}
	_ = caseSet
	// the three finite predicates of the package are EVALUATED, not parsed: a small program linked
	// against the working tree prints IsAllowedForRootContext, IsHTTPRequestMethod and
	// IsAllowedForDirectiveContext for every (pair of) Enumeration value(s) - whatever shape the
	// source gives them (switch, table literal, helper functions)
	ev := evalDirectivePredicates(repo, len(enumNames))
	root, meth := ev.root, ev.meth
	// the keyword of a kind is what its String() method returns (evaluated)
	ss := ev.str
	if len(ss) != len(enumNames) {
		failf(nil, "%d keyword strings for %d Enumeration constants", len(ss), len(enumNames))
	}

	var rows []string
	for k := range enumNames {
		if cs := ev.ctx[k]; len(cs) > 0 {
			rows = append(rows, fmt.Sprintf("(%d, %s)", k, nList(cs)))
		}
	}

	// dispatch table of core.NewJApiCore
	cfiles := parseDir(filepath.Join(repo, "core"))
	var disp []string
	// the handler table: the one composite literal of package core of type
	// map[directive.Enumeration]func(*directive.Directive) *jerr.JApiError, wherever it is built
	found := 0
	for _, f := range cfiles {
		ast.Inspect(f, func(n ast.Node) bool {
			cl, ok := n.(*ast.CompositeLit)
			if !ok || cl.Type == nil {
				return true
			}
			mt, ok := cl.Type.(*ast.MapType)
			if !ok || src(mt.Key) != "directive.Enumeration" {
				return true
			}
			if _, isFunc := mt.Value.(*ast.FuncType); !isFunc {
				return true
			}
			found++
			for _, e := range cl.Elts {
				kv, ok := e.(*ast.KeyValueExpr)
				if !ok {
					failf(e, "handler table: unexpected element")
				}
				k := strings.TrimPrefix(src(kv.Key), "directive.")
				i, ok := idx[k]
				if !ok {
					failf(kv, "unknown Enumeration %s", k)
				}
				sel, ok := kv.Value.(*ast.SelectorExpr)
				if !ok {
					failf(kv, "handler table: the handler of %s is not a method value", k)
				}
				disp = append(disp, fmt.Sprintf("(%d, %s)", i, coqString(sel.Sel.Name)))
			}
			return false
		})
	}
	if found != 1 {
		failf(nil, "expected exactly one handler table (map[directive.Enumeration]func...) in package core, found %d", found)
	}

	var b strings.Builder
	b.WriteString("(* GENERATED by tools/go2coq from /repo/directive/enumeration.go and /repo/core/core.go — do not edit. *)\n")
	b.WriteString("From Coq Require Import List NArith String.\nImport ListNotations.\nOpen Scope N_scope.\nOpen Scope string_scope.\n\n")
	for i, n := range enumNames {
		fmt.Fprintf(&b, "Definition dir_%s : N := %d.\n", n, i)
	}
	fmt.Fprintf(&b, "\nDefinition dir_count : N := %d.\n", len(enumNames))
	b.WriteString("\nDefinition dir_names : list string := [\n")
	for i, n := range enumNames {
		sep := ";"
		if i == len(enumNames)-1 {
			sep = ""
		}
		fmt.Fprintf(&b, "  %s%s\n", coqString(n), sep)
	}
	b.WriteString("].\n\nDefinition dir_keywords : list string := [\n")
	for i, s := range ss {
		sep := ";"
		if i == len(ss)-1 {
			sep = ""
		}
		fmt.Fprintf(&b, "  %s%s\n", coqString(s), sep)
	}
	b.WriteString("].\n\n")
	fmt.Fprintf(&b, "Definition dir_root_allowed : list N := %s.\n", nList(root))
	fmt.Fprintf(&b, "Definition dir_http_methods : list N := %s.\n", nList(meth))
	b.WriteString("Definition dir_context_table : list (N * list N) := [\n  " + strings.Join(rows, ";\n  ") + "\n].\n\n")
	b.WriteString("Definition dir_dispatch : list (N * string) := [\n  " + strings.Join(disp, ";\n  ") + "\n].\n")
	return b.String()
}

// ---------------------------------------------------------------------------------------
// core/include.go validateIncludeFileName

func byteList(s string) string {
	var p []string
	for i := 0; i < len(s); i++ {
		p = append(p, strconv.Itoa(int(s[i])))
	}
	return "[" + strings.Join(p, "; ") + "]"
}

func genIncludeName(repo string, jc map[string]string) string {
	files := parseDir(filepath.Join(repo, "core"))
	fd := findFunc(files, "", "validateIncludeFileName")
	if fd == nil {
		failf(nil, "validateIncludeFileName not found")
	}
	pn := paramName(fd, 0)
	errOf := func(body *ast.BlockStmt) string {
		if len(body.List) != 1 {
			failf(body, "unexpected check body")
		}
		rs, ok := body.List[0].(*ast.ReturnStmt)
		if !ok || len(rs.Results) != 1 {
			failf(body, "unexpected check body")
		}
		call, ok := rs.Results[0].(*ast.CallExpr)
		if !ok || src(call.Fun) != "errors.New" || len(call.Args) != 1 {
			failf(body, "unexpected check body")
		}
		sel, ok := call.Args[0].(*ast.SelectorExpr)
		if !ok || src(sel.X) != "jerr" {
			failf(body, "unexpected error value")
		}
		v, ok := jc[sel.Sel.Name]
		if !ok {
			failf(body, "unknown jerr constant")
		}
		return coqString(v)
	}
	bound := map[string]string{} // local bool vars -> rendered check condition
	helperDepth := 0
	var condOf func(e ast.Expr) string
	condOf = func(e ast.Expr) string {
		switch x := e.(type) {
		case *ast.ParenExpr:
			return condOf(x.X)
		case *ast.Ident:
			if v, ok := bound[x.Name]; ok {
				return v
			}
		case *ast.BinaryExpr:
			switch x.Op {
			case token.LOR:
				return "IOr (" + condOf(x.X) + ") (" + condOf(x.Y) + ")"
			case token.LAND:
				return "IAnd (" + condOf(x.X) + ") (" + condOf(x.Y) + ")"
			case token.EQL:
				if src(x.X) == pn+"[0]" {
					if bl, ok := x.Y.(*ast.BasicLit); ok && bl.Kind == token.CHAR {
						r, _, _, _ := strconv.UnquoteChar(bl.Value[1:len(bl.Value)-1], '\'')
						return fmt.Sprintf("IFirstByte %d", r)
					}
				}
				if src(x.X) == pn {
					if bl, ok := x.Y.(*ast.BasicLit); ok && bl.Kind == token.STRING {
						v, _ := strconv.Unquote(bl.Value)
						return "IEquals " + byteList(v)
					}
				}
				if src(x.X) == "len("+pn+")" && src(x.Y) == "0" {
					return "IEquals []"
				}
			}
		case *ast.CallExpr:
			fn := src(x.Fun)
			// a boolean helper of the package over the same string: func h(s string) bool { return <cond> }
			if id, ok := x.Fun.(*ast.Ident); ok && len(x.Args) == 1 && src(x.Args[0]) == pn {
				if hd := findFunc(files, "", id.Name); hd != nil && hd.Type.Results != nil && len(hd.Type.Results.List) == 1 &&
					src(hd.Type.Results.List[0].Type) == "bool" && len(hd.Body.List) == 1 && helperDepth < 3 {
					if rs, ok := hd.Body.List[0].(*ast.ReturnStmt); ok && len(rs.Results) == 1 {
						saved := pn
						pn = paramName(hd, 0)
						helperDepth++
						r := condOf(rs.Results[0])
						helperDepth--
						pn = saved
						return r
					}
				}
			}
			if len(x.Args) == 2 && src(x.Args[0]) == pn {
				if bl, ok := x.Args[1].(*ast.BasicLit); ok {
					switch {
					case fn == "strings.Contains" && bl.Kind == token.STRING:
						v, _ := strconv.Unquote(bl.Value)
						return "IContains " + byteList(v)
					case fn == "strings.HasPrefix" && bl.Kind == token.STRING:
						v, _ := strconv.Unquote(bl.Value)
						return "IHasPrefix " + byteList(v)
					case fn == "strings.HasSuffix" && bl.Kind == token.STRING:
						v, _ := strconv.Unquote(bl.Value)
						return "IHasSuffix " + byteList(v)
					case fn == "strings.ContainsRune" && bl.Kind == token.CHAR:
						r, _, _, _ := strconv.UnquoteChar(bl.Value[1:len(bl.Value)-1], '\'')
						if r < 128 {
							return fmt.Sprintf("IContains [%d]", r)
						}
					}
				}
			}
		}
		failf(e, "validateIncludeFileName: unsupported condition %s", src(e))
		return ""
	}
	var checks []string
	stmts := fd.Body.List
	for i, s := range stmts {
		switch x := s.(type) {
		case *ast.AssignStmt:
			if x.Tok == token.DEFINE && len(x.Lhs) == 1 && len(x.Rhs) == 1 {
				bound[src(x.Lhs[0])] = condOf(x.Rhs[0])
				continue
			}
		case *ast.IfStmt:
			// if c1 { return .. } [else if c2 { return .. }]*
			{
				var cs []string
				cur, ok := x, true
				for {
					if cur.Init != nil {
						ok = false
						break
					}
					cs = append(cs, fmt.Sprintf("(%s, %s)", condOf(cur.Cond), errOf(cur.Body)))
					if cur.Else == nil {
						break
					}
					nx, isIf := cur.Else.(*ast.IfStmt)
					if !isIf {
						ok = false
						break
					}
					cur = nx
				}
				if ok {
					checks = append(checks, cs...)
					continue
				}
			}
		case *ast.SwitchStmt:
			// switch { case <cond>: return errors.New(...) ... }: the clauses in order, like a chain of ifs
			if x.Init == nil && x.Tag == nil {
				ok := true
				var cs []string
				for k, cl := range x.Body.List {
					cc := cl.(*ast.CaseClause)
					if cc.List == nil {
						// default: return nil, as the last clause
						if k == len(x.Body.List)-1 && len(cc.Body) == 1 && src(cc.Body[0]) == "return nil" {
							continue
						}
						ok = false
						break
					}
					var alts []string
					for _, l := range cc.List {
						alts = append(alts, condOf(l))
					}
					c := alts[len(alts)-1]
					for j := len(alts) - 2; j >= 0; j-- {
						c = "IOr (" + alts[j] + ") (" + c + ")"
					}
					cs = append(cs, fmt.Sprintf("(%s, %s)", c, errOf(&ast.BlockStmt{List: cc.Body})))
				}
				if ok {
					checks = append(checks, cs...)
					continue
				}
			}
		case *ast.RangeStmt:
			// for _, seg := range strings.Split(s, "/") { if seg == "." || seg == ".." { return ... } }
			if src(x.X) == "strings.Split("+pn+", \"/\")" && x.Value != nil && len(x.Body.List) == 1 {
				if is, ok := x.Body.List[0].(*ast.IfStmt); ok && is.Init == nil && is.Else == nil {
					seg := src(x.Value)
					var alts []string
					var walk func(e ast.Expr)
					walk = func(e ast.Expr) {
						if be, ok := e.(*ast.BinaryExpr); ok {
							if be.Op == token.LOR {
								walk(be.X)
								walk(be.Y)
								return
							}
							if be.Op == token.EQL && src(be.X) == seg {
								if bl, ok := be.Y.(*ast.BasicLit); ok && bl.Kind == token.STRING {
									v, _ := strconv.Unquote(bl.Value)
									alts = append(alts, byteList(v))
									return
								}
							}
						}
						failf(e, "validateIncludeFileName: unsupported segment condition %s", src(e))
					}
					walk(is.Cond)
					checks = append(checks, fmt.Sprintf("(ISegmentIn [%s], %s)", strings.Join(alts, "; "), errOf(is.Body)))
					continue
				}
			}
		case *ast.ReturnStmt:
			if i == len(stmts)-1 && len(x.Results) == 1 && src(x.Results[0]) == "nil" {
				continue
			}
		}
		failf(s, "validateIncludeFileName: unsupported statement %s", src(s))
	}
	var b strings.Builder
	b.WriteString("(* GENERATED by tools/go2coq from /repo/core/include.go validateIncludeFileName — do not edit. *)\n")
	b.WriteString("From Coq Require Import List NArith String.\nImport ListNotations.\nOpen Scope N_scope.\nOpen Scope string_scope.\n\n")
	b.WriteString("Inductive icond :=\n| IFirstByte (b : N)      (* s[0] == b : crashes on the empty string *)\n| IEquals (w : list N)\n| IContains (w : list N)\n| IHasPrefix (w : list N)\n| IHasSuffix (w : list N)\n| ISegmentIn (ws : list (list N)) (* some '/'-separated segment is one of ws *)\n| IOr (a b : icond)\n| IAnd (a b : icond).\n\n")
	b.WriteString("Definition include_checks : list (icond * string) := [\n  " + strings.Join(checks, ";\n  ") + "\n].\n")
	return b.String()
}

// ---------------------------------------------------------------------------------------
// inventory (go/types)

type invItem struct{ kind, pkg, fn, detail string }

func genInventory(repo string) string {
	cwd, _ := os.Getwd()
	if err := os.Chdir(repo); err != nil {
		panic(failure{err.Error()})
	}
	defer func() { _ = os.Chdir(cwd) }()
	// every non-test, non-internal package of the module, as the go tool lists them
	var pkgDirs []string
	lc := exec.Command("go", "list", "-f", "{{.ImportPath}}", "./...")
	lc.Stderr = os.Stderr
	lout, lerr := lc.Output()
	if lerr != nil {
		panic(failure{"go list failed: " + lerr.Error()})
	}
	for _, l := range strings.Split(string(lout), "\n") {
		l = strings.TrimSpace(l)
		const mod = "github.com/jsightapi/jsight-api-core/"
		if !strings.HasPrefix(l, mod) {
			continue
		}
		d := strings.TrimPrefix(l, mod)
		if d == "test" || strings.HasPrefix(d, "internal/") {
			continue
		}
		pkgDirs = append(pkgDirs, d)
	}
	sort.Strings(pkgDirs)
	// export data of every dependency, produced by the go tool from the working tree
	exports := map[string]string{}
	cmd := exec.Command("go", "list", "-export", "-deps", "-f", "{{.ImportPath}} {{.Export}}", "./...")
	cmd.Stderr = os.Stderr
	outb, err := cmd.Output()
	if err != nil {
		panic(failure{"go list -export failed (does the tree compile?): " + err.Error()})
	}
	for _, line := range strings.Split(string(outb), "\n") {
		f := strings.Fields(line)
		if len(f) == 2 {
			exports[f[0]] = f[1]
		}
	}
	imp := importer.ForCompiler(fset, "gc", func(path string) (io.ReadCloser, error) {
		p, ok := exports[path]
		if !ok {
			return nil, fmt.Errorf("no export data for %s", path)
		}
		return os.Open(p)
	})
	var items []invItem
	for _, pd := range pkgDirs {
		files := parseDir(filepath.Join(repo, pd))
		var names []string
		for n := range files {
			names = append(names, n)
		}
		sort.Strings(names)
		var fl []*ast.File
		for _, n := range names {
			fl = append(fl, files[n])
		}
		info := &types.Info{Types: map[ast.Expr]types.TypeAndValue{}, Uses: map[*ast.Ident]types.Object{}, Defs: map[*ast.Ident]types.Object{}}
		conf := types.Config{Importer: imp, Error: func(err error) {}}
		pkg, err := conf.Check("github.com/jsightapi/jsight-api-core/"+pd, fset, fl, info)
		if err != nil && pkg == nil {
			panic(failure{"type-check of " + pd + " failed: " + err.Error()})
		}
		if err != nil {
			panic(failure{"type-check of " + pd + " failed: " + err.Error()})
		}
		// imports of packages that carry time, randomness, addresses or scheduling
		watch := map[string]bool{"time": true, "math/rand": true, "math/rand/v2": true, "crypto/rand": true, "unsafe": true,
			"runtime": true, "reflect": true, "sync/atomic": true, "os/signal": true, "context": true}
		for _, n := range names {
			for _, im := range files[n].Imports {
				ip := strings.Trim(im.Path.Value, "\"")
				if watch[ip] {
					items = append(items, invItem{"import", pd, filepath.Base(n), ip})
				}
			}
			ast.Inspect(files[n], func(m ast.Node) bool {
				if bl, ok := m.(*ast.BasicLit); ok && bl.Kind == token.STRING && strings.Contains(bl.Value, "%p") {
					items = append(items, invItem{"fmt-pointer", pd, filepath.Base(n), bl.Value})
				}
				return true
			})
		}
		// package-level variables
		pkgVars := map[types.Object]string{}
		pkgVarType := map[string]string{}
		shortType := func(t types.Type) string {
			return types.TypeString(t, func(p *types.Package) string { return p.Name() })
		}
		// functions of the package that are only ever used as the argument of a sync.Once's Do: their
		// bodies run inside that Do
		onceFuncs := map[string]bool{}
		{
			asDoArg := map[types.Object]int{}
			for _, n := range names {
				ast.Inspect(files[n], func(m ast.Node) bool {
					call, ok := m.(*ast.CallExpr)
					if !ok || len(call.Args) != 1 {
						return true
					}
					sel, ok := call.Fun.(*ast.SelectorExpr)
					if !ok || sel.Sel.Name != "Do" {
						return true
					}
					tv, ok := info.Types[sel.X]
					if !ok || !strings.HasSuffix(tv.Type.String(), "sync.Once") {
						return true
					}
					if id, ok := call.Args[0].(*ast.Ident); ok {
						if fo, isFunc := info.Uses[id].(*types.Func); isFunc {
							asDoArg[fo]++
						}
					}
					return true
				})
			}
			uses := map[types.Object]int{}
			for _, o := range info.Uses {
				if _, isFunc := o.(*types.Func); isFunc {
					uses[o]++
				}
			}
			for o, k := range asDoArg {
				if uses[o] == k {
					onceFuncs[o.Name()] = true
				}
			}
		}
		for _, n := range names {
			for _, d := range files[n].Decls {
				gd, ok := d.(*ast.GenDecl)
				if !ok || gd.Tok != token.VAR {
					continue
				}
				for _, s := range gd.Specs {
					for _, id := range s.(*ast.ValueSpec).Names {
						if id.Name == "_" {
							continue
						}
						if obj := info.Defs[id]; obj != nil {
							pkgVars[obj] = id.Name
							pkgVarType[id.Name] = shortType(obj.Type())
							items = append(items, invItem{"pkgvar", pd, "", id.Name + " : " + shortType(obj.Type())})
						}
					}
				}
			}
		}
		for _, n := range names {
			for _, d := range files[n].Decls {
				fd, ok := d.(*ast.FuncDecl)
				if !ok || fd.Body == nil {
					continue
				}
				fn := fd.Name.Name
				if fd.Recv != nil {
					fn = strings.TrimPrefix(src(fd.Recv.List[0].Type), "*") + "." + fn
				}
				twoValue := map[*ast.TypeAssertExpr]bool{}
				inOnce := 0
				if fd.Recv == nil && onceFuncs[fd.Name.Name] {
					inOnce = 1
				}
				var visit func(n ast.Node) bool
				visit = func(n ast.Node) bool {
					switch x := n.(type) {
					case *ast.AssignStmt:
						if len(x.Lhs) == 2 && len(x.Rhs) == 1 {
							if ta, ok := x.Rhs[0].(*ast.TypeAssertExpr); ok {
								twoValue[ta] = true
							}
						}
						for _, l := range x.Lhs {
							root := l
							for {
								switch y := root.(type) {
								case *ast.IndexExpr:
									root = y.X
									continue
								case *ast.SelectorExpr:
									// only pkg-level var.field counts when X is the var itself
									root = y.X
									continue
								case *ast.StarExpr:
									root = y.X
									continue
								}
								break
							}
							if id, ok := root.(*ast.Ident); ok {
								if name, ok := pkgVars[info.Uses[id]]; ok {
									where := "plain"
									if inOnce > 0 {
										where = "inside-Once.Do"
									}
									items = append(items, invItem{"pkgvar-write", pd, fn, where + " " + name + " : " + pkgVarType[name]})
								}
							}
						}
					case *ast.ValueSpec:
						if len(x.Names) == 2 && len(x.Values) == 1 {
							if ta, ok := x.Values[0].(*ast.TypeAssertExpr); ok {
								twoValue[ta] = true
							}
						}
					case *ast.TypeSwitchStmt:
						// the assertion inside a type switch cannot fail
						ast.Inspect(x.Assign, func(m ast.Node) bool {
							if ta, ok := m.(*ast.TypeAssertExpr); ok {
								twoValue[ta] = true
							}
							return true
						})
					case *ast.TypeAssertExpr:
						if !twoValue[x] && x.Type != nil {
							items = append(items, invItem{"assert", pd, fn, src(x)})
						}
					case *ast.RangeStmt:
						if tv, ok := info.Types[x.X]; ok {
							if _, isMap := tv.Type.Underlying().(*types.Map); isMap {
								items = append(items, invItem{"maprange", pd, fn, src(x.X) + " : " + shortType(tv.Type)})
							}
						}
					case *ast.GoStmt:
						items = append(items, invItem{"go", pd, fn, src(x.Call.Fun)})
					case *ast.CallExpr:
						f := src(x.Fun)
						switch {
						case f == "panic":
							arg := ""
							if len(x.Args) == 1 {
								arg = src(x.Args[0])
								if len(arg) > 60 {
									arg = arg[:60]
								}
							}
							items = append(items, invItem{"panic", pd, fn, arg})
						case f == "recover":
							items = append(items, invItem{"recover", pd, fn, ""})
						case strings.HasPrefix(f, "os.") || strings.HasPrefix(f, "ioutil.") || strings.HasPrefix(f, "filepath.") || strings.HasPrefix(f, "time.") || strings.HasPrefix(f, "rand."):
							if sel, ok := x.Fun.(*ast.SelectorExpr); ok {
								if id, ok := sel.X.(*ast.Ident); ok {
									if _, isPkg := info.Uses[id].(*types.PkgName); isPkg {
										items = append(items, invItem{"extcall", pd, fn, f})
									}
								}
							}
						case strings.HasSuffix(f, ".Do"):
							if sel, ok := x.Fun.(*ast.SelectorExpr); ok {
								if tv, ok := info.Types[sel.X]; ok && strings.HasSuffix(tv.Type.String(), "sync.Once") {
									items = append(items, invItem{"once", pd, fn, src(sel.X)})
									inOnce++
									for _, a := range x.Args {
										ast.Inspect(a, visit)
									}
									inOnce--
									return false
								}
							}
						}
					}
					return true
				}
				ast.Inspect(fd.Body, visit)
			}
		}
	}
	sort.SliceStable(items, func(i, j int) bool {
		a, b := items[i], items[j]
		if a.kind != b.kind {
			return a.kind < b.kind
		}
		if a.pkg != b.pkg {
			return a.pkg < b.pkg
		}
		if a.fn != b.fn {
			return a.fn < b.fn
		}
		return a.detail < b.detail
	})
	var b strings.Builder
	b.WriteString("(* GENERATED by tools/go2coq (go/types) over the non-test packages of /repo — do not edit. *)\n")
	b.WriteString("From Coq Require Import List String.\nImport ListNotations.\nOpen Scope string_scope.\n\n")
	b.WriteString("(* (kind, package, function, detail) *)\nDefinition inventory : list (string * string * string * string) := [\n")
	for i, it := range items {
		sep := ";"
		if i == len(items)-1 {
			sep = ""
		}
		d := strings.ReplaceAll(strings.ReplaceAll(it.detail, "\n", " "), "\t", " ")
		fmt.Fprintf(&b, "  (%s, %s, %s, %s)%s\n", coqString(it.kind), coqString(it.pkg), coqString(it.fn), coqString(d), sep)
	}
	b.WriteString("].\n\n")
	// normalised keys: what a site IS, not where exactly it stands - an unchecked assertion is keyed by
	// package and asserted type, a panic / recover / sync.Once by package, an external call by package
	// and callee, a package-level variable (and a write to one) by its type, a map iteration by the type of the map
	// (its classification in Spec/MapRanges.v is per function)
	b.WriteString("(* (kind, package, normalised detail) *)\nDefinition inventory_keys : list (string * string * string) := [\n")
	for i, it := range items {
		sep := ";"
		if i == len(items)-1 {
			sep = ""
		}
		d := strings.ReplaceAll(strings.ReplaceAll(it.detail, "\n", " "), "\t", " ")
		key := ""
		switch it.kind {
		case "assert":
			if j := strings.LastIndex(d, ".("); j >= 0 {
				key = d[j:]
			} else {
				key = d
			}
		case "panic", "recover", "once":
			key = ""
		case "maprange":
			// by the type of the map that is iterated: the loop may be rewritten, renamed or moved to
			// another function of its package; one more loop over such a map is one too many
			key = d
			if j := strings.Index(d, " : "); j >= 0 {
				key = d[j+3:]
			}
		case "pkgvar":
			// by type, not by name: a renamed variable is the same variable
			if j := strings.Index(d, " : "); j >= 0 {
				key = d[j+3:]
			} else {
				key = d
			}
		case "pkgvar-write":
			// "<where> <name> : <type>" -> "<where> <type>"
			key = d
			if j := strings.Index(d, " "); j >= 0 {
				if k := strings.Index(d, " : "); k >= 0 {
					key = d[:j] + " " + d[k+3:]
				}
			}
		default:
			key = d
		}
		fmt.Fprintf(&b, "  (%s, %s, %s)%s\n", coqString(it.kind), coqString(it.pkg), coqString(key), sep)
	}
	b.WriteString("].\n")
	return b.String()
}
