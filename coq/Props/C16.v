(* C16 — serialising is repeatable and does not change the catalog.
   Statements only; proofs in Proofs/C16Proofs.v.  The model (Model/Lazy.v) is the state machine
   of the lazily computed part of a built catalog under the five accessors; it is run against
   the implementation on every history of the check (cells after each call, via the hook
   catalog.VerifLazyState, and which result each call returns).  PARTIAL in this sense only: that
   the Go accessors touch no state outside the modelled cells is established by that
   correspondence and by the byte comparison over histories, not by a theorem. *)
From JS Require Import Lazy C16Proofs.
From Coq Require Import List.
Import ListNotations.

(* for every catalog, every history (no bound on its length) and every position in it, the call
   returns what the same accessor returns on a freshly built catalog *)
Theorem C16_every_call_returns_the_fresh_result :
  forall ds h, snd (run current ds (fresh ds) h) = List.map (fun a => snd (call current ds (fresh ds) a)) h.
Proof. exact every_call_is_the_fresh_call. Qed.

Theorem C16_result_does_not_depend_on_what_was_called_before :
  forall ds h1 h2 a,
    snd (call current ds (fst (run current ds (fresh ds) h1)) a) =
    snd (call current ds (fst (run current ds (fresh ds) h2)) a).
Proof. exact history_independent. Qed.

Theorem C16_serialising_again_changes_nothing :
  forall ds st, Inv ds st ->
    let st1 := fst (call current ds st AJ) in fst (call current ds st1 AJ) = st1.
Proof. exact to_json_settles. Qed.

(* regression: the two behaviours that were repaired in /repo violate the property *)
Theorem C16_error_reported_once_refuted :
  exists ds, snd (run (mkSem false true) ds (fresh ds) [AJ; AJ]) = [RErrAt 0; RJsonNull false [] [0]].
Proof. exact old_once_error_refuted. Qed.

Theorem C16_uncached_regex_example_refuted :
  exists ds, snd (run (mkSem true false) ds (fresh ds) [AJ; AJ]) = [RJson false [0]; RJson false [1]].
Proof. exact old_regex_example_refuted. Qed.

(* non-vacuity: a catalog with a failing, a regex and an ordinary schema *)
Example C16_example :
  snd (run current [mkSdesc KRegex false; mkSdesc KJsight false; mkSdesc KJsight true; mkSdesc KJsight false]
           (fresh [mkSdesc KRegex false; mkSdesc KJsight false; mkSdesc KJsight true; mkSdesc KJsight false])
           [AO; AJ; AT; AJI]) = [ROpenApi false; RErrAt 2; RTitle; RErrAt 2].
Proof. vm_compute. reflexivity. Qed.

Print Assumptions C16_every_call_returns_the_fresh_result.
Print Assumptions C16_result_does_not_depend_on_what_was_called_before.
Print Assumptions C16_serialising_again_changes_nothing.
Print Assumptions C16_error_reported_once_refuted.
Print Assumptions C16_uncached_regex_example_refuted.
