(* C04 — a successfully built catalog always serialises to well-formed JDoc Exchange JSON.
   Statements only; proofs in Proofs/C04Proofs.v.  The struct-tag tables (Gen/JsonTags.v) are
   regenerated from /repo/catalog on every run.  PARTIAL: that ToJson cannot FAIL after a
   successful build depends on the schema dependency (oracle) and is known to be false for
   Path-directive schemas (finding F9); text-level well-formedness is encoding/json's. *)
From Coq Require Import List String.
From JS Require Import Json C04Proofs.
From JS Require JsonTags JDocShape.

(* every field the JDoc Exchange shape requires of the catalog, tags, interaction groups,
   servers, user types, interactions, responses, bodies, headers, queries, path variables and
   schema nodes is tagged without omitempty; container nodes have no scalarValue field and
   scalar nodes no children field *)
Theorem C04_required_fields_are_unconditional : tags_check = true.
Proof. exact tags_check_ok. Qed.

(* the dynamic reading: for EVERY value a struct of the regenerated tag table may hold, the JSON
   object encoding/json writes for it (omitempty applied) carries every field the JDoc Exchange
   shape requires of that entity, with that field's value ... *)
Theorem C04_every_entity_always_carries_its_required_fields :
  forall e anchors fields fs value f,
    In (e, anchors, fields) JDocShape.required_fields -> In fs (structs_with anchors) -> In f fields ->
    lookup (match marshal_struct fs value with JObj o => o | _ => nil end) f = Some (value f).
Proof. exact every_entity_always_carries_its_required_fields. Qed.

(* ... and a schema node never carries the field of the other kind *)
Theorem C04_no_schema_node_carries_the_other_kinds_field :
  forall e anchors fields fs value f,
    In (e, anchors, fields) JDocShape.forbidden_fields -> In fs (structs_with anchors) -> In f fields ->
    lookup (match marshal_struct fs value with JObj o => o | _ => nil end) f = None.
Proof. exact no_schema_node_carries_the_other_kinds_field. Qed.

(* for EVERY content tree (any depth and width), the JSON produced by the two ExchangeContent
   marshalers is typed consistently: object/array nodes carry children and no scalar value,
   all other nodes carry a scalar value and no children *)
Theorem C04_schema_nodes_typed_consistently :
  forall c, token_types_nonempty c = true -> content_shape (cdepth c) (marshal_content c) = true.
Proof. exact marshalled_content_is_consistent. Qed.

Open Scope string_scope.
Example C04_nonvacuous :
  content_shape 2 (marshal_content (Node "object" "" (cons (Node "integer" "1" nil (fun _ => JNull)) nil) (fun _ => JNull))) = true.
Proof. vm_compute. reflexivity. Qed.

Print Assumptions C04_required_fields_are_unconditional.
Print Assumptions C04_schema_nodes_typed_consistently.
Print Assumptions C04_every_entity_always_carries_its_required_fields.
Print Assumptions C04_no_schema_node_carries_the_other_kinds_field.
