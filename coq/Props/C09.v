(* C09 — INCLUDE is transparent.  Statements only; proofs in Proofs/C09Proofs.v.
   PARTIAL: split = unsplit is not a theorem; it is checked metamorphically (catalog JSON of
   the project vs its textual inlining) and on the directive forests (implementation vs model).
   Proved (Proofs/IncludeRoundTrip.v), for include trees of any depth and every scanner program,
   file system and oracle: what survives the switch into an included file and back. *)
From JS Require Import Base Bytes Scanner Directive Core Entry C09Proofs IncludeRoundTrip.
From JS Require ScannerProg.
Open Scope Z_scope.

(* the switch to an included file leaves the pending directive, the open context, the forest
   and the tracer cache untouched; the includer is suspended on the stack at the INCLUDE
   keyword and the included file starts in the initial scanner state *)
Theorem C09_include_preserves_core_state :
  forall fs olen st kw st1 st2,
    process_include ScannerProg.prog_table ScannerProg.is_newline_cond ScannerProg.is_whitespace_cond
                    fs olen ScannerProg.initial_state st kw = (COk st1, st2) ->
    cs_cur st1 = cs_cur st /\ cs_ctx st1 = cs_ctx st /\ cs_forest st1 = cs_forest st /\
    cs_tracers st1 = cs_tracers st /\
    exists cf rest_item,
      cs_stack st1 = rest_item :: cs_stack st /\ si_file rest_item = cs_file st /\
      si_at rest_item = lb kw /\ si_conf rest_item = cf /\
      c_step (cs_conf st1) = ScannerProg.initial_state /\ c_cur (cs_conf st1) = 0.
Proof. exact include_preserves_core_state. Qed.

(* a run of the directive layer that leaves every file it enters (lexemes through JApiCore.next,
   INCLUDEs entered by processInclude and left at the end of the included file, nested to any
   depth) ends in the file it started in, on the same stack of suspended scanners; the files
   opened so far have only grown *)
Theorem C09_balanced_runs_keep_file_and_scanner_stack :
  forall prog nl ws fs olen init_st st st',
    balanced prog nl ws fs olen init_st st st' ->
    cs_file st' = cs_file st /\ cs_stack st' = cs_stack st /\ exists more, cs_files st' = cs_files st ++ more.
Proof. exact balanced_run_keeps_the_switch_state. Qed.

(* INCLUDE, the whole included file with whatever it includes itself, its end: the includer
   resumes in its own file with exactly the scanner configuration it had right after the INCLUDE
   parameter, on the same stack; the end of the included file finalised the pending directive and
   did nothing else to the directive layer *)
Theorem C09_include_round_trip :
  forall prog nl ws fs olen init_st st kw stI x stK cfK stE,
    process_include prog nl ws fs olen init_st st kw = (COk stI, x) ->
    balanced prog nl ws fs olen init_st stI stK ->
    process_eof (set_conf stK cfK) = COk stE ->
    exists pl cf,
      scan_next prog nl ws olen st = ROk (Some pl, cf) /\
      cs_stack stE = mkSItem (cs_file st) cf (lb kw) :: cs_stack st /\
      let r := resume stE (mkSItem (cs_file st) cf (lb kw)) (cs_stack st) in
      cs_file r = cs_file st /\ cs_conf r = cf /\ cs_stack r = cs_stack st /\
      (exists more, cs_files r = cs_files st ++ more) /\
      process_current (set_conf stK cfK) = COk stE /\ cs_cur r = None /\
      cs_forest r = cs_forest stE /\ cs_ctx r = cs_ctx stE.
Proof. exact include_round_trip. Qed.

(* ... and that finalisation is what the next keyword does first anyway *)
Theorem C09_finalising_at_the_end_of_the_included_file_is_harmless :
  forall st st1 l, process_current st = COk st1 -> process_keyword st1 l = process_keyword st l.
Proof. exact finalising_early_is_harmless. Qed.

(* the relation follows the loop of scanProject *)
Theorem C09_scan_project_follows_balanced_runs :
  forall prog nl ws fs olen init_st fuel st,
    (forall l cf st1, scan_next prog nl ws olen st = ROk (Some l, cf) -> is_include (set_conf st cf) l = false ->
       core_next (set_conf st cf) l = COk st1 ->
       scan_project prog nl ws fs olen init_st (S fuel) st = scan_project prog nl ws fs olen init_st fuel st1) /\
    (forall l cf stI x, scan_next prog nl ws olen st = ROk (Some l, cf) -> is_include (set_conf st cf) l = true ->
       process_include prog nl ws fs olen init_st (set_conf st cf) l = (COk stI, x) ->
       scan_project prog nl ws fs olen init_st (S fuel) st = scan_project prog nl ws fs olen init_st fuel stI) /\
    (forall cf stE it rest, scan_next prog nl ws olen st = ROk (None, cf) -> process_eof (set_conf st cf) = COk stE ->
       cs_stack stE = it :: rest ->
       scan_project prog nl ws fs olen init_st (S fuel) st = scan_project prog nl ws fs olen init_st fuel (resume stE it rest)).
Proof. exact scan_project_follows_balanced_runs. Qed.

(* FULL STATEMENT refuted: finding F14 *)
Theorem C09_refuted_include_inside_explicit_context :
  scan_ok (tree_case [(root_name, FFile unsplit_doc)] root_name [] [] 1000) = true /\
  scan_ok (tree_case [(root_name, FFile split_root); (bytes_of_string "a.jst", FFile split_piece)]
                     root_name [] [] 1000) = false.
Proof. exact include_in_explicit_context_refuted. Qed.

Print Assumptions C09_include_preserves_core_state.
Print Assumptions C09_refuted_include_inside_explicit_context.
Print Assumptions C09_balanced_runs_keep_file_and_scanner_stack.
Print Assumptions C09_include_round_trip.
Print Assumptions C09_finalising_at_the_end_of_the_included_file_is_harmless.
Print Assumptions C09_scan_project_follows_balanced_runs.
