(* C09 — INCLUDE is transparent.  Statements only; proofs in Proofs/C09Proofs.v.
   PARTIAL: split = unsplit is not a theorem; it is checked metamorphically (catalog JSON of
   the project vs its textual inlining) and on the directive forests (implementation vs model). *)
From JS Require Import Base Bytes Scanner Directive Core Entry C09Proofs.
From JS Require ScannerProg.
Open Scope Z_scope.

(* the switch to an included file leaves the pending directive, the open context, the forest
   and the tracer cache untouched; the includer is suspended on the stack at the INCLUDE
   keyword and the included file starts in the initial scanner state *)
Theorem C09_include_preserves_core_state :
  forall fs olen st kw st1 st2,
    process_include ScannerProg.prog_table ScannerProg.is_newline_cond ScannerProg.is_whitespace_cond
                    fs olen ScannerProg.initial_state st kw = (COk st1, st2) ->
    cs_cur st1 = cs_cur st /\ cs_ctx st1 = cs_ctx st /\ cs_forest st1 = cs_forest st /\
    cs_tracers st1 = cs_tracers st /\
    exists cf rest_item,
      cs_stack st1 = rest_item :: cs_stack st /\ si_file rest_item = cs_file st /\
      si_at rest_item = lb kw /\ si_conf rest_item = cf /\
      c_step (cs_conf st1) = ScannerProg.initial_state /\ c_cur (cs_conf st1) = 0.
Proof. exact include_preserves_core_state. Qed.

(* FULL STATEMENT refuted: finding F14 *)
Theorem C09_refuted_include_inside_explicit_context :
  scan_ok (tree_case [(root_name, FFile unsplit_doc)] root_name [] [] 1000) = true /\
  scan_ok (tree_case [(root_name, FFile split_root); (bytes_of_string "a.jst", FFile split_piece)]
                     root_name [] [] 1000) = false.
Proof. exact include_in_explicit_context_refuted. Qed.

Print Assumptions C09_include_preserves_core_state.
Print Assumptions C09_refuted_include_inside_explicit_context.
