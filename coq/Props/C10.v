(* C10 — PASTE is transparent: a macro call equals its body written in place.
   Statements only; proofs in Proofs/C10Proofs.v.  PARTIAL: the equivalence
   expand (tree ts) = tree (inline ts) is not a theorem yet; it is checked on expanded forests
   (implementation vs model) and metamorphically on catalogs (macro form vs inlined form). *)
From JS Require Import Base Bytes Scanner Directive Core Expand C10Proofs.
From JS Require DirectiveTables.
Open Scope Z_scope.

(* MACRO definitions contribute nothing: collectMacro leaves no MACRO among the roots and
   keeps every other root in its place *)
Theorem C10_macros_are_removed :
  forall roots roots' ms',
    collect_macro roots [] [] = COk (roots', ms') ->
    roots' = List.filter (fun d => negb (N.eqb (d_kind d) DirectiveTables.dir_Macro)) roots.
Proof. intros roots roots' ms' H. exact (collect_macro_keeps_order roots [] [] roots' ms' H). Qed.

(* a PASTE of an undefined macro is an error located at that PASTE *)
Theorem C10_undefined_macro_is_error :
  forall echeck ms fuel xs name pos,
    name <> [] -> macro_lookup ms name = None ->
    exists e, expand_dir echeck ms (S fuel) xs (mk_paste name pos) = CErr e /\
              e_file e = 0%N /\ e_index e = pos.
Proof. exact undefined_macro_is_error. Qed.

(* FULL STATEMENT (false of the current code): a macro that reaches itself through any chain
   of PASTEs is rejected.  Refuted (finding F3): two macros pasting each other pass the
   recursion check and the expansion never ends — it exhausts every amount of fuel (in Go:
   fatal stack overflow, the process dies). *)
Theorem C10_refuted_cycle_of_length_two :
  check_recursion 10 cyc_macros = [] /\
  forall echeck fuel xs, expand_dir echeck cyc_macros fuel xs (mk_paste (str "@a") 55) = CFuel.
Proof. exact cycle_of_length_two_refuted. Qed.

Print Assumptions C10_macros_are_removed.
Print Assumptions C10_undefined_macro_is_error.
Print Assumptions C10_refuted_cycle_of_length_two.
