(* C10 — PASTE is transparent: a macro call equals its body written in place.
   Statements only; proofs in Proofs/C10Proofs.v and Proofs/PasteInline.v.  PARTIAL: the theorems
   are about the model of the expansion phase (tied to the code by comparing expanded forests
   with the implementation on every run); that the catalog of the macro form equals the catalog
   of the textually inlined document is additionally checked metamorphically on the implementation. *)
From JS Require Import Base Bytes Scanner Directive Core Expand C10Proofs PasteInline ExpandTerm.
From JS Require DirectiveTables.
Open Scope Z_scope.

(* MACRO definitions contribute nothing: collectMacro leaves no MACRO among the roots and
   keeps every other root in its place *)
Theorem C10_macros_are_removed :
  forall roots roots' ms',
    collect_macro roots [] [] = COk (roots', ms') ->
    roots' = List.filter (fun d => negb (N.eqb (d_kind d) DirectiveTables.dir_Macro)) roots.
Proof. intros roots roots' ms' H. exact (collect_macro_keeps_order roots [] [] roots' ms' H). Qed.

(* PASTE is transparent: for every forest, macro table and fuel, whenever the MACRO/PASTE phase
   succeeds, the expanded forest is exactly what the same phase produces from the PASTE-free
   document in which every PASTE is replaced by the children of the named MACRO, recursively
   (used many times, defined after use, nested: no restriction); that document contains no
   PASTE, and expanding it registers no ENUM rule of its own *)
Theorem C10_expansion_is_inlining :
  forall enum_check fuel roots ex,
    compile_macros enum_check fuel roots = XOk ex ->
    let doc := flat_map (inline (ex_macros ex) fuel) (ex_roots ex) in
    forallb no_paste doc = true /\
    exists ys, expand_list enum_check (ex_macros ex) fuel (mkX [] None []) doc = COk ys /\
               x_forest ys = ex_forest ex /\ x_enums ys = [].
Proof. exact expanded_forest_is_the_inlined_document. Qed.

(* a macro that leads back to itself is rejected INSTEAD of being expanded, and everything the
   check accepts is expanded in bounded depth: for every forest and macro table the MACRO/PASTE
   phase does not run out of fuel once the fuel covers the height of the forest plus
   (number of macros) x (height of the highest macro body + 1).  (The chain of macros under
   expansion never repeats a macro: a repetition is a PASTE leading back to its own macro.) *)
Theorem C10_macro_phase_terminates :
  forall enum_check fuel roots roots' ms,
    collect_macro roots [] [] = COk (roots', ms) ->
    (heights roots' + 1 + List.length ms * S (Hb ms) <= fuel)%nat ->
    compile_macros enum_check fuel roots <> XFuel.
Proof. exact macro_phase_terminates. Qed.

(* a PASTE of an undefined macro is an error located at that PASTE *)
Theorem C10_undefined_macro_is_error :
  forall echeck ms fuel xs name pos,
    name <> [] -> macro_lookup ms name = None ->
    exists e, expand_dir echeck ms (S fuel) xs (mk_paste name pos) = CErr e /\
              e_file e = 0%N /\ e_index e = pos.
Proof. exact undefined_macro_is_error. Qed.

(* when the recursion check passes, no PASTE inside any macro names that macro itself or a
   macro that leads back to it through any chain of other macros *)
Theorem C10_recursion_check_sound :
  forall depth ms,
    check_recursion depth ms = None ->
    forall name m, In (name, m) ms ->
    forall p, In p (macro_pastes depth m) ->
      named p KName <> [] /\ named p KName <> name /\
      reaches (S (List.length ms)) depth ms (named p KName) name = false.
Proof. exact recursion_check_sound. Qed.

(* cycles through two and three macros are rejected at the PASTE that starts the chain
   (finding F3 — stack overflow — is fixed in /repo; this is its regression theorem) *)
Theorem C10_longer_cycles_are_rejected :
  is_recursion_error_at (check_recursion 10 cyc2) 22 = true /\
  is_recursion_error_at (check_recursion 10 cyc3) 22 = true.
Proof. exact longer_cycles_are_rejected. Qed.

Print Assumptions C10_macros_are_removed.
Print Assumptions C10_expansion_is_inlining.
Print Assumptions C10_macro_phase_terminates.
Print Assumptions C10_undefined_macro_is_error.
Print Assumptions C10_recursion_check_sound.
Print Assumptions C10_longer_cycles_are_rejected.
