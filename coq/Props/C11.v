(* C11 — directive nesting follows the language's context table, implicit or explicit.
   Statements only; proofs are in Proofs/C11Proofs.v. *)
From JS Require Import Base Bytes Scanner Directive Core Tokens C11Proofs.
From JS Require DirectiveTables ContextTable.

(* the tables regenerated from directive/enumeration.go equal the pinned JSight 0.3 tables *)
Theorem C11_table : table_check = true.
Proof. exact table_check_ok. Qed.

Theorem C11_lookup_is_table :
  forall p c, (N.to_nat p < List.length DirectiveTables.dir_keywords)%nat ->
              (N.to_nat c < List.length DirectiveTables.dir_keywords)%nat ->
    is_allowed_in p c = spec_allowed_in (name_of p) (name_of c).
Proof. exact allowed_in_is_table. Qed.

(* processContext = the declarative placement: the nearest enclosing open directive that
   admits d, implicit contexts closing silently on the way, an explicit one stopping the
   search, a method with its own path under an implicit URL becoming a new root *)
Theorem C11_attach_refines_placement :
  forall fuel f ctx d,
    (ctx_len ctx < fuel)%nat ->
    (forall n p, ancestor ctx n = Some p -> node_at f p <> None) ->
    attach fuel f ctx d = apply_placement f ctx d (place (chain fuel f ctx) d 0).
Proof. exact attach_refines_place. Qed.

(* ')' closes the innermost explicit context, or is an error when there is none *)
Theorem C11_close_refines_placement :
  forall fuel f ctx,
    (ctx_len ctx < fuel)%nat ->
    (forall n p, ancestor ctx n = Some p -> node_at f p <> None) ->
    close_explicit fuel f ctx =
    match close_place (chain fuel f ctx) 0 with
    | Some n => Some (ancestor ctx (S n))
    | None => None
    end.
Proof. exact close_refines_place. Qed.

(* FULL STATEMENT (false of the current code): a document with more '(' than ')' is never
   accepted.  Refuted: finding F15 — a method with its own path under an implicit URL inside
   an explicit MACRO abandons the whole chain, silently closing the MACRO's '('. *)
Theorem C11_refuted_explicit_closed_silently :
  exists ts, count_explicit_open ts > 0 /\ accepted (build_tokens ts [] None) = true.
Proof. exact explicit_never_silent_refuted. Qed.

Print Assumptions C11_table.
Print Assumptions C11_lookup_is_table.
Print Assumptions C11_attach_refines_placement.
Print Assumptions C11_close_refines_placement.
Print Assumptions C11_refuted_explicit_closed_silently.
