(* C06 — same project, same result.  Statements only; proofs in Proofs/C06Proofs.v.  PARTIAL.
   Proved:
   - over the inventory REGENERATED from /repo on every run: every `range` over a Go map is one
     of the reviewed, classified sites of Spec/MapRanges.v; the library starts no goroutine,
     imports no clock / random / unsafe / reflect / runtime package, formats no pointer, and
     writes no package-level variable after initialisation except `ee` inside its sync.Once;
   - for every permutation (= every iteration order the runtime may pick): an insert-only loop
     over distinct keys builds the same table; sorted output is the same list; a
     first-failure-wins loop gives the same result when nothing fails or all failures agree;
   - the model's build is a function of the project.
   Not proved: that each classified Go loop body really is of its class (review, Spec/MapRanges.v)
   - the search builds every project repeatedly in one process and in fresh processes and
   compares every observable, and compares with the model. *)
From JS Require Import Base Bytes Scanner Directive Core Expand Catalog Entry C06Proofs.
From JS Require Inventory MapRanges.
From Coq Require Import Permutation Sorted.

Theorem C06_every_map_iteration_is_a_classified_one :
  forall p f e, In ("maprange"%string, p, f, e) Inventory.inventory ->
    exists w c, In (p, map_type e, w, c) MapRanges.map_range_classes.
Proof. exact every_map_range_classified. Qed.

Theorem C06_no_goroutine_clock_random_or_pointer_formatting :
  forall r, In r Inventory.inventory ->
    kind_of r <> "go"%string /\ kind_of r <> "import"%string /\ kind_of r <> "fmt-pointer"%string.
Proof. exact no_goroutines_clock_random. Qed.

Theorem C06_inventory_obligations : inventory_deterministic = true.
Proof. exact inventory_deterministic_ok. Qed.

Theorem C06_insert_only_loops_do_not_depend_on_iteration_order :
  forall (K V : Type) (keq : K -> K -> bool), (forall a b, keq a b = true <-> a = b) ->
  forall (l l' : list (K * V)) (t : table K V),
    NoDup (List.map fst l) -> Permutation l l' ->
    forall k, fold_left (insert K V keq) l t k = fold_left (insert K V keq) l' t k.
Proof. exact insert_only_order_free. Qed.

Theorem C06_sorted_output_does_not_depend_on_iteration_order :
  forall (A : Type) (le : A -> A -> Prop), (forall a b, le a b -> le b a -> a = b) ->
  forall l1 l2, StronglySorted le l1 -> StronglySorted le l2 -> Permutation l1 l2 -> l1 = l2.
Proof. exact sorted_output_order_free. Qed.

Theorem C06_first_failure_loops :
  forall (A E : Type) (f : A -> option E) l l', Permutation l l' ->
    (first_some f l = None -> first_some f l' = None) /\
    (forall e, (forall x e', In x l -> f x = Some e' -> e' = e) -> first_some f l = Some e -> first_some f l' = Some e).
Proof.
  intros A E f l l' P. split.
  - apply first_failure_none_order_free. exact P.
  - intros e Hs. apply first_failure_same_order_free; assumption.
Qed.

Theorem C06_model_build_is_a_function :
  forall banned fs root ot et fuel fs' root',
    fs = fs' -> root = root' -> tree_case_b banned fs root ot et fuel = tree_case_b banned fs' root' ot et fuel.
Proof. exact model_build_is_a_function. Qed.

(* non-vacuity: the inventory does contain map iterations, and the classification is used *)
Example C06_inventory_has_map_ranges :
  List.length (List.filter (fun r => String.eqb (kind_of r) "maprange") Inventory.inventory) <> 0%nat.
Proof. vm_compute. discriminate. Qed.

Print Assumptions C06_every_map_iteration_is_a_classified_one.
Print Assumptions C06_no_goroutine_clock_random_or_pointer_formatting.
Print Assumptions C06_inventory_obligations.
Print Assumptions C06_insert_only_loops_do_not_depend_on_iteration_order.
Print Assumptions C06_sorted_output_does_not_depend_on_iteration_order.
Print Assumptions C06_first_failure_loops.
Print Assumptions C06_model_build_is_a_function.
