(* C15 — declaration order of independent top-level blocks does not matter.
   Statements only; proofs in Proofs/C15Proofs.v.  PARTIAL.  Proved, for every forest and
   every permutation of it (no bound on sizes):
     - collectTags accepts the permuted forest, registers the same tags (as a permutation, in
       the order of the new text) and touches nothing else;
     - a whole-forest "first error" pass (missed path variables) that accepts a forest accepts
       its permutations;
     - two TYPE blocks commute up to the order of the userTypes section;
     - REDUCTION: if adding one top-level block respects an equivalence of catalogs and two
       adjacent blocks commute up to it, add_all yields equivalent catalogs on every permutation.
   Not proved: the two hypotheses of the reduction for URL/method blocks (interaction and tag
   registration; "equivalence" = same entries, order of sections and of ids inside tags free),
   and everything inside the schema dependency (user types referring to each other).  Those are
   exercised by the search: all permutations of small documents, sampled permutations of
   larger ones, on implementation and model.
   Known finding F25: a schema example that embeds a regex user type depends on block order. *)
From JS Require Import Base Bytes Scanner Directive Core Expand Catalog C15Proofs.
From JS Require DirectiveTables.
From Coq Require Import Permutation.

Theorem C15_tags_do_not_depend_on_block_order :
  forall c ds ds' c1,
    NoDup (tag_names (c_tags c)) -> Permutation ds ds' -> collect_tags c ds = COk c1 ->
    exists c2, collect_tags c ds' = COk c2 /\
               Permutation (c_tags c1) (c_tags c2) /\
               c_tags c2 = c_tags c ++ List.map new_tag (List.filter is_tag_dir ds') /\
               set_tags c2 (c_tags c) = set_tags c (c_tags c).
Proof. exact collect_tags_perm. Qed.

Theorem C15_missed_path_pass_accepts_permutations :
  forall forest forest', Permutation forest forest' ->
    missed_path_errors forest = None -> missed_path_errors forest' = None.
Proof. exact missed_path_errors_perm. Qed.

Theorem C15_type_blocks_commute :
  forall banned c a b c1 c2,
    N.eqb (d_kind a) DirectiveTables.dir_Type = true -> N.eqb (d_kind b) DirectiveTables.dir_Type = true ->
    add_directive banned c a [] = COk c1 -> add_directive banned c1 b [] = COk c2 ->
    exists c1' c2', add_directive banned c b [] = COk c1' /\ add_directive banned c1' a [] = COk c2' /\
                    same_but_types c2 c2'.
Proof. exact type_blocks_commute. Qed.

Theorem C15_reduction_to_adjacent_blocks_partial :
  forall read_body banned fuel (equiv : catalog -> catalog -> Prop),
    (forall s, equiv s s) ->
    (forall a b c, equiv a b -> equiv b c -> equiv a c) ->
    (forall s1 s2 b s1', equiv s1 s2 -> block_step read_body banned fuel s1 b = Some s1' ->
       exists s2', block_step read_body banned fuel s2 b = Some s2' /\ equiv s1' s2') ->
    (forall s a b s1 s2, block_step read_body banned fuel s a = Some s1 -> block_step read_body banned fuel s1 b = Some s2 ->
       exists s1' s2', block_step read_body banned fuel s b = Some s1' /\ block_step read_body banned fuel s1' a = Some s2' /\ equiv s2 s2') ->
    forall ds ds' c r, Permutation ds ds' -> add_all read_body banned fuel c ds = COk r ->
      exists r', add_all read_body banned fuel c ds' = COk r' /\ equiv r r'.
Proof. exact add_all_perm_reduction. Qed.

(* non-vacuity: a forest with two tags is acceptable, and so is its reversal *)
Example C15_two_tags_acceptable :
  let t1 := mkDir DirectiveTables.dir_TAG [] (mkCoords 0 0 3) [(KTagName, bytes_of_string "@a")] [] [] None false [] [] in
  let t2 := mkDir DirectiveTables.dir_TAG [] (mkCoords 0 8 11) [(KTagName, bytes_of_string "@b")] [] [] None false [] [] in
  exists c1 c2, collect_tags empty_catalog [t1; t2] = COk c1 /\ collect_tags empty_catalog [t2; t1] = COk c2 /\
                List.map tg_name (c_tags c1) = List.rev (List.map tg_name (c_tags c2)).
Proof. cbv zeta. do 2 eexists. split; [vm_compute; reflexivity|]. split; vm_compute; reflexivity. Qed.

Print Assumptions C15_tags_do_not_depend_on_block_order.
Print Assumptions C15_missed_path_pass_accepts_permutations.
Print Assumptions C15_type_blocks_commute.
Print Assumptions C15_reduction_to_adjacent_blocks_partial.
