(* C14 — INCLUDE only reads inside the project and include cycles are errors.
   Statements only; proofs are in Proofs/C14Proofs.v.  [IncludeName.include_checks] is
   regenerated from core/include.go validateIncludeFileName on every run. *)
From JS Require Import Base Bytes Scanner Directive Core C14Proofs IncludeRoundTrip IncludeAcyclic.
From JS Require IncludeName ScannerProg.

(* for EVERY byte string: a name that passes validation does not start with '/', contains no
   backslash, and none of its '/'-separated segments is "." or ".." *)
Theorem C14_validated_name_is_safe :
  forall s, validate_include IncludeName.include_checks s = Some None ->
    (forall r, s <> 47%N :: r) /\
    contains [92%N] s = false /\
    forall seg, In seg (segments s) -> seg <> dotb /\ seg <> dotdotb.
Proof. exact validated_name_is_safe. Qed.

(* filepath.Join(filepath.Dir(includer), name) for a validated name is the includer's
   directory followed by the name's own segments: in that directory or below it *)
Theorem C14_resolved_path_is_confined :
  forall includer_dir name,
    (forall seg, In seg includer_dir -> clean_seg seg) ->
    validate_include IncludeName.include_checks name = Some None ->
    clean_segs (includer_dir ++ segments name) [] =
    includer_dir ++ List.filter (fun seg => negb (beq seg [])) (segments name).
Proof. exact resolved_path_is_confined. Qed.

(* whatever INCLUDE says, the file system is consulted at most for the one resolved path of a
   validated, non-empty name; refused names cause no access at all *)
Theorem C14_access_log :
  forall fs olen st kw r st',
    process_include ScannerProg.prog_table ScannerProg.is_newline_cond ScannerProg.is_whitespace_cond
                    fs olen ScannerProg.initial_state st kw = (r, st') ->
    cs_log st' = cs_log st \/
    exists name,
      validate_include IncludeName.include_checks name = Some None /\ name <> [] /\
      let p := join_dir (file_name st (cs_file st)) name in
      (cs_log st' = cs_log st ++ [("stat"%string, p)] \/
       cs_log st' = cs_log st ++ [("stat"%string, p); ("read"%string, p)]).
Proof. exact include_access_log. Qed.

(* the include stack never holds one file name twice: nesting depth is bounded by the number
   of distinct files, so every include cycle ends in the recursion error *)
Theorem C14_stack_names_distinct :
  forall fs olen st kw st1 st2,
    valid_ids st -> NoDup (stack_names st) ->
    process_include ScannerProg.prog_table ScannerProg.is_newline_cond ScannerProg.is_whitespace_cond
                    fs olen ScannerProg.initial_state st kw = (COk st1, st2) ->
    NoDup (stack_names st1) /\ valid_ids st1.
Proof. exact include_stack_distinct. Qed.

(* CYCLES ARE NEVER OPEN: in every state a run of scanProject passes through - any file system, any
   oracle, any include tree, any number of steps (a lexeme through JApiCore.next, an accepted
   INCLUDE, the end of an included file) - the files suspended on the scanner stack are pairwise
   distinct and every file id is valid: the INCLUDE that would close a cycle is refused *)
Theorem C14_suspended_files_are_always_distinct :
  forall fs olen root_name root_content st,
    reachable fs olen root_name root_content st ->
    valid_ids st /\ NoDup (stack_names st).
Proof. exact suspended_files_are_always_distinct. Qed.

Theorem C14_no_file_is_suspended_twice :
  forall fs olen root_name root_content st it1 it2 before between after,
    reachable fs olen root_name root_content st ->
    cs_stack st = before ++ it1 :: between ++ it2 :: after ->
    file_name st (si_file it1) <> file_name st (si_file it2).
Proof. exact no_file_is_suspended_twice. Qed.

(* non-vacuity: "sub/a.jst" passes validation, ".." and "a/../b" do not *)
Example C14_nonvacuous :
  validate_include IncludeName.include_checks (bytes_of_string "sub/a.jst") = Some None /\
  validate_include IncludeName.include_checks (bytes_of_string "..") <> Some None /\
  validate_include IncludeName.include_checks (bytes_of_string "a/../b") <> Some None.
Proof. repeat split; vm_compute; congruence. Qed.

Print Assumptions C14_validated_name_is_safe.
Print Assumptions C14_resolved_path_is_confined.
Print Assumptions C14_access_log.
Print Assumptions C14_stack_names_distinct.
Print Assumptions C14_suspended_files_are_always_distinct.
Print Assumptions C14_no_file_is_suspended_twice.
