(* C08 — layout does not change meaning.  Statements only; proofs in Proofs/C08Proofs.v.
   PARTIAL: the lexical invariances below are proved for every state of the regenerated
   scanner and every configuration; their lift to whole documents and catalogs (trivia at
   clean cut points, explicit vs implicit context, re-indentation) is covered by the
   metamorphic correspondence run, not by a theorem yet. *)
From JS Require Import Base Bytes Scanner Core C08Proofs.
From JS Require ScannerProg.

(* in every state, for every configuration, data and oracle, LF and CR trigger exactly the
   same behaviour of the step function (including every direct call and re-dispatch) *)
Theorem C08_lf_cr_interchangeable :
  forall data olen fuel st cf,
    run_step P NL WS data olen fuel st 10%N cf = run_step P NL WS data olen fuel st 13%N cf.
Proof. exact lf_cr_same_step. Qed.

(* the same for blank and tab *)
Theorem C08_blank_tab_interchangeable :
  forall data olen fuel st cf,
    run_step P NL WS data olen fuel st 32%N cf = run_step P NL WS data olen fuel st 9%N cf.
Proof. exact blank_tab_same_step. Qed.

(* quoting a bare parameter does not change its value *)
Theorem C08_quoting :
  forall p, forallb plain_byte p = true -> unquote (34%N :: p ++ [34%N]) = p.
Proof. exact unquote_quoted. Qed.

(* "// t" and "/* t */" give the same annotation *)
Theorem C08_annotation_styles :
  forall t, annotation (32%N :: t ++ [32%N]) = annotation (32%N :: t).
Proof. exact annotation_styles_agree. Qed.

Print Assumptions C08_lf_cr_interchangeable.
Print Assumptions C08_blank_tab_interchangeable.
Print Assumptions C08_quoting.
Print Assumptions C08_annotation_styles.
