(* C08 — layout does not change meaning.  Statements only; proofs in Proofs/C08Proofs.v.
   PARTIAL: the lexical invariances below are proved for every state of the regenerated
   scanner and every configuration, and LF/CR and blank/tab interchangeability is lifted to
   WHOLE FILES (Proofs/LayoutBytes.v: same lexemes, same end, for every pair of files that
   differ only in which newline / blank byte stands at each position, given the same oracle
   answers).  The other rewrites (CRLF, which changes offsets; trivia at clean cut points;
   explicit vs implicit context; re-indentation) and the lift from lexemes to catalogs are
   covered by the metamorphic correspondence run, not by a theorem. *)
From JS Require Import Base Bytes Scanner Core C08Proofs LayoutBytes.
From JS Require ScannerProg.

(* in every state, for every configuration, data and oracle, LF and CR trigger exactly the
   same behaviour of the step function (including every direct call and re-dispatch) *)
Theorem C08_lf_cr_interchangeable :
  forall data olen fuel st cf,
    run_step P NL WS data olen fuel st 10%N cf = run_step P NL WS data olen fuel st 13%N cf.
Proof. exact lf_cr_same_step. Qed.

(* the same for blank and tab *)
Theorem C08_blank_tab_interchangeable :
  forall data olen fuel st cf,
    run_step P NL WS data olen fuel st 32%N cf = run_step P NL WS data olen fuel st 9%N cf.
Proof. exact blank_tab_same_step. Qed.

(* quoting a bare parameter does not change its value *)
Theorem C08_quoting :
  forall p, forallb plain_byte p = true -> unquote (34%N :: p ++ [34%N]) = p.
Proof. exact unquote_quoted. Qed.

(* "// t" and "/* t */" give the same annotation *)
Theorem C08_annotation_styles :
  forall t, annotation (32%N :: t ++ [32%N]) = annotation (32%N :: t).
Proof. exact annotation_styles_agree. Qed.

(* WHOLE FILES: two files that differ only in the choice between LF and CR, and between blank and
   tab, position by position, are scanned to the same lexemes (kinds and extents), end in the
   same way (success, or the same error at the same byte) and leave the same configuration - for
   every such pair, every oracle, every number of Next() calls, from every configuration *)
Theorem C08_newline_and_blank_bytes_interchangeable_in_whole_files :
  forall data data' olen fuel cf,
    same_layout data data' ->
    lex_all P NL WS data olen fuel cf = lex_all P NL WS data' olen fuel cf.
Proof. exact newline_and_blank_bytes_are_interchangeable_in_whole_files. Qed.

(* and the values of the lexemes differ only in those bytes *)
Theorem C08_lexeme_values_differ_only_in_those_bytes :
  forall data data' l, same_layout data data' ->
    match lexeme_value data l, lexeme_value data' l with
    | Some v, Some w => same_layout v w
    | None, None => True
    | _, _ => False
    end.
Proof. exact lexeme_values_keep_their_layout_class. Qed.

Print Assumptions C08_newline_and_blank_bytes_interchangeable_in_whole_files.
Print Assumptions C08_lexeme_values_differ_only_in_those_bytes.
Print Assumptions C08_lf_cr_interchangeable.
Print Assumptions C08_blank_tab_interchangeable.
Print Assumptions C08_quoting.
Print Assumptions C08_annotation_styles.
