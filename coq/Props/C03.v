(* C03 — documents with a single known fault are rejected, at the fault.
   Statements only; proofs in Proofs/C03Proofs.v.  PARTIAL: one theorem per fault class is the
   goal of DESIGN.md; proved here are the uniqueness mechanisms for OperationId, SERVER and
   TYPE names and the JSIGHT-first rule, for every catalog state and position.  All 23 classes
   are injected at random sites of random valid documents on every run and checked against the
   injector's expectation and against the extracted model (message, file, index, line, column). *)
From JS Require Import Base Bytes Scanner Directive Core Expand Catalog C03Proofs.
From JS Require DirectiveTables ErrConsts.

Theorem C03_duplicate_operation_id :
  forall banned, (forall d, existsb (N.eqb (d_kind d)) banned = false) ->
  forall c d anc,
    d_kind d = DirectiveTables.dir_OperationID -> d_annot d = [] ->
    named d KOperationId <> [] -> In (named d KOperationId) (c_opids c) ->
    is_err_at (add_directive banned c d anc) d ErrConsts.jerr_NotUniqueOperationID.
Proof. exact duplicate_operation_id. Qed.

Theorem C03_duplicate_server :
  forall banned, (forall d, existsb (N.eqb (d_kind d)) banned = false) ->
  forall c d anc,
    d_kind d = DirectiveTables.dir_Server -> named d KName <> [] ->
    existsb (fun s => beq (fst (fst s)) (named d KName)) (c_servers c) = true ->
    is_err_at (add_directive banned c d anc) d ErrConsts.jerr_DuplicateNames.
Proof. exact duplicate_server. Qed.

Theorem C03_duplicate_type :
  forall banned, (forall d, existsb (N.eqb (d_kind d)) banned = false) ->
  forall c d anc,
    d_kind d = DirectiveTables.dir_Type -> named d KName <> [] ->
    existsb (fun s => beq (fst (fst s)) (named d KName)) (c_types c) = true ->
    is_err_at (add_directive banned c d anc) d ErrConsts.jerr_DuplicateNames.
Proof. exact duplicate_type. Qed.

Theorem C03_jsight_must_be_first :
  forall read_body banned fuel d rest,
    N.eqb (d_kind d) DirectiveTables.dir_Jsight = false ->
    forall c0, collect_tags empty_catalog (d :: rest) = COk c0 ->
    dup_type_error [] (d :: rest) = None ->
  type_without_body (d :: rest) = None ->
    (exists x, collect_paths fuel (d :: rest) [] None = inl x) ->
    missed_path_errors (d :: rest) = None ->
    exists e, build_catalog read_body banned fuel (d :: rest) = CErr e /\
              e_index e = co_begin (d_kw d) /\ m_args (e_msg e) = [str ErrConsts.jerr_DirectiveJSIGHTShouldBeTheFirst].
Proof. exact jsight_must_be_first. Qed.

Print Assumptions C03_duplicate_operation_id.
Print Assumptions C03_duplicate_server.
Print Assumptions C03_duplicate_type.
Print Assumptions C03_jsight_must_be_first.
