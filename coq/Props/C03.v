(* C03 — documents with a single known fault are rejected, at the fault.
   Statements only; proofs in Proofs/C03Proofs.v.  PARTIAL: one theorem per fault class is the
   goal of DESIGN.md; proved here are the uniqueness mechanisms for OperationId, SERVER and
   TYPE names and the JSIGHT-first rule, for every catalog state and position.  All 23 classes
   are injected at random sites of random valid documents on every run and checked against the
   injector's expectation and against the extracted model (message, file, index, line, column). *)
From JS Require Import Base Bytes Scanner Directive Core Expand Catalog C03Proofs C03Faults.
From JS Require DirectiveTables ErrConsts.

Theorem C03_duplicate_operation_id :
  forall banned, (forall d, existsb (N.eqb (d_kind d)) banned = false) ->
  forall c d anc,
    d_kind d = DirectiveTables.dir_OperationID -> d_annot d = [] ->
    named d KOperationId <> [] -> In (named d KOperationId) (c_opids c) ->
    is_err_at (add_directive banned c d anc) d ErrConsts.jerr_NotUniqueOperationID.
Proof. exact duplicate_operation_id. Qed.

Theorem C03_duplicate_server :
  forall banned, (forall d, existsb (N.eqb (d_kind d)) banned = false) ->
  forall c d anc,
    d_kind d = DirectiveTables.dir_Server -> named d KName <> [] ->
    existsb (fun s => beq (fst (fst s)) (named d KName)) (c_servers c) = true ->
    is_err_at (add_directive banned c d anc) d ErrConsts.jerr_DuplicateNames.
Proof. exact duplicate_server. Qed.

Theorem C03_duplicate_type :
  forall banned, (forall d, existsb (N.eqb (d_kind d)) banned = false) ->
  forall c d anc,
    d_kind d = DirectiveTables.dir_Type -> named d KName <> [] ->
    existsb (fun s => beq (fst (fst s)) (named d KName)) (c_types c) = true ->
    is_err_at (add_directive banned c d anc) d ErrConsts.jerr_DuplicateNames.
Proof. exact duplicate_type. Qed.

Theorem C03_jsight_must_be_first :
  forall read_body banned fuel d rest,
    N.eqb (d_kind d) DirectiveTables.dir_Jsight = false ->
    forall c0, collect_tags empty_catalog (d :: rest) = COk c0 ->
    dup_type_error [] (d :: rest) = None ->
  type_without_body (d :: rest) = None ->
    (exists x, collect_paths fuel (d :: rest) [] None = inl x) ->
    missed_path_errors (d :: rest) = None ->
    exists e, build_catalog read_body banned fuel (d :: rest) = CErr e /\
              e_index e = co_begin (d_kw d) /\ m_args (e_msg e) = [str ErrConsts.jerr_DirectiveJSIGHTShouldBeTheFirst].
Proof. exact jsight_must_be_first. Qed.

(* ---- further fault classes (Proofs/C03Faults.v); refused_with / refused_required: an error located on
   the directive itself (file and keyword index) with the plain message / the required-parameter message ---- *)
Theorem C03_repeated_jsight :
  forall banned, (forall d, existsb (N.eqb (d_kind d)) banned = false) ->
  forall c d anc,
    d_kind d = DirectiveTables.dir_Jsight -> named d KVersion = str "0.3" -> d_annot d = [] -> c_jsight c <> [] ->
    refused_with (add_directive banned c d anc) d ErrConsts.jerr_DirectiveJSIGHTGottaBeOnlyOneTime.
Proof. exact repeated_jsight. Qed.

Theorem C03_second_info :
  forall banned, (forall d, existsb (N.eqb (d_kind d)) banned = false) ->
  forall c d anc i,
    d_kind d = DirectiveTables.dir_Info -> d_named d = [] -> d_annot d = [] -> c_info c = Some i ->
    refused_with (add_directive banned c d anc) d ErrConsts.jerr_DirectiveINFOGottaBeOnlyOneTime.
Proof. exact second_info. Qed.

Theorem C03_second_title :
  forall banned, (forall d, existsb (N.eqb (d_kind d)) banned = false) ->
  forall c d anc i,
    d_kind d = DirectiveTables.dir_Title -> named d KTitle <> [] -> d_annot d = [] -> c_info c = Some i -> in_title i <> [] ->
    refused_with (add_directive banned c d anc) d ErrConsts.jerr_NotUniqueDirective.
Proof. exact second_title. Qed.

Theorem C03_second_version :
  forall banned, (forall d, existsb (N.eqb (d_kind d)) banned = false) ->
  forall c d anc i,
    d_kind d = DirectiveTables.dir_Version -> named d KVersion <> [] -> d_annot d = [] -> c_info c = Some i -> in_version i <> [] ->
    refused_with (add_directive banned c d anc) d ErrConsts.jerr_NotUniqueDirective.
Proof. exact second_version. Qed.

Theorem C03_second_base_url :
  forall banned, (forall d, existsb (N.eqb (d_kind d)) banned = false) ->
  forall c d srv rest sn sa b,
    d_kind d = DirectiveTables.dir_BaseURL -> named d KPath <> [] -> d_annot d = [] ->
    List.find (fun s => beq (fst (fst s)) (named srv KName)) (c_servers c) = Some (sn, sa, b) -> b <> [] ->
    refused_with (add_directive banned c d (srv :: rest)) d ErrConsts.jerr_DirectiveBaseURLAlreadyDefined.
Proof. exact second_base_url. Qed.

Theorem C03_second_query :
  forall banned, (forall d, existsb (N.eqb (d_kind d)) banned = false) ->
  forall c d anc id m p h q,
    d_kind d = DirectiveTables.dir_Query -> d_annot d = [] -> has_body d = true ->
    http_id d anc = inl (id, m, p) -> find_http c id = Some h -> hi_query h = Some q ->
    refused_with (add_directive banned c d anc) d ErrConsts.jerr_NotUniqueDirective.
Proof. exact second_query. Qed.

Theorem C03_second_request_headers :
  forall banned, (forall d, existsb (N.eqb (d_kind d)) banned = false) ->
  forall c d p rest id m pa h r x,
    d_kind d = DirectiveTables.dir_Headers -> d_annot d = [] -> has_body d = true ->
    d_kind p = DirectiveTables.dir_Request ->
    http_id d (p :: rest) = inl (id, m, pa) -> find_http c id = Some h -> hi_request h = Some r -> rq_headers r = Some x ->
    refused_with (add_directive banned c d (p :: rest)) d ErrConsts.jerr_NotUniqueDirective.
Proof. exact second_request_headers. Qed.

Theorem C03_second_response_headers :
  forall banned, (forall d, existsb (N.eqb (d_kind d)) banned = false) ->
  forall c d p rest id m pa h lastr before x,
    d_kind d = DirectiveTables.dir_Headers -> d_annot d = [] -> has_body d = true ->
    d_kind p = DirectiveTables.dir_HTTPResponseCode ->
    http_id d (p :: rest) = inl (id, m, pa) -> find_http c id = Some h -> rev (hi_responses h) = lastr :: before -> rs_headers lastr = Some x ->
    refused_with (add_directive banned c d (p :: rest)) d ErrConsts.jerr_NotUniqueDirective.
Proof. exact second_response_headers. Qed.

Theorem C03_second_protocol :
  forall banned, (forall d, existsb (N.eqb (d_kind d)) banned = false) ->
  forall c d p rest,
    d_kind d = DirectiveTables.dir_Protocol -> d_annot d = [] -> named d KProtocolName = str "json-rpc-2.0" ->
    existsb (fun x => N.eqb (co_file x) (co_file (d_kw p)) && (co_begin x =? co_begin (d_kw p))) (c_protocol_urls c) = true ->
    refused_with (add_directive banned c d (p :: rest)) d ErrConsts.jerr_NotUniqueDirective.
Proof. exact second_protocol. Qed.

Theorem C03_second_params :
  forall banned, (forall d, existsb (N.eqb (d_kind d)) banned = false) ->
  forall c d anc id m p r,
    d_kind d = DirectiveTables.dir_Params -> d_annot d = [] -> has_body d = true ->
    rpc_id d anc = inl (id, m, p) -> find_rpc c id = Some r -> ri_params r = true ->
    refused_with (add_directive banned c d anc) d ErrConsts.jerr_NotUniqueDirective.
Proof. exact second_params. Qed.

Theorem C03_second_result :
  forall banned, (forall d, existsb (N.eqb (d_kind d)) banned = false) ->
  forall c d anc id m p r,
    d_kind d = DirectiveTables.dir_Result -> d_annot d = [] -> has_body d = true ->
    rpc_id d anc = inl (id, m, p) -> find_rpc c id = Some r -> ri_result r = true ->
    refused_with (add_directive banned c d anc) d ErrConsts.jerr_NotUniqueDirective.
Proof. exact second_result. Qed.

Theorem C03_duplicate_http_interaction :
  forall banned, (forall d, existsb (N.eqb (d_kind d)) banned = false) ->
  forall c d anc c1 pp id m p x,
    is_method (d_kind d) = true -> check_paths c d anc = inl (c1, pp) -> http_id d anc = inl (id, m, p) ->
    find_inter (c_inters c1) id = Some x ->
    exists e, add_directive banned c d anc = CErr e /\ e_file e = co_file (d_kw d) /\ e_index e = co_begin (d_kw d) /\
              e_msg e = mkMsg "%s %q" [str ErrConsts.jerr_MethodIsAlreadyDefinedInResource; id].
Proof. exact duplicate_http_interaction. Qed.

Theorem C03_duplicate_rpc_method :
  forall banned, (forall d, existsb (N.eqb (d_kind d)) banned = false) ->
  forall c d p rest id m pa x,
    d_kind d = DirectiveTables.dir_Method -> named d KMethodName <> [] ->
    existsb (fun x => N.eqb (d_kind x) DirectiveTables.dir_Protocol) (d_children p) = true ->
    rpc_id d (p :: rest) = inl (id, m, pa) -> find_inter (c_inters c) id = Some x ->
    exists e, add_directive banned c d (p :: rest) = CErr e /\ e_file e = co_file (d_kw d) /\ e_index e = co_begin (d_kw d) /\
              e_msg e = mkMsg "%s %q" [str ErrConsts.jerr_MethodIsAlreadyDefinedInResource; id].
Proof. exact duplicate_rpc_method. Qed.

Theorem C03_server_without_name :
  forall banned, (forall d, existsb (N.eqb (d_kind d)) banned = false) ->
  forall c d anc,
    d_kind d = DirectiveTables.dir_Server -> named d KName = [] -> refused_required (add_directive banned c d anc) d "Name".
Proof. exact server_without_name. Qed.

Theorem C03_type_without_name :
  forall banned, (forall d, existsb (N.eqb (d_kind d)) banned = false) ->
  forall c d anc,
    d_kind d = DirectiveTables.dir_Type -> named d KName = [] -> refused_required (add_directive banned c d anc) d "Name".
Proof. exact type_without_name. Qed.

Theorem C03_title_without_text :
  forall banned, (forall d, existsb (N.eqb (d_kind d)) banned = false) ->
  forall c d anc,
    d_kind d = DirectiveTables.dir_Title -> named d KTitle = [] -> refused_required (add_directive banned c d anc) d "Title".
Proof. exact title_without_text. Qed.

Theorem C03_method_without_name :
  forall banned, (forall d, existsb (N.eqb (d_kind d)) banned = false) ->
  forall c d anc,
    d_kind d = DirectiveTables.dir_Method -> named d KMethodName = [] -> refused_required (add_directive banned c d anc) d "MethodName".
Proof. exact method_without_name. Qed.

Theorem C03_operation_id_without_value :
  forall banned, (forall d, existsb (N.eqb (d_kind d)) banned = false) ->
  forall c d anc,
    d_kind d = DirectiveTables.dir_OperationID -> named d KOperationId = [] -> refused_required (add_directive banned c d anc) d "OperationId".
Proof. exact operation_id_without_value. Qed.

Theorem C03_query_without_body :
  forall banned, (forall d, existsb (N.eqb (d_kind d)) banned = false) ->
  forall c d anc,
    d_kind d = DirectiveTables.dir_Query -> d_annot d = [] -> has_body d = false ->
    refused_with (add_directive banned c d anc) d ErrConsts.jerr_BodyIsEmpty.
Proof. exact query_without_body. Qed.

Theorem C03_headers_without_body :
  forall banned, (forall d, existsb (N.eqb (d_kind d)) banned = false) ->
  forall c d anc,
    d_kind d = DirectiveTables.dir_Headers -> d_annot d = [] -> has_body d = false ->
    refused_with (add_directive banned c d anc) d ErrConsts.jerr_BodyIsEmpty.
Proof. exact headers_without_body. Qed.

Theorem C03_params_or_result_without_body :
  forall banned, (forall d, existsb (N.eqb (d_kind d)) banned = false) ->
  forall c d anc,
    (d_kind d = DirectiveTables.dir_Params \/ d_kind d = DirectiveTables.dir_Result) -> d_annot d = [] -> has_body d = false ->
    refused_with (add_directive banned c d anc) d ErrConsts.jerr_BodyIsEmpty.
Proof. exact params_or_result_without_body. Qed.

Theorem C03_description_without_text :
  forall banned, (forall d, existsb (N.eqb (d_kind d)) banned = false) ->
  forall c d anc,
    d_kind d = DirectiveTables.dir_Description -> d_annot d = [] -> has_body d = false ->
    refused_with (add_directive banned c d anc) d ErrConsts.jerr_DescriptionIsEmpty.
Proof. exact description_without_text. Qed.

Theorem C03_forbidden_annotation :
  forall banned, (forall d, existsb (N.eqb (d_kind d)) banned = false) ->
  forall c d anc,
    In (d_kind d) annot_free_kinds -> d_annot d <> [] -> (d_kind d = DirectiveTables.dir_Info -> d_named d = []) ->
    refused_with (add_directive banned c d anc) d ErrConsts.jerr_AnnotationIsForbiddenForTheDirective.
Proof. exact forbidden_annotation. Qed.

Print Assumptions C03_duplicate_operation_id.
Print Assumptions C03_duplicate_server.
Print Assumptions C03_duplicate_type.
Print Assumptions C03_jsight_must_be_first.
Print Assumptions C03_repeated_jsight.
Print Assumptions C03_second_info.
Print Assumptions C03_second_title.
Print Assumptions C03_second_version.
Print Assumptions C03_second_base_url.
Print Assumptions C03_second_query.
Print Assumptions C03_second_request_headers.
Print Assumptions C03_second_response_headers.
Print Assumptions C03_second_protocol.
Print Assumptions C03_second_params.
Print Assumptions C03_second_result.
Print Assumptions C03_duplicate_http_interaction.
Print Assumptions C03_duplicate_rpc_method.
Print Assumptions C03_server_without_name.
Print Assumptions C03_type_without_name.
Print Assumptions C03_title_without_text.
Print Assumptions C03_method_without_name.
Print Assumptions C03_operation_id_without_value.
Print Assumptions C03_query_without_body.
Print Assumptions C03_headers_without_body.
Print Assumptions C03_params_or_result_without_body.
Print Assumptions C03_description_without_text.
Print Assumptions C03_forbidden_annotation.
