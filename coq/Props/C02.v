(* C02 — the catalog says exactly what the document says.
   Statements only; proofs in Proofs/C02Proofs.v.  PARTIAL: the round-trip theorem
   build (render (tokens a) l) = expected a of DESIGN.md is not proved; proved are the locality
   and order lemmas of the catalog model below, including - for every directive, catalog state
   and forest - that interactions are only ever appended, in document order, each id once (with the tag lemmas of Props/C05.v and the
   placement theorem of Props/C11.v).  The round trip itself is checked on every run against an
   expected catalog computed from the abstract model by an independent oracle (lib/expected.py)
   and against the extracted catalog model. *)
From JS Require Import Base Bytes Scanner Directive Core Expand Catalog C02Proofs CatalogOrder CatalogExact.
From JS Require DirectiveTables.

Theorem C02_updates_are_local :
  forall is id id' f, id' <> id -> (forall i, inter_id (f i) = inter_id i) ->
    find_inter (update_inter is id f) id' = find_inter is id'.
Proof. exact update_is_local. Qed.

Theorem C02_updates_keep_document_order :
  forall is id f, (forall i, inter_id (f i) = inter_id i) ->
    List.map inter_id (update_inter is id f) = List.map inter_id is.
Proof. exact update_keeps_order. Qed.

Theorem C02_id_of_method_with_own_path :
  forall d anc p,
    is_http_request_method (d_kind d) = true -> N.eqb (d_kind d) DirectiveTables.dir_URL = false ->
    named d KPath = 47%N :: p ->
    http_id d anc = inl (str "http " ++ kind_name (d_kind d) ++ sp ++ 47%N :: p, kind_name (d_kind d), 47%N :: p).
Proof. exact method_id_own_path. Qed.

Theorem C02_id_of_method_in_url :
  forall d u rest p,
    is_http_request_method (d_kind d) = true -> N.eqb (d_kind d) DirectiveTables.dir_URL = false ->
    named d KPath = [] ->
    N.eqb (d_kind u) DirectiveTables.dir_URL = true -> named u KPath = 47%N :: p ->
    http_id d (u :: rest) = inl (str "http " ++ kind_name (d_kind d) ++ sp ++ 47%N :: p, kind_name (d_kind d), 47%N :: p).
Proof. exact method_id_from_url. Qed.

(* nothing invented, nothing dropped, document order: whatever the directive, the catalog state and
   the outcome of the checks, adding it leaves the list of interaction ids as it is or appends
   exactly one id that was not there ... *)
Theorem C02_a_directive_appends_at_most_one_new_interaction :
  forall banned c d anc c', add_directive banned c d anc = COk c' -> step_ok c c'.
Proof. exact add_directive_step. Qed.

(* ... and so, for every forest, the ids after the interaction pass are the ids before followed
   by the new ones, in the order their directives are visited, without repetition *)
Theorem C02_interactions_are_appended_in_document_order :
  forall read_body banned fuel ds c c', add_all read_body banned fuel c ds = COk c' -> ext c c'.
Proof. exact add_all_ext. Qed.

Theorem C02_built_catalog_lists_every_interaction_once :
  forall read_body banned fuel forest c, build_catalog read_body banned fuel forest = COk c -> NoDup (ids c).
Proof. exact built_catalog_ids_distinct. Qed.

(* ... exactly: for every forest, ban list and body text, the interaction ids of the built catalog are
   the ids of the HTTP-method and JSON-RPC Method directives met in a pre-order walk of the forest -
   nothing missing, nothing invented, nothing reordered (own_ids: the id a directive stands for) *)
Theorem C02_interactions_are_exactly_the_method_directives_in_document_order :
  forall read_body banned fuel forest c,
    build_catalog read_body banned fuel forest = COk c -> ids c = forest_ids fuel forest.
Proof. exact built_catalog_interactions_are_exactly_the_method_directives. Qed.

Print Assumptions C02_updates_are_local.
Print Assumptions C02_a_directive_appends_at_most_one_new_interaction.
Print Assumptions C02_interactions_are_appended_in_document_order.
Print Assumptions C02_built_catalog_lists_every_interaction_once.
Print Assumptions C02_interactions_are_exactly_the_method_directives_in_document_order.
Print Assumptions C02_updates_keep_document_order.
Print Assumptions C02_id_of_method_with_own_path.
Print Assumptions C02_id_of_method_in_url.
