(* C12 — the scanner reports exactly the lexemes that are in the text.
   Statements only; proofs in Proofs/C12Proofs.v.  PARTIAL: the unbounded well-formedness
   statement that lexemes are ORDERED and cover exactly the written pieces is not proved
   (inside the file, begin <= end + 1 and well-bracketing are); what is proved
   for all inputs is listed below (well-bracketed events, event tables, offsets), the rest is covered by the per-Next() correspondence and the exactness runs. *)
From JS Require Import Base Bytes Scanner ScanRun C12Proofs EventSafe.
From JS Require ProjectSafe Core.
From JS Require ExtentSafe InFile OrderSafe GrammarSafe.
From Coq Require Import Lia.
From JS Require LexemeEvents ScannerProg.
Open Scope Z_scope.

(* every found/foundAt of the regenerated program is at the cursor or one/two bytes before
   it; every explicit cursor adjustment is a rewind by one or two *)
Theorem C12_event_offsets_partial : program_offsets_ok ScannerProg.prog_table = true.
Proof. exact program_offsets_ok_ok. Qed.

(* the regenerated event tables partition the events into begin / end / single, every ending
   has a beginning it pairs with, every event maps to a lexeme type *)
Theorem C12_event_tables : event_tables_ok = true.
Proof. exact event_tables_ok_ok. Qed.

(* a lexeme is made only from a matching begin/end pair (extent = the two event positions)
   or from a single event *)
Theorem C12_lexeme_from_events :
  forall cf ev l cf',
    process_event cf ev = ROk (Some l, cf') ->
    (exists b bpos es, c_estack cf = (b, bpos) :: es /\ pair_ok b (fst ev) = true /\
                       lb l = bpos /\ le l = snd ev /\ c_estack cf' = es /\
                       LexemeEvents.ev_ToLexemeType (fst ev) = Some (lk l))
    \/ (LexemeEvents.ev_IsSingle (fst ev) = true /\ lb l = snd ev /\ le l = snd ev /\
        c_estack cf' = c_estack cf /\ LexemeEvents.ev_ToLexemeType (fst ev) = Some (lk l)).
Proof. exact lexeme_from_events. Qed.

(* for EVERY input, every oracle answer and any number of Next() calls: the lexeme events are well
   bracketed - processing the queued events never pops an empty event stack and never meets an
   event without a lexeme type; with C12_lexeme_from_events: every lexeme the scanner returns
   comes from a Begin event and the matching End event of its own kind, in the order the step
   functions found them.  (The pending-Begin stack of every state is inferred from the
   regenerated program, checked by symbolic execution of every path, and the checker is proved
   sound against the interpreter, including the lazily drained event queue and end of file.) *)
Theorem C12_lexeme_events_are_well_bracketed :
  forall data tbl fuel,
    let '(_, e, _) := lex_traj data tbl fuel (init_conf ScannerProg.initial_state) in
    e <> EndPanic PEventStackEmpty /\ e <> EndPanic PLexemeType.
Proof. exact lexeme_events_are_well_bracketed. Qed.

(* for EVERY input: no lexeme the scanner returns ends more than one byte before it begins
   (Begin <= End + 1; an empty lexeme has End = Begin - 1).  This is the class of finding F2
   ("/*/" gave End = Begin - 2 and Value() panicked): with the repair in /repo the checker passes,
   without it the proof does not go through.  Lower bounds of "cursor - Begin position" per
   state and pending Begin are inferred from the regenerated program, checked by symbolic execution
   of every path (with what each path knows about the byte under the cursor), and the checker is
   proved sound against the interpreter. *)
Theorem C12_lexeme_extents_are_never_inverted :
  forall data tbl fuel,
    let '(ls, _, _) := lex_traj data tbl fuel (init_conf ScannerProg.initial_state) in
    Forall (fun l => lb l <= le l + 1) ls.
Proof. exact ExtentSafe.lexeme_extents_are_never_inverted. Qed.

(* text order, no overlap: for EVERY input and every oracle table, each lexeme of a file begins
   after the end of the lexeme delivered before it (the first at an offset >= 0) and ends no
   earlier than one byte before its own beginning.  Whether a Begin event is pending and how far
   behind the cursor the last event lies are inferred per state from the regenerated program,
   checked by symbolic execution of every path (calls/re-dispatches inlined, one branch per state
   that can be popped, what is known of the current byte tracked), checker proved sound. *)
Theorem C12_lexemes_come_in_text_order_without_overlap :
  forall data tbl, let '(ls, _, _) := scan_case data tbl in OrderSafe.chain_ok (-1) ls.
Proof. exact OrderSafe.lexemes_of_a_file_are_ordered. Qed.

(* well-bracketed per directive: for EVERY input and every oracle table, the kinds of the lexemes
   of a file form a word of
     ( Keyword Parameter* Annotation? ContextOpen* Body? | ContextOpen | ContextClose )*
   (Body = Schema | Json | Text | Enum), given as the four-state automaton GrammarSafe.delta:
   a parameter only after the keyword or a parameter, the annotation only after those, a body
   only inside a directive that has none yet.  Automaton states per (scanner state, top of the
   return-state stack) inferred from the regenerated program, checked on every path, checker
   proved sound. *)
Theorem C12_lexeme_kinds_are_well_bracketed_per_directive :
  forall data tbl, let '(ls, _, _) := scan_case data tbl in
    GrammarSafe.dfa_run GrammarSafe.DN (List.map lk ls) <> None.
Proof. exact GrammarSafe.lexeme_kinds_of_a_file_follow_the_grammar. Qed.

(* for EVERY input: every lexeme lies inside the file (0 <= Begin, End <= size - 1) - provided
   the schema-length oracle (jsight-schema-core) never claims a schema longer than the rest of the
   file; that contract is asserted on every answer the harness records.  Every event position of
   every path of every step function is checked against what the path knows (cursor inside
   [0, size] when a step starts; below size when the byte is known not to be the end-of-file
   byte; explicit cursor moves are rewinds); no inferred table. *)
Theorem C12_lexemes_lie_inside_the_file :
  forall data tbl fuel, InFile.table_in_file data tbl ->
    let '(ls, _, _) := lex_traj data tbl fuel (init_conf ScannerProg.initial_state) in
    Forall (fun l => 0 <= lb l /\ le l <= data_size data - 1) ls.
Proof. exact InFile.lexemes_lie_inside_the_file. Qed.

(* hence Lexeme.Value() is defined for every lexeme the scanner returns (Go would panic on an
   inverted or out-of-file slice: finding F2) *)
Theorem C12_lexeme_values_are_defined :
  forall data tbl fuel, InFile.table_in_file data tbl ->
    let '(ls, _, _) := lex_traj data tbl fuel (init_conf ScannerProg.initial_state) in
    Forall (fun l => lexeme_value data l <> None) ls.
Proof.
  intros data tbl fuel TB.
  pose proof (InFile.lexemes_lie_inside_the_file data tbl fuel TB) as A.
  pose proof (ExtentSafe.lexeme_extents_are_never_inverted data tbl fuel) as B.
  destruct (lex_traj data tbl fuel (init_conf ScannerProg.initial_state)) as [[ls e] tr].
  rewrite Forall_forall in *. intros l Hl. specialize (A l Hl). specialize (B l Hl).
  unfold lexeme_value.
  replace (lb l <? 0) with false by (symmetry; apply Z.ltb_ge; lia).
  replace (le l + 1 <? lb l) with false by (symmetry; apply Z.ltb_ge; lia).
  replace (Z.of_nat (List.length data) <? le l + 1) with false by (symmetry; apply Z.ltb_ge; unfold data_size in A; lia).
  discriminate.
Qed.

(* ... and in every configuration the scanner can reach, the next queued event is processed
   successfully (never the "Ending lexeme event does not match beginning event" error) *)
Theorem C12_queued_events_always_process :
  forall cf ev fs e,
    c_finds cf = ev :: fs -> eff cf = Some e ->
    exists o cf', process_event (set_finds cf fs) ev = ROk (o, cf') /\ eff cf' = Some e /\
                  c_step cf' = c_step cf /\ c_sstack cf' = c_sstack cf /\ c_cur cf' = c_cur cf /\ c_finds cf' = fs.
Proof. exact process_event_eff. Qed.

(* regression for finding F2 (fixed in /repo): "GET /a /*/" is an error, not an annotation
   lexeme with end before begin *)
Theorem C12_f2_regression :
  forallb (well_formed (Z.of_nat (List.length f2_input))) (fst (fst (scan_case f2_input []))) = true /\
  match snd (fst (scan_case f2_input [])) with EndErr _ => true | _ => false end = true.
Proof. exact f2_regression. Qed.

(* FOR WHOLE PROJECTS (Proofs/ProjectSafe.v): every lexeme Next() delivers during a run of
   scanProject - in the root file or any included file, after any number of suspensions and
   resumptions, the INCLUDE keyword and its file name included - has a well-formed extent *)
Theorem C12_project_lexeme_extents_are_never_inverted :
  forall fs olen root_name root_content fuel,
    Forall (fun st => match Core.scan_next ScannerProg.prog_table ScannerProg.is_newline_cond ScannerProg.is_whitespace_cond olen st with
                      | ROk (Some l, _) => lb l <= le l + 1
                      | _ => True
                      end)
           (ProjectSafe.next_calls fs olen fuel (Core.initial_cstate ScannerProg.initial_state root_name root_content)).
Proof. exact ProjectSafe.project_lexeme_extents_are_never_inverted. Qed.

Print Assumptions C12_lexeme_events_are_well_bracketed.
Print Assumptions C12_queued_events_always_process.
Print Assumptions C12_lexeme_extents_are_never_inverted.
Print Assumptions C12_lexemes_come_in_text_order_without_overlap.
Print Assumptions C12_lexeme_kinds_are_well_bracketed_per_directive.
Print Assumptions C12_lexemes_lie_inside_the_file.
Print Assumptions C12_lexeme_values_are_defined.
Print Assumptions C12_event_offsets_partial.
Print Assumptions C12_event_tables.
Print Assumptions C12_lexeme_from_events.
Print Assumptions C12_f2_regression.
Print Assumptions C12_project_lexeme_extents_are_never_inverted.
