(* C12 — the scanner reports exactly the lexemes that are in the text.
   Statements only; proofs in Proofs/C12Proofs.v.  PARTIAL: the unbounded well-formedness
   statement (S1/S4 of DESIGN.md) is not proved; what is proved for all inputs is listed
   below, the rest is covered by the per-Next() correspondence and the exactness runs. *)
From JS Require Import Base Bytes Scanner ScanRun C12Proofs.
From JS Require LexemeEvents ScannerProg.
Open Scope Z_scope.

(* every found/foundAt of the regenerated program is at the cursor or one/two bytes before
   it; every explicit cursor adjustment is a rewind by one or two *)
Theorem C12_event_offsets_partial : program_offsets_ok ScannerProg.prog_table = true.
Proof. exact program_offsets_ok_ok. Qed.

(* the regenerated event tables partition the events into begin / end / single, every ending
   has a beginning it pairs with, every event maps to a lexeme type *)
Theorem C12_event_tables : event_tables_ok = true.
Proof. exact event_tables_ok_ok. Qed.

(* a lexeme is made only from a matching begin/end pair (extent = the two event positions)
   or from a single event *)
Theorem C12_lexeme_from_events :
  forall cf ev l cf',
    process_event cf ev = ROk (Some l, cf') ->
    (exists b bpos es, c_estack cf = (b, bpos) :: es /\ pair_ok b (fst ev) = true /\
                       lb l = bpos /\ le l = snd ev /\ c_estack cf' = es /\
                       LexemeEvents.ev_ToLexemeType (fst ev) = Some (lk l))
    \/ (LexemeEvents.ev_IsSingle (fst ev) = true /\ lb l = snd ev /\ le l = snd ev /\
        c_estack cf' = c_estack cf /\ LexemeEvents.ev_ToLexemeType (fst ev) = Some (lk l)).
Proof. exact lexeme_from_events. Qed.

(* regression for finding F2 (fixed in /repo): "GET /a /*/" is an error, not an annotation
   lexeme with end before begin *)
Theorem C12_f2_regression :
  forallb (well_formed (Z.of_nat (List.length f2_input))) (fst (fst (scan_case f2_input []))) = true /\
  match snd (fst (scan_case f2_input [])) with EndErr _ => true | _ => false end = true.
Proof. exact f2_regression. Qed.

Print Assumptions C12_event_offsets_partial.
Print Assumptions C12_event_tables.
Print Assumptions C12_lexeme_from_events.
Print Assumptions C12_f2_regression.
