(* C19 — banned directives are always rejected and never change anything else.
   Statements only; proofs in Proofs/C19Proofs.v.  PARTIAL: the theorems are about the
   forest the ban check walks (the expanded forest); "builds exactly as without the option"
   for the rest of the pipeline is checked on the implementation (identical JSON). *)
From JS Require Import Base Bytes Scanner Directive Core Expand Ban C19Proofs.
From JS Require DirectiveTables.

Theorem C19_first_banned_directive_is_found :
  forall fuel banned forest d,
    In d (preorder fuel forest) -> is_banned banned d = true ->
    exists d0 before after,
      first_banned fuel banned forest = Some d0 /\ is_banned banned d0 = true /\
      preorder fuel forest = before ++ d0 :: after /\
      forallb (fun x => negb (is_banned banned x)) before = true.
Proof. exact ban_finds_first. Qed.

Theorem C19_neutral_when_absent :
  forall fuel banned forest,
    forallb (fun d => negb (is_banned banned d)) (preorder fuel forest) = true ->
    first_banned fuel banned forest = None.
Proof. exact ban_neutral. Qed.

(* FULL STATEMENT refuted: finding F18 *)
Theorem C19_refuted_include_macro_paste_unused_body :
  f18_kinds <> [] /\
  forallb (fun k => negb (existsb (N.eqb k)
     [DirectiveTables.dir_Include; DirectiveTables.dir_Macro; DirectiveTables.dir_Paste;
      DirectiveTables.dir_Request])) f18_kinds = true.
Proof. exact ban_not_consulted_refuted. Qed.

Print Assumptions C19_first_banned_directive_is_found.
Print Assumptions C19_neutral_when_absent.
Print Assumptions C19_refuted_include_macro_paste_unused_body.
