(* C19 — banned directives are always rejected and never change anything else.
   Statements only; proofs in Proofs/C19Proofs.v and Proofs/BanBuild.v.  Proved for the whole
   catalog build of the model, for every forest, ban list, body text and fuel: no banned kind in
   the forest -> the build equals the build without the option; a banned kind in the forest ->
   refused with the not-allowed error on a banned directive of the forest, unless the build fails
   identically with and without the option.  PARTIAL: "the forest" is the expanded forest the
   builder walks; for kinds that never reach it (INCLUDE, MACRO, PASTE, bodies of unused macros)
   the full statement is refuted (F18).  "Exactly as without the option" for the phases before
   the builder holds trivially in the model (they do not take the option) and is checked on the
   implementation (identical JSON / identical error). *)
From JS Require Import BanBuild.
From JS Require Import Base Bytes Scanner Directive Core Expand Ban C19Proofs.
From JS Require DirectiveTables.

Theorem C19_first_banned_directive_is_found :
  forall fuel banned forest d,
    In d (preorder fuel forest) -> is_banned banned d = true ->
    exists d0 before after,
      first_banned fuel banned forest = Some d0 /\ is_banned banned d0 = true /\
      preorder fuel forest = before ++ d0 :: after /\
      forallb (fun x => negb (is_banned banned x)) before = true.
Proof. exact ban_finds_first. Qed.

Theorem C19_neutral_when_absent :
  forall fuel banned forest,
    forallb (fun d => negb (is_banned banned d)) (preorder fuel forest) = true ->
    first_banned fuel banned forest = None.
Proof. exact ban_neutral. Qed.

(* THE WHOLE BUILD of the model (collectTags, the rule passes, addDirectives, validateCatalog), for
   every forest, ban list, body text and fuel: a forest in which no banned kind occurs at any
   depth builds exactly as without the option ... *)
Theorem C19_build_is_unchanged_when_no_banned_kind_occurs :
  forall read_body banned fuel forest,
    all_unbanned banned forest = true ->
    Catalog.build_catalog read_body banned fuel forest = Catalog.build_catalog read_body [] fuel forest.
Proof. exact build_neutral_when_no_banned_kind_occurs. Qed.

(* ... and a forest in which one occurs is refused: with the not-allowed error on a banned
   directive of that forest, unless the build fails identically with and without the option
   (another error comes first) *)
Theorem C19_build_refuses_a_banned_kind :
  forall read_body banned fuel forest,
    all_unbanned banned forest = false ->
    (exists d0, is_banned banned d0 = true /\ within_forest d0 forest /\
                Catalog.build_catalog read_body banned fuel forest = not_allowed d0) \/
    (Catalog.build_catalog read_body banned fuel forest = Catalog.build_catalog read_body [] fuel forest /\
     is_ok (Catalog.build_catalog read_body [] fuel forest) = false).
Proof. exact build_refuses_a_banned_kind. Qed.

Theorem C19_accepted_build_has_no_banned_kind :
  forall read_body banned fuel forest c,
    Catalog.build_catalog read_body banned fuel forest = Core.COk c -> all_unbanned banned forest = true.
Proof. exact accepted_build_has_no_banned_kind. Qed.


(* FULL STATEMENT refuted: finding F18 *)
Theorem C19_refuted_include_macro_paste_unused_body :
  f18_kinds <> [] /\
  forallb (fun k => negb (existsb (N.eqb k)
     [DirectiveTables.dir_Include; DirectiveTables.dir_Macro; DirectiveTables.dir_Paste;
      DirectiveTables.dir_Request])) f18_kinds = true.
Proof. exact ban_not_consulted_refuted. Qed.

Print Assumptions C19_first_banned_directive_is_found.
Print Assumptions C19_neutral_when_absent.
Print Assumptions C19_refuted_include_macro_paste_unused_body.
Print Assumptions C19_build_is_unchanged_when_no_banned_kind_occurs.
Print Assumptions C19_build_refuses_a_banned_kind.
Print Assumptions C19_accepted_build_has_no_banned_kind.
