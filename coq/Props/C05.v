(* C05 — catalog cross-references are closed and names are unique.
   Statements only; proofs in Proofs/C05Proofs.v.  PARTIAL: the theorems are about the
   mechanisms of the skeleton model (Model/Catalog.v) that maintain the two sides of the
   tag <-> interaction relation, the interaction keys and the path parameters; that every
   setter preserves the whole invariant, and everything about schema content
   (usedUserTypes/usedUserEnums), is checked on the implementation's JSON for every accepted
   case and through the skeleton correspondence. *)
From JS Require Import Base Bytes Scanner Directive Core Expand Catalog C05Proofs CatalogOrder CatalogIds TagLinks ResponseCodes.
From JS Require DirectiveTables.

(* registering an interaction under tag names: every existing tag keeps its name; it lists
   each id as often as before, plus the new id once per occurrence of the tag's name among
   the names; the other protocol's group is untouched; no tag appears or disappears *)
Theorem C05_registration :
  forall http id names ts m,
    match find_tag ts m, find_tag (register http id names ts) m with
    | Some t, Some t' =>
        tg_name t' = tg_name t /\
        (forall x, countb x (group http t') =
                   (countb x (group http t) + (if beq x id then countb m names else 0))%nat) /\
        group (negb http) t' = group (negb http) t
    | None, None => True
    | _, _ => False
    end.
Proof. exact register_spec. Qed.

(* with distinct names and a fresh id: exactly once in every named tag, not at all elsewhere *)
Theorem C05_exactly_once :
  forall http id names ts m t t',
    NoDup names ->
    find_tag ts m = Some t -> countb id (group http t) = O ->
    find_tag (register http id names ts) m = Some t' ->
    countb id (group http t') = (if existsb (beq m) names then 1 else 0)%nat.
Proof. exact register_exactly_once. Qed.

(* the model's tag assignment for a method with a Tags child IS this registration *)
Theorem C05_interaction_tags_is_registration :
  forall c d anc http id path td ts names,
    tags_child d = Some td ->
    interaction_tags c d anc http id path = inl (ts, names) ->
    names = d_unnamed td /\ ts = register http id names (c_tags c).
Proof. exact interaction_tags_is_register. Qed.

Theorem C05_interaction_ids_stay_distinct :
  forall is i,
    NoDup (List.map inter_id is) -> find_inter is (inter_id i) = None ->
    NoDup (List.map inter_id (is ++ [i])).
Proof. exact appended_interaction_keeps_ids_distinct. Qed.

Theorem C05_path_parameters :
  forall p, List.map snd (path_params p) =
            List.map (fun s => removelast (tl s)) (List.filter is_param_seg (path_segments p)).
Proof. exact path_params_are_the_braced_segments. Qed.

(* FULL STATEMENT refuted: finding F10 (`Tags @a @a`) *)
Theorem C05_refuted_duplicate_tag_name :
  match find_tag (register true (str "http GET /x") [str "@a"; str "@a"] [tag_a]) (str "@a") with
  | Some t => countb (str "http GET /x") (tg_http t) = 2%nat
  | None => False
  end.
Proof. exact duplicate_tag_name_refuted. Qed.

(* for EVERY catalog the builder produces: interaction ids are pairwise distinct, and the id of
   an HTTP interaction is protocol + method keyword + path (Proofs/CatalogOrder.v, CatalogIds.v:
   invariants of every add-function, lifted over branches and forests) *)
Theorem C05_built_catalog_ids_are_distinct :
  forall read_body banned fuel forest c,
    build_catalog read_body banned fuel forest = COk c -> NoDup (ids c).
Proof. exact built_catalog_ids_distinct. Qed.

Theorem C05_built_catalog_http_id_is_protocol_method_path :
  forall read_body banned fuel forest c,
    build_catalog read_body banned fuel forest = COk c ->
    forall h, In (IHttp h) (c_inters c) ->
    exists k, is_method k = true /\ hi_method h = kind_name k /\ hi_id h = str "http " ++ kind_name k ++ sp ++ hi_path h.
Proof. exact built_catalog_http_ids. Qed.

(* tags and interactions refer to each other, in EVERY catalog the builder produces (all forests,
   ban lists, body texts): every tag named by an interaction exists and lists that interaction under
   the interaction's protocol, and every interaction a tag lists exists, has that protocol and names
   the tag ("vice versa").  Multiplicity is the subject of C05_exactly_once / the refutation below. *)
Theorem C05_tags_and_interactions_are_linked_both_ways :
  forall read_body banned fuel forest c,
    build_catalog read_body banned fuel forest = COk c ->
    (forall i, In i (c_inters c) -> forall n, In n (tags_of i) ->
       exists t, In t (c_tags c) /\ tg_name t = n /\ In (inter_id i) (group (is_http i) t)) /\
    (forall t, In t (c_tags c) -> forall http id, In id (group http t) ->
       exists i, In i (c_inters c) /\ inter_id i = id /\ is_http i = http /\ In (tg_name t) (tags_of i)).
Proof. exact built_catalog_tags_are_linked. Qed.

(* "response codes are 100-599 and every response has a body", for EVERY catalog the builder
   produces (Proofs/ResponseCodes.v: invariant of every add-function, lifted over branches and
   forests): a response is only ever created by a response-code directive and keeps that
   directive and its keyword as code whatever is added later (body, headers); the directive table
   gives that kind only to keywords that are response codes in the sense of
   directive.IsHTTPResponseCode; validateCatalog leaves no response and no request without body *)
Theorem C05_every_response_comes_from_a_response_code_directive :
  forall read_body banned fuel forest c,
    build_catalog read_body banned fuel forest = COk c ->
    forall h r, In (IHttp h) (c_inters c) -> In r (hi_responses h) ->
      d_kind (rs_dir r) = DirectiveTables.dir_HTTPResponseCode /\ rs_code r = d_keyword (rs_dir r).
Proof. exact built_catalog_responses_come_from_response_code_directives. Qed.

Theorem C05_response_codes_are_100_to_599 :
  forall read_body banned fuel forest c,
    build_catalog read_body banned fuel forest = COk c ->
    forall h r, In (IHttp h) (c_inters c) -> In r (hi_responses h) ->
      new_directive_type (d_keyword (rs_dir r)) = Some (d_kind (rs_dir r)) ->
      is_http_response_code (rs_code r) = true.
Proof. exact built_catalog_response_codes_are_in_range. Qed.

Theorem C05_every_response_and_request_has_a_body :
  forall read_body banned fuel forest c,
    build_catalog read_body banned fuel forest = COk c ->
    forall h, In (IHttp h) (c_inters c) ->
      (forall r, In r (hi_responses h) -> rs_body r <> None) /\
      (forall q, hi_request h = Some q -> rq_body q <> None).
Proof. exact built_catalog_responses_and_requests_have_bodies. Qed.

Print Assumptions C05_every_response_comes_from_a_response_code_directive.
Print Assumptions C05_response_codes_are_100_to_599.
Print Assumptions C05_every_response_and_request_has_a_body.
Print Assumptions C05_built_catalog_ids_are_distinct.
Print Assumptions C05_built_catalog_http_id_is_protocol_method_path.
Print Assumptions C05_tags_and_interactions_are_linked_both_ways.
Print Assumptions C05_registration.
Print Assumptions C05_exactly_once.
Print Assumptions C05_interaction_tags_is_registration.
Print Assumptions C05_interaction_ids_stay_distinct.
Print Assumptions C05_path_parameters.
Print Assumptions C05_refuted_duplicate_tag_name.
