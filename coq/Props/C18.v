(* C18 — concurrent builds and serialisations do not interfere.
   Statements only; proofs in Proofs/C18Proofs.v.  PARTIAL.
   Proved, for EVERY schedule (no bound on the number of goroutines or steps):
     - goroutines serialising one built catalog: whatever the interleaving of their visits of the
       lazily computed cells (each visit atomic: sync.Once), every goroutine that finishes holds
       exactly the result of a single sequential call; the cells stay consistent;
     - goroutines building different projects that share only a write-once table: each
       computes what it computes alone;
     - over the inventory regenerated from /repo: the only package-level variable written after
       initialisation is written inside its sync.Once, no goroutine is started by the library,
       and every package-level variable is a reviewed one.
   What the model cannot exhibit: data races at the memory level and the package-level buffer
   pools of the schema dependency.  Those are decided by the search: concurrent builders and
   serialisers in a -race build, results compared with the sequential baseline, race reports
   attributed by their frames. *)
From JS Require Import Lazy Conc C16Proofs C18Proofs.
From JS Require Inventory.
From Coq Require Import List.
Import ListNotations.

Theorem C18_every_schedule_keeps_cells_and_results_consistent :
  forall ds sched st ts, Inv ds st -> Forall (thread_ok ds) ts ->
    Inv ds (fst (sched_run ds (st, ts) sched)) /\ Forall (thread_ok ds) (snd (sched_run ds (st, ts) sched)).
Proof. exact every_schedule_keeps_the_sequential_results. Qed.

Theorem C18_concurrent_serialisers_get_the_sequential_result :
  forall ds indents sched i t,
    let cfg := sched_run ds (fresh ds, List.map new_thread indents) sched in
    nth_error (snd cfg) i = Some t -> forall r, t_done t = Some r ->
    r = snd (call current ds (fresh ds) (if t_indent t then AJI else AJ)).
Proof. exact concurrent_serialisers_get_the_sequential_result. Qed.

Theorem C18_a_scheduled_serialiser_makes_progress :
  forall ds st t, Inv ds st -> t_done t = None -> t_pos t <= List.length ds ->
    let t' := snd (tstep ds st t) in
    t_done t' <> None \/ (t_done t' = None /\ t_pos t' = S (t_pos t) /\ t_pos t' <= List.length ds).
Proof. exact tstep_progress. Qed.

Theorem C18_builders_do_not_interfere :
  forall (Table Priv Op : Type) (the_table : Table) (bstep : Table -> Priv -> Op -> Priv) sched cell bs,
    cell_inv Table the_table cell ->
    cell_inv Table the_table (fst (bsched_run Table Priv Op the_table bstep (cell, bs) sched)) /\
    List.map (solo Table Priv Op the_table bstep) (snd (bsched_run Table Priv Op the_table bstep (cell, bs) sched)) =
    List.map (solo Table Priv Op the_table bstep) bs.
Proof. exact builders_do_not_interfere. Qed.

Theorem C18_finished_builder_has_its_solo_result :
  forall (Table Priv Op : Type) (the_table : Table) (bstep : Table -> Priv -> Op -> Priv) sched bs i b0 b,
    nth_error bs i = Some b0 ->
    nth_error (snd (bsched_run Table Priv Op the_table bstep (None, bs) sched)) i = Some b ->
    b_todo Priv Op b = [] -> b_priv Priv Op b = solo Table Priv Op the_table bstep b0.
Proof. exact finished_builder_has_its_solo_result. Qed.

Theorem C18_shared_state_of_the_code_is_write_once_and_reviewed : shared_state_check = true.
Proof. exact shared_state_check_ok. Qed.

(* non-vacuity: three goroutines on a catalog with a failing schema, an unfair-looking schedule *)
Example C18_example :
  let ds := [mkSdesc KRegex false; mkSdesc KJsight false; mkSdesc KJsight true] in
  List.map t_done (snd (sched_run ds (fresh ds, List.map new_thread [false; true; false]) [2; 0; 2; 1; 1; 0; 2; 1; 0]))
  = [Some (RErrAt 2); Some (RErrAt 2); Some (RErrAt 2)].
Proof. vm_compute. reflexivity. Qed.

Print Assumptions C18_every_schedule_keeps_cells_and_results_consistent.
Print Assumptions C18_concurrent_serialisers_get_the_sequential_result.
Print Assumptions C18_a_scheduled_serialiser_makes_progress.
Print Assumptions C18_builders_do_not_interfere.
Print Assumptions C18_finished_builder_has_its_solo_result.
Print Assumptions C18_shared_state_of_the_code_is_write_once_and_reviewed.
