(* C01 — building a project is total.  Statements only; proofs in Proofs/C01Proofs.v and the files
   named at each theorem.  PARTIAL: there is no single theorem that the whole pipeline neither
   panics nor hangs for every input; what is proved, phase by phase, each for every input:
   the scanner's control flow is total (no fall-through, no dispatch to a missing state, no pop of an
   empty return stack) and the scanner terminates; the SCANNING PHASE OF A PROJECT TERMINATES (scanner
   + directive layer + INCLUDE, any file system and include tree, bound computed from the project);
   the MACRO/PASTE phase terminates (Props/C10.v); the scanned forest is nested per the context
   table, expansion keeps it so, and on such forests the catalog builder never reaches one of its
   impossible states; the directive layer never dereferences a missing directive; INCLUDE-name
   validation is total; the crash-site inventory regenerated from the source is within the reviewed
   list; the inputs that used to crash no longer do.  Not proved: the scanner's index-range panic (a negative cursor, the
   previous-byte test at the first byte, a parameter lexeme without value) is excluded by the search only;
   termination and panic-freedom of
   the schema dependency (jsight-schema-core: user type compilation, examples - finding F27 lives
   there) and of encoding/json; real stack depth and wall time are measured by the search. *)
From JS Require Import Base Bytes Scanner ScanRun Directive Core Entry C01Proofs ScanTotal StackSafe.
From JS Require ScanTerm ScanProjectTerm BuilderTerm ExpandTerm ProjectSafe.
From JS Require Import Expand Catalog CatalogTotal ExpandPlaced ScanPlaced.
From JS Require ScannerProg.
From JS Require IncludeName Inventory InventoryExpected.

(* every explicit panic, unchecked type assertion, recover, goroutine, sync.Once, map range,
   package-level variable and os/filepath call of the non-test packages is a reviewed one: the
   regenerated sites, keyed by what they are (kind, package, asserted type / callee / variable; a map
   iteration by its function), are a sub-multiset of the reviewed list - sites may move inside their
   package, merge or disappear, none may appear *)
Theorem C01_inventory_is_the_reviewed_one : inventory_check = true.
Proof. exact inventory_check_ok. Qed.

(* the scanner, for EVERY input, every answer of the schema-length oracle and any number of
   Next() calls: no step function of the regenerated program falls off its end, and the scanner
   never dispatches - directly, through a call, or through the return-state stack - to a state
   that does not exist (reflective check of the regenerated program + invariant over runs) *)
Theorem C01_scanner_control_flow_is_total :
  forall data tbl fuel,
    let '(_, e, _) := lex_traj data tbl fuel (init_conf ScannerProg.initial_state) in
    e <> EndPanic PNoState /\ e <> EndPanic PFallthrough.
Proof. exact scanner_control_flow_is_total. Qed.

(* ... and it never pops an empty return-state stack (stepStack.Pop on an empty stack panics in
   Go): a lower bound of the stack depth per state is inferred from the regenerated program,
   checked by symbolic execution of every path of every step function, and the checker is proved
   sound against the interpreter *)
Theorem C01_scanner_never_pops_an_empty_stack :
  forall data tbl fuel,
    let '(_, e, _) := lex_traj data tbl fuel (init_conf ScannerProg.initial_state) in
    e <> EndPanic PStepStackEmpty.
Proof. exact scanner_never_pops_an_empty_stack. Qed.

(* the scanner terminates, for EVERY input and every oracle answer: scanning a whole file never
   runs out of the 8*len+64 calls of Next(), and on every configuration reached by any number of
   Next() calls, Next() returns - it exhausts neither its 8*len+64 loop iterations nor the 8 nested
   step invocations per byte.  Shape of the return-state stack and a potential
   8*curIndex + w(s.step) - #pending events inferred from the regenerated program, checked by
   symbolic execution of every path (calls and re-dispatches inlined, every possible popped state),
   checker proved sound (Proofs/ScanTerm.v). *)
Theorem C01_scanning_a_file_terminates :
  forall data tbl, let '(_, e, _) := scan_case data tbl in e <> EndFuel.
Proof. exact ScanTerm.whole_file_scan_terminates. Qed.

Theorem C01_next_always_returns :
  forall data tbl fuel,
    let '(_, _, tr) := lex_traj data tbl fuel (init_conf ScannerProg.initial_state) in
    Forall (fun c => the_next data tbl c <> RFuel) (init_conf ScannerProg.initial_state :: tr).
Proof. intros data tbl fuel. apply ScanTerm.next_always_returns. exact ScanTerm.init_inv. Qed.

(* THE SCANNING PHASE OF A PROJECT TERMINATES (Proofs/ScanProjectTerm.v): for every file system,
   oracle and root file there is a number of steps computed from the project alone - from its
   number of files and the length of its longest file - within which scanProject ends, with a
   forest, an error or a panic value, and never by running out of steps; along the way no call it
   makes (Next(), JApiCore.next, processInclude, the end-of-file handling) runs out of its own
   fuel.  Inside a file every Next() lowers the scanner's measure; an INCLUDE opens a file that is
   not suspended, so the nesting is bounded by the number of files; the bound multiplies out. *)
Theorem C01_scanning_a_project_terminates :
  forall fs olen root_name root_content fuel,
    (ScanProjectTerm.project_bound fs root_name root_content <= fuel)%nat ->
    scan_project ScannerProg.prog_table ScannerProg.is_newline_cond ScannerProg.is_whitespace_cond
                 fs olen ScannerProg.initial_state fuel
                 (initial_cstate ScannerProg.initial_state root_name root_content) <> SFuel.
Proof. exact ScanProjectTerm.scan_project_terminates. Qed.

(* ... and the single-file safety theorems above hold for WHOLE PROJECTS (Proofs/ProjectSafe.v): for
   every file system, oracle, root file, include tree and fuel, scanProject never ends in one of the
   scanner's impossible states - dispatch to a missing step function, a step function falling off
   its end, a pop of the empty return-state stack, a pop of the empty lexeme-event stack, a lexeme
   event without a lexeme type, a shift off the empty event queue - whichever file of the include tree is being scanned, and however
   often scanners were suspended and resumed (the invariants hold for the current scanner and for
   every suspended one, each relative to its own file) *)
Theorem C01_project_scan_never_reaches_an_impossible_scanner_state :
  forall fs olen root_name root_content fuel p stx,
    scan_project ScannerProg.prog_table ScannerProg.is_newline_cond ScannerProg.is_whitespace_cond
                 fs olen ScannerProg.initial_state fuel
                 (initial_cstate ScannerProg.initial_state root_name root_content) = SPanic (CPScanner p) stx ->
    p <> PNoState /\ p <> PFallthrough /\ p <> PStepStackEmpty /\ p <> PEventStackEmpty /\ p <> PLexemeType /\ p <> PFindsEmpty.
Proof. exact ProjectSafe.project_scan_never_reaches_an_impossible_scanner_state. Qed.

(* the catalog builder: on every forest whose nesting follows the (regenerated) context table -
   which is what the directive layer produces, Props/C11.v - with the MACROs expanded away, the
   interaction pass never reaches one of its impossible states (c.Info nil under Title / Version /
   Description, BaseUrl / Body / Protocol without a parent), whatever the catalog state, the ban
   list and the body texts *)
Theorem C01_catalog_builder_never_reaches_an_impossible_state :
  forall read_body banned fuel ds c,
    forallb (placed None) ds = true -> forall pn, add_all read_body banned fuel c ds <> CPanic pn.
Proof. exact add_all_never_panics. Qed.

(* ... nor does it run out of fuel once the fuel exceeds the height of the forest (its only
   recursion is the descent into the children; the handlers of the single directives have no fuel) *)
Theorem C01_catalog_builder_does_not_run_out_of_fuel :
  forall read_body banned fuel ds c,
    (ExpandTerm.heights ds <= fuel)%nat -> add_all read_body banned fuel c ds <> CFuel.
Proof. exact BuilderTerm.add_all_no_fuel. Qed.

(* ... and the premise holds for whatever MACRO/PASTE expansion produces: for EVERY scanned forest
   whose MACRO directives stand at the top level (checked on every forest the model scans) and
   every macro graph, the expanded forest is nested as the table prescribes and MACRO-free - every
   copied directive is re-attached through the same context resolution - so the interaction pass
   never reaches an impossible state on any document *)
Theorem C01_expanded_forest_is_well_nested :
  forall enum_check fuel roots ex,
    macros_only_on_top roots -> compile_macros enum_check fuel roots = XOk ex ->
    forallb (placed None) (ex_forest ex) = true.
Proof. exact expanded_forest_is_placed. Qed.

Theorem C01_catalog_builder_is_total_after_expansion :
  forall enum_check read_body banned fuel fuel' roots ex c,
    macros_only_on_top roots -> compile_macros enum_check fuel roots = XOk ex ->
    forall pn, add_all read_body banned fuel' c (ex_forest ex) <> CPanic pn.
Proof. exact catalog_builder_is_total_after_expansion. Qed.

(* the premise of the two theorems above is met by EVERY forest the directive layer produces:
   for every scanner program, file system, oracle, root file and fuel, the scanned forest is
   nested as the (regenerated) context table prescribes, hence MACRO occurs only at the top level *)
Theorem C01_scanned_forest_is_well_nested :
  forall prog nl_cond ws_cond fs olen init_st fuel rn rc st,
    scan_project prog nl_cond ws_cond fs olen init_st fuel (initial_cstate init_st rn rc) = SDone st ->
    forallb (placedS None) (cs_forest st) = true /\ macros_only_on_top (cs_forest st).
Proof. intros; split; [eapply scanned_forest_is_nested|eapply scanned_forest_has_macros_only_on_top]; eassumption. Qed.

(* composed: scanning, then expansion, then the catalog builder - no panic of the builder for
   any project (whatever the files contain), with no premise on the forest left *)
Theorem C01_catalog_builder_is_total_on_every_scanned_project :
  forall prog nl_cond ws_cond fs olen init_st fuel rn rc st enum_check read_body banned fuel1 fuel2 ex c,
    scan_project prog nl_cond ws_cond fs olen init_st fuel (initial_cstate init_st rn rc) = SDone st ->
    compile_macros enum_check fuel1 (cs_forest st) = XOk ex ->
    forallb (placed None) (ex_forest ex) = true /\
    forall pn, add_all read_body banned fuel2 c (ex_forest ex) <> CPanic pn.
Proof.
  intros prog nl_cond ws_cond fs olen init_st fuel rn rc st enum_check read_body banned fuel1 fuel2 ex c S X.
  pose proof (scanned_forest_has_macros_only_on_top _ _ _ _ _ _ _ _ _ _ S) as M.
  split; [exact (expanded_forest_is_placed _ _ _ _ M X)|exact (catalog_builder_is_total_after_expansion _ _ _ _ _ _ _ c M X)].
Qed.

Theorem C01_no_nil_current_directive :
  forall st l, core_next st l <> CPanic CPNilCurrentDirective.
Proof. exact core_next_never_nil_directive. Qed.

Theorem C01_include_validation_total :
  forall s, validate_include IncludeName.include_checks s <> None.
Proof. exact validate_include_total. Qed.

Theorem C01_repaired_crashes_stay_repaired :
  forallb (fun fs => not_panic (tree_case fs rn [] [] 2000)) once_crashing = true.
Proof. exact repaired_crashes_stay_repaired. Qed.

Print Assumptions C01_inventory_is_the_reviewed_one.
Print Assumptions C01_scanner_control_flow_is_total.
Print Assumptions C01_scanner_never_pops_an_empty_stack.
Print Assumptions C01_catalog_builder_never_reaches_an_impossible_state.
Print Assumptions C01_expanded_forest_is_well_nested.
Print Assumptions C01_catalog_builder_is_total_after_expansion.
Print Assumptions C01_scanning_a_file_terminates.
Print Assumptions C01_next_always_returns.
Print Assumptions C01_scanned_forest_is_well_nested.
Print Assumptions C01_catalog_builder_is_total_on_every_scanned_project.
Print Assumptions C01_no_nil_current_directive.
Print Assumptions C01_include_validation_total.
Print Assumptions C01_repaired_crashes_stay_repaired.
Print Assumptions C01_scanning_a_project_terminates.
Print Assumptions C01_catalog_builder_does_not_run_out_of_fuel.
Print Assumptions C01_project_scan_never_reaches_an_impossible_scanner_state.
