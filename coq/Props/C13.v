(* C13 — exactly the language's keywords are recognised as directives.
   Statements only; every proof is `exact` of a lemma from Proofs/C13Proofs.v, which is
   re-checked against the regenerated scanner program (Gen/ScannerProg.v) and directive
   tables (Gen/DirectiveTables.v) on every run. *)
From JS Require Import Base Bytes Scanner Directive Keywords KeywordsNext C13Proofs.
From JS Require DirectiveTables.
Open Scope Z_scope.

(* K ∪ R: the 30 keyword strings of the directive table and the codes 100–599 *)
Theorem C13_vocabulary :
  List.length real_keywords = 30%nat /\ List.length response_codes = 500%nat.
Proof. exact expected_words_count. Qed.

(* every keyword or response code standing at a directive start is returned by Next() as a
   Keyword lexeme with byte-exact extent; the scanner continues in the parameter state *)
Theorem C13_accepts_every_keyword :
  forall (data : bytes) (olen : okind -> Z -> olen_res) w i cf,
    In w expected_words -> occurs_at data i w ->
    c_step cf = EK -> c_finds cf = [] -> c_cur cf = Z.of_nat i ->
    exists x,
      next P NL WS data olen cf =
      ROk (Some (mkLex LKeyword (Z.of_nat i) (Z.of_nat (i + List.length w) - 1)),
           mkConf POA (x :: c_sstack cf) [] (c_estack cf) [] (Z.of_nat (i + List.length w))).
Proof. exact keyword_accepted. Qed.

(* nothing else completes a keyword: for every byte string (full 256-byte alphabet, any
   length) walked from the directive-start state, a completed keyword is in K ∪ R *)
Theorem C13_accepts_only_keywords :
  forall w k x, Forall (fun b => (b < 256)%N) w ->
    kw_run_start P NL WS EK POA w = RunAccept k x -> In (firstn k w) expected_words.
Proof. exact only_keywords_accepted. Qed.

(* a refused byte makes Next() fail exactly at that byte, and it is the first deviating
   byte: no keyword or response code starts with the bytes up to and including it *)
Theorem C13_error_at_first_deviation :
  forall (data : bytes) (olen : okind -> Z -> olen_res) w i k a b cf,
    at_pos data i w -> (List.length w <= List.length data + 1)%nat ->
    kw_run_start P NL WS EK POA w = RunReject k a b ->
    c_step cf = EK -> c_finds cf = [] -> c_cur cf = Z.of_nat i ->
    next P NL WS data olen cf = RErr (EUnexpected a b (Z.of_nat (i + k)) (eof_flag data (i + k)))
    /\ forall v, In v expected_words -> is_prefix (firstn (S k) w) v = false.
Proof. exact deviation_is_error. Qed.

(* after a keyword the next byte must be blank, tab, LF, CR, end of file, '#' or '/' *)
Theorem C13_terminator :
  forall (data : bytes) (olen : okind -> Z -> olen_res) c cf f,
    (c < 256)%N -> c_sstack cf <> [] ->
    (existsb (N.eqb c) terminators = true ->
       exists cf', run_step P NL WS data olen (S f) POA c cf = ROk cf') /\
    (existsb (N.eqb c) terminators = false ->
       exists a b, run_step P NL WS data olen (S f) POA c cf = RErr (mk_unexpected data cf a b)).
Proof. exact terminator_required. Qed.

(* the scanner's vocabulary and the directive table agree *)
Theorem C13_every_keyword_known :
  forall w, In w expected_words -> exists k, new_directive_type w = Some k.
Proof. exact keywords_known. Qed.

Theorem C13_response_codes :
  forall w, In w response_codes -> new_directive_type w = Some DirectiveTables.dir_HTTPResponseCode.
Proof. exact response_codes_known. Qed.

(* non-vacuity: "GET" at offset 0 of "GET /a" meets the hypotheses *)
Example C13_nonvacuous :
  In [71; 69; 84]%N expected_words /\ occurs_at [71; 69; 84; 32; 47; 97]%N 0 [71; 69; 84]%N.
Proof. split; [vm_compute; tauto | reflexivity]. Qed.

Print Assumptions C13_vocabulary.
Print Assumptions C13_accepts_every_keyword.
Print Assumptions C13_accepts_only_keywords.
Print Assumptions C13_error_at_first_deviation.
Print Assumptions C13_terminator.
Print Assumptions C13_every_keyword_known.
Print Assumptions C13_response_codes.
