(* C17 — OpenAPI export: an error value or a structurally valid document.
   Statements only; proofs in Proofs/C17Proofs.v.  PARTIAL.  The model (Model/OpenApi.v) is the
   skeleton of the export: paths, operations, path parameters, response keys, components; it is
   compared with the implementation's OpenAPI JSON on every accepted case of the check.
   Proved for every catalog:
     - every HTTP interaction is the operation paths[path][method] - unconditionally for every
       catalog the (model of the) builder produces, because there ids are "http METHOD path" and
       occur once;
     - the parameters declared by a path item are exactly the {parameters} of its path;
     - the response keys of an operation are the response codes of the interaction, each once;
     - every user type is a component.
   Not modelled: the schema objects (the dependency's), so "$ref resolves" and "never panics"
   are decided on the implementation by the search ($refs of every output are resolved; a panic
   anywhere under ToOpenAPIJson is converted to an error value by kit since fix 3970671, and the
   check still treats any panic that reaches the caller as a violation). *)
From JS Require Import Base Bytes Scanner Directive Core Expand Catalog OpenApi C17Proofs CatalogIds.

Theorem C17_every_http_interaction_is_an_operation_of_its_path :
  forall is h, In (IHttp h) is -> only_one is h ->
    has_op (fill_paths is) (hi_path h) (lower_bytes (hi_method h)) (op_of h).
Proof. exact every_http_interaction_is_an_operation. Qed.

(* ... and for every catalog the builder produces that premise holds (ids are "http METHOD path",
   each once: Proofs/CatalogIds.v, Proofs/CatalogOrder.v), so: *)
Theorem C17_every_http_interaction_of_a_built_catalog_is_exported :
  forall read_body banned fuel forest c,
    build_catalog read_body banned fuel forest = COk c ->
    forall h, In (IHttp h) (c_inters c) ->
    has_op (fill_paths (c_inters c)) (hi_path h) (lower_bytes (hi_method h)) (op_of h).
Proof. exact built_catalog_exports_every_http_interaction. Qed.

Theorem C17_path_parameters_are_declared :
  forall is, Forall (fun it => it_params it =
                     List.map (fun s => removelast (tl s)) (List.filter is_param_seg (path_segments (it_path it))))
                    (fill_paths is).
Proof. exact path_item_parameters_are_the_braced_segments. Qed.

Theorem C17_response_keys_are_the_response_codes :
  forall h, hi_responses h <> [] ->
    NoDup (op_responses (op_of h)) /\
    forall k, In k (op_responses (op_of h)) <-> exists r, In r (hi_responses h) /\ rs_code r = k.
Proof. exact response_keys_are_the_codes. Qed.

Theorem C17_no_responses_gives_default :
  forall h, hi_responses h = [] -> op_responses (op_of h) = [str "default"].
Proof. exact no_responses_gives_default. Qed.

Theorem C17_every_user_type_is_a_component :
  forall c, oa_components (to_openapi c) = List.map (fun t => schema_name (fst (fst t))) (c_types c).
Proof. exact every_user_type_is_a_component. Qed.

Print Assumptions C17_every_http_interaction_is_an_operation_of_its_path.
Print Assumptions C17_every_http_interaction_of_a_built_catalog_is_exported.
Print Assumptions C17_path_parameters_are_declared.
Print Assumptions C17_response_keys_are_the_response_codes.
Print Assumptions C17_every_user_type_is_a_component.
Print Assumptions C17_no_responses_gives_default.
