(* C07 — every error carries a truthful location and include trace.
   Statements only; proofs in Proofs/C07Proofs.v.  PARTIAL: the arithmetic of
   Bytes.LineAndColumn is a theorem; that every error of a build points into its file with
   the right trace is REFUTED twice on the current tree (findings F11, F13) and otherwise
   checked by correspondence and by an independent recomputation on the implementation. *)
From JS Require Import Base Bytes Scanner Core Entry C07Proofs.
Open Scope Z_scope.

Theorem C07_line_and_column :
  forall content i,
    0 <= i < Z.of_nat (List.length content) ->
    line_and_column content i =
    (1 + count_nl (newline_symbol content) (firstn (Z.to_nat i) content),
     1 + after_last_nl (newline_symbol content) (firstn (Z.to_nat i) content) 0).
Proof. exact line_and_column_spec. Qed.

Theorem C07_refuted_end_of_file_errors :
  match err_loc (tree_case [(rn, FFile f11_doc)] rn [] [] 1000) with
  | Some l => (rl_index l =? Z.of_nat (List.length f11_doc)) && (rl_line l =? 0) && (rl_col l =? 0)
  | None => false
  end = true.
Proof. exact eof_error_location_refuted. Qed.

Theorem C07_refuted_tracer_cache :
  err_trace_lines (tree_case [(rn, FFile f13_root); (bytes_of_string "a.jst", FFile f13_a);
                              (bytes_of_string "b.jst", FFile f13_b)] rn [] [] 1000) = [2].
Proof. exact tracer_cache_refuted. Qed.

Print Assumptions C07_line_and_column.
Print Assumptions C07_refuted_end_of_file_errors.
Print Assumptions C07_refuted_tracer_cache.
