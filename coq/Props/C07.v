(* C07 — every error carries a truthful location and include trace.
   Statements only; proofs in Proofs/C07Proofs.v.  PARTIAL: the arithmetic of
   Bytes.LineAndColumn is a theorem; every error of the scanner points into the file (all inputs);
   every error of the scanning phase of a project (scanner + directive layer + INCLUDE, any include
   tree) is located in the file being scanned at that moment or on the keyword of the pending
   directive, and each error of JApiCore.next sits at the first byte of the lexeme being processed,
   on the pending directive, or at the byte before the cursor (Proofs/CoreErrLoc.v); every error of
   the catalog builder's passes over the expanded forest sits on a directive of that forest, with
   that directive's include trace, or at the start of its body (Proofs/BuildErrLoc.v); that every error of a build points into its file with
   the right trace is REFUTED twice on the current tree (findings F11, F13) and otherwise
   checked by correspondence and by an independent recomputation on the implementation. *)
From JS Require Import Base Bytes Scanner ScanRun Core Entry C07Proofs.
From JS Require ErrInFile ScannerProg CoreErrLoc BuildErrLoc Catalog BanBuild ProjectSafe.
Open Scope Z_scope.

Theorem C07_line_and_column :
  forall content i,
    0 <= i < Z.of_nat (List.length content) ->
    line_and_column content i =
    (1 + count_nl (newline_symbol content) (firstn (Z.to_nat i) content),
     1 + after_last_nl (newline_symbol content) (firstn (Z.to_nat i) content) 0).
Proof. exact line_and_column_spec. Qed.

(* "an index inside that file", for the scanning phase and EVERY input: an error of the scanner
   (unexpected character, unexpected end, NUL byte) carries the position of the byte that was being
   scanned, 0 <= index <= length (the end-of-file pseudo byte sits at index = length: finding F11
   is about what line/column that index is given).  Errors relayed from the schema-length oracle
   carry the oracle's offset and are outside this statement. *)
Theorem C07_scanner_errors_point_into_the_file :
  forall data tbl fuel,
    let '(_, e, _) := lex_traj data tbl fuel (init_conf ScannerProg.initial_state) in
    match e with EndErr err => ErrInFile.in_file data err | _ => True end.
Proof. exact ErrInFile.scanner_errors_point_into_the_file. Qed.

(* ... and for WHOLE PROJECTS (Proofs/ProjectSafe.v): wherever a run of scanProject stops - in the
   root file or in any included file, after any number of suspensions and resumptions - an error
   that Next() raises there points into the file being scanned: 0 <= index <= length of THAT file *)
Theorem C07_project_scanner_errors_point_into_their_file :
  forall fs olen root_name root_content fuel,
    match scan_project ScannerProg.prog_table ScannerProg.is_newline_cond ScannerProg.is_whitespace_cond fs olen
                       ScannerProg.initial_state fuel (initial_cstate ScannerProg.initial_state root_name root_content) with
    | SDone stx | SErr _ stx | SPanic _ stx =>
        forall e0, scan_next ScannerProg.prog_table ScannerProg.is_newline_cond ScannerProg.is_whitespace_cond olen stx = RErr e0 ->
                   ErrInFile.in_file (file_content stx (cs_file stx)) e0
    | SFuel => True
    end.
Proof. exact ProjectSafe.project_scanner_errors_point_into_their_file. Qed.

(* the scanning phase of a whole project, for every scanner program, file system, oracle, include
   tree and fuel: the error scanProject ends with is located in the file that is being scanned at
   that moment, or on the keyword of the directive pending at that moment (context errors) *)
Theorem C07_scan_phase_errors_are_located :
  forall prog nl ws fs olen init_st fuel st e stx,
    scan_project prog nl ws fs olen init_st fuel st = SErr e stx ->
    e_file e = cs_file stx \/
    exists d, cs_cur stx = Some d /\ e_file e = co_file (d_kw d) /\ e_index e = co_begin (d_kw d).
Proof. exact CoreErrLoc.scan_phase_errors_are_located. Qed.

(* where exactly an error of JApiCore.next sits: at the first byte of the lexeme being processed, on
   the pending directive (with that directive's include trace), or at the byte before the cursor *)
Theorem C07_directive_layer_errors_sit_on_the_lexeme_or_the_pending_directive :
  forall st l e, core_next st l = CErr e ->
    (e_file e = cs_file st /\ e_index e = lb l /\ e_trace e = []) \/
    (exists d, cs_cur st = Some d /\ e_file e = co_file (d_kw d) /\ e_index e = co_begin (d_kw d) /\ e_trace e = d_trace d) \/
    (e_file e = cs_file st /\ e_index e = c_cur (cs_conf st) - 1 /\ e_trace e = []).
Proof. exact CoreErrLoc.core_next_error_place. Qed.

(* the catalog builder of the model, for every forest, catalog state, ban list, body text and fuel:
   every error of collectTags, the TYPE passes, collectPaths, the missed-path pass, JSIGHT-first and
   addDirectives is located ON A DIRECTIVE OF THE FOREST - file, index and include trace are those
   of its keyword as recorded when it was scanned - or at the first byte of that directive's body
   (Description text errors); the errors of validateCatalog sit on directives stored in the
   catalog and are the third alternative *)
Theorem C07_builder_errors_sit_on_a_directive_of_the_forest :
  forall read_body banned fuel forest e,
    Catalog.build_catalog read_body banned fuel forest = CErr e ->
    (exists x, BanBuild.within_forest x forest /\
               (e = dir_error x (e_msg e) \/
                exists b, d_body x = Some b /\ e_file e = co_file b /\ e_index e = co_begin b /\ e_trace e = d_trace x)) \/
    (exists c0 c, Catalog.add_all read_body banned fuel c0 forest = COk c /\ Catalog.validate c = Some e).
Proof. exact BuildErrLoc.build_errors_are_located_on_a_directive_of_the_forest. Qed.

Theorem C07_refuted_end_of_file_errors :
  match err_loc (tree_case [(rn, FFile f11_doc)] rn [] [] 1000) with
  | Some l => (rl_index l =? Z.of_nat (List.length f11_doc)) && (rl_line l =? 0) && (rl_col l =? 0)
  | None => false
  end = true.
Proof. exact eof_error_location_refuted. Qed.

Theorem C07_refuted_tracer_cache :
  err_trace_lines (tree_case [(rn, FFile f13_root); (bytes_of_string "a.jst", FFile f13_a);
                              (bytes_of_string "b.jst", FFile f13_b)] rn [] [] 1000) = [2].
Proof. exact tracer_cache_refuted. Qed.

Print Assumptions C07_line_and_column.
Print Assumptions C07_scanner_errors_point_into_the_file.
Print Assumptions C07_refuted_end_of_file_errors.
Print Assumptions C07_refuted_tracer_cache.
Print Assumptions C07_scan_phase_errors_are_located.
Print Assumptions C07_directive_layer_errors_sit_on_the_lexeme_or_the_pending_directive.
Print Assumptions C07_builder_errors_sit_on_a_directive_of_the_forest.
Print Assumptions C07_project_scanner_errors_point_into_their_file.
