(* C07 — every error carries a truthful location and include trace.
   Statements only; proofs in Proofs/C07Proofs.v.  PARTIAL: the arithmetic of
   Bytes.LineAndColumn is a theorem; every error of the scanner points into the file (all inputs); that every error of a build points into its file with
   the right trace is REFUTED twice on the current tree (findings F11, F13) and otherwise
   checked by correspondence and by an independent recomputation on the implementation. *)
From JS Require Import Base Bytes Scanner ScanRun Core Entry C07Proofs.
From JS Require ErrInFile ScannerProg.
Open Scope Z_scope.

Theorem C07_line_and_column :
  forall content i,
    0 <= i < Z.of_nat (List.length content) ->
    line_and_column content i =
    (1 + count_nl (newline_symbol content) (firstn (Z.to_nat i) content),
     1 + after_last_nl (newline_symbol content) (firstn (Z.to_nat i) content) 0).
Proof. exact line_and_column_spec. Qed.

(* "an index inside that file", for the scanning phase and EVERY input: an error of the scanner
   (unexpected character, unexpected end, NUL byte) carries the position of the byte that was being
   scanned, 0 <= index <= length (the end-of-file pseudo byte sits at index = length: finding F11
   is about what line/column that index is given).  Errors relayed from the schema-length oracle
   carry the oracle's offset and are outside this statement. *)
Theorem C07_scanner_errors_point_into_the_file :
  forall data tbl fuel,
    let '(_, e, _) := lex_traj data tbl fuel (init_conf ScannerProg.initial_state) in
    match e with EndErr err => ErrInFile.in_file data err | _ => True end.
Proof. exact ErrInFile.scanner_errors_point_into_the_file. Qed.

Theorem C07_refuted_end_of_file_errors :
  match err_loc (tree_case [(rn, FFile f11_doc)] rn [] [] 1000) with
  | Some l => (rl_index l =? Z.of_nat (List.length f11_doc)) && (rl_line l =? 0) && (rl_col l =? 0)
  | None => false
  end = true.
Proof. exact eof_error_location_refuted. Qed.

Theorem C07_refuted_tracer_cache :
  err_trace_lines (tree_case [(rn, FFile f13_root); (bytes_of_string "a.jst", FFile f13_a);
                              (bytes_of_string "b.jst", FFile f13_b)] rn [] [] 1000) = [2].
Proof. exact tracer_cache_refuted. Qed.

Print Assumptions C07_line_and_column.
Print Assumptions C07_scanner_errors_point_into_the_file.
Print Assumptions C07_refuted_end_of_file_errors.
Print Assumptions C07_refuted_tracer_cache.
