(* MapRanges.v — REVIEWED classification of every `for … range <map>` of the non-test
   packages.  Hand-written; Props/C06.v proves that every map iteration of the regenerated
   inventory is classified here (a new or moved iteration breaks that proof).
   Classes:
     "insert-only"   the loop body only inserts the (key, value) it is handed into another
                     map / the schema's rule or type table, keys are distinct (they come from a
                     map), and nothing else is observable on success; on the error path the
                     first failure is returned (AddRule / AddType / newResponse): the rules and
                     types were checked when they were collected, so failures there do not
                     depend on the order (they cannot happen at all for the rules);
     "sorted-output" the keys are collected and sorted before use;
     "into-json-map" the loop fills a Go map that encoding/json marshals with sorted keys. *)
From Coq Require Import List String.
Import ListNotations.
Open Scope string_scope.

(* (package, type of the iterated map, where it was reviewed, class): a map iteration of the inventory is
   matched by its package and the TYPE of the map it ranges over - the loop may be rewritten, its
   variables renamed, the loop moved to another function of the package; a loop over a map of a type
   not listed here is unclassified, and one more loop over a listed type is one too many for the
   inventory obligation of C01 *)
Definition map_range_classes : list (string * string * string * string) := [
  ("catalog", "map[string]schema.Rule", "NewExchangeJSightSchema: coreRules", "insert-only");
  ("catalog", "map[string]ischema.Type", "ObjectBuilder.AddProperty: types", "insert-only");
  ("catalog/ser/openapi", "map[openapi.mediaType][]openapi.schemaObject", "contentForVariousMediaTypes: schemaObjectsMap", "into-json-map");
  ("catalog/ser/openapi", "map[string][]openapi.headerInfo", "makeResponseHeaders: sortedHeaders", "into-json-map");
  ("catalog/ser/openapi", "map[openapi.responseCode][]*catalog.HTTPResponse", "newResponses: sortedResponses", "into-json-map");
  ("core", "map[string]schema.Rule", "JApiCore.buildUserTypes: core.rules", "insert-only");
  ("core", "map[string]ischema.Node", "JApiCore.getPropertiesNames: m", "sorted-output");
  ("core", "map[string]*jschema.JSchema", "newPathVariablesSchema: userTypes", "insert-only")
].
