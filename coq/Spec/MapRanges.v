(* MapRanges.v — REVIEWED classification of every `for … range <map>` of the non-test
   packages.  Hand-written; Props/C06.v proves that every map iteration of the regenerated
   inventory is classified here (a new or moved iteration breaks that proof).
   Classes:
     "insert-only"   the loop body only inserts the (key, value) it is handed into another
                     map / the schema's rule or type table, keys are distinct (they come from a
                     map), and nothing else is observable on success; on the error path the
                     first failure is returned (AddRule / AddType / newResponse): the rules and
                     types were checked when they were collected, so failures there do not
                     depend on the order (they cannot happen at all for the rules);
     "sorted-output" the keys are collected and sorted before use;
     "into-json-map" the loop fills a Go map that encoding/json marshals with sorted keys. *)
From Coq Require Import List String.
Import ListNotations.
Open Scope string_scope.

(* (package, function, ranged expression as reviewed, class): a map iteration of the inventory is matched
   by package and function - the iteration may be rewritten inside its function, not moved out of it *)
Definition map_range_classes : list (string * string * string * string) := [
  ("catalog", "NewExchangeJSightSchema", "coreRules", "insert-only");
  ("catalog", "ObjectBuilder.AddProperty", "types", "insert-only");
  ("catalog/ser/openapi", "contentForVariousMediaTypes", "schemaObjectsMap", "into-json-map");
  ("catalog/ser/openapi", "makeResponseHeaders", "sortedHeaders", "into-json-map");
  ("catalog/ser/openapi", "newResponses", "sortedResponses", "into-json-map");
  ("core", "JApiCore.buildUserTypes", "core.rules", "insert-only");
  ("core", "JApiCore.getPropertiesNames", "m", "sorted-output");
  ("core", "newPathVariablesSchema", "userTypes", "insert-only")
].
