(* JDocShape.v — the fields the JDoc Exchange 2.0.0 shape requires of each entity, written
   from the property text (C04): they must be emitted unconditionally (no omitempty). *)
From Coq Require Import List String.
Import ListNotations.
Open Scope string_scope.

(* struct (as named in Gen/JsonTags.v) -> fields that must always be present *)
Definition required_fields : list (string * list string) := [
  ("Catalog.MarshalJSON.data", ["tags"; "interactions"; "jsight"; "jdocExchangeVersion"]);
  ("Tag.MarshalJSON.data", ["name"; "title"; "interactionGroups"]);
  ("TagHTTPInteractionGroup", ["protocol"; "interactions"]);
  ("TagJsonRpcInteractionGroup", ["protocol"; "interactions"]);
  ("Server", ["baseUrl"]);
  ("UserType", ["schema"]);
  ("HTTPInteraction", ["id"; "protocol"; "httpMethod"; "path"; "tags"]);
  ("JsonRpcInteraction", ["id"; "protocol"; "path"; "method"; "tags"]);
  ("HTTPResponse", ["code"; "body"]);
  ("HTTPResponseBody", ["format"; "schema"]);
  ("HTTPRequestBody", ["format"; "schema"]);
  ("HTTPRequestHeaders", ["schema"]);
  ("HTTPResponseHeaders", ["schema"]);
  ("Query", ["format"; "schema"]);
  ("PathVariables", ["schema"]);
  ("jsonRpcParams", ["schema"]);
  ("jsonRpcResult", ["schema"]);
  ("ExchangeContent.marshalJSONObjectOrArray.data", ["children"; "optional"]);
  ("ExchangeContent.marshalJSONLiteral.data", ["scalarValue"; "optional"])
].

(* struct -> fields it must NOT have *)
Definition forbidden_fields : list (string * list string) := [
  ("ExchangeContent.marshalJSONObjectOrArray.data", ["scalarValue"]);
  ("ExchangeContent.marshalJSONLiteral.data", ["children"])
].
