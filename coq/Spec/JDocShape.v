(* JDocShape.v — the fields the JDoc Exchange 2.0.0 shape requires of each entity, written
   from the property text (C04): they must be emitted unconditionally (no omitempty).
   An entity is identified by its anchor fields (fields only its DTO carries), not by the Go name
   of the struct: every struct of the regenerated tag table that has all the anchors must satisfy
   the row, and at least one such struct must exist. *)
From Coq Require Import List String.
Import ListNotations.
Open Scope string_scope.

(* (entity, anchor fields, fields that must always be present) *)
Definition required_fields : list (string * list string * list string) := [
  ("catalog", ["jdocExchangeVersion"], ["tags"; "interactions"; "jsight"; "jdocExchangeVersion"]);
  ("tag", ["interactionGroups"], ["name"; "title"; "interactionGroups"]);
  ("tag interaction group", ["protocol"; "interactions"], ["protocol"; "interactions"]);
  ("server", ["baseUrl"], ["baseUrl"]);
  ("HTTP interaction", ["httpMethod"], ["id"; "protocol"; "httpMethod"; "path"; "tags"]);
  ("JSON-RPC interaction", ["method"; "protocol"], ["id"; "protocol"; "path"; "method"; "tags"]);
  ("HTTP response", ["code"], ["code"; "body"]);
  ("anything with a format", ["format"], ["format"; "schema"]);
  (* user types, request/response bodies and headers, query, path variables, JSON-RPC params/result *)
  ("anything with a schema", ["schema"], ["schema"]);
  ("container schema node", ["children"; "optional"], ["children"; "optional"]);
  ("scalar schema node", ["scalarValue"; "optional"], ["scalarValue"; "optional"])
].

(* (entity, anchor fields, fields it must NOT have) *)
Definition forbidden_fields : list (string * list string * list string) := [
  ("container schema node", ["children"; "optional"], ["scalarValue"]);
  ("scalar schema node", ["scalarValue"; "optional"], ["children"])
].
