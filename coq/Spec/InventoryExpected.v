(* InventoryExpected.v — the crash / nondeterminism / shared-state / file-access sites of the
   non-test packages as reviewed at the pinned commit (plus the fix commits recorded in
   known_findings.json).  Gen/Inventory.v is recomputed with go/types on every run; Props/C01.v
   (and C06, C18) prove it equal to this list, so a new panic(), unchecked type assertion,
   map iteration, package-level variable, goroutine, recover or os/filepath call breaks a proof
   obligation even if no generated input reaches it. *)
From Coq Require Import List String.
Import ListNotations.
Open Scope string_scope.

Definition expected_inventory : list (string * string * string * string) := [
  ("assert", "catalog", "Catalog.AddDescriptionToHTTPMethod", "c.Interactions.GetValue(httpID).(*HTTPInteraction)");
  ("assert", "catalog", "Catalog.AddDescriptionToHTTPMethod", "v.(*HTTPInteraction)");
  ("assert", "catalog", "Catalog.AddDescriptionToJsonRpcMethod", "c.Interactions.GetValue(rpcId).(*JsonRpcInteraction)");
  ("assert", "catalog", "Catalog.AddDescriptionToJsonRpcMethod", "v.(*JsonRpcInteraction)");
  ("assert", "catalog", "Catalog.AddJsonRpcParams", "c.Interactions.GetValue(rpcId).(*JsonRpcInteraction)");
  ("assert", "catalog", "Catalog.AddJsonRpcParams", "v.(*JsonRpcInteraction)");
  ("assert", "catalog", "Catalog.AddJsonRpcResult", "c.Interactions.GetValue(rpcId).(*JsonRpcInteraction)");
  ("assert", "catalog", "Catalog.AddJsonRpcResult", "v.(*JsonRpcInteraction)");
  ("assert", "catalog", "Catalog.AddOperationID", "c.Interactions.GetValue(httpID).(*HTTPInteraction)");
  ("assert", "catalog", "Catalog.AddOperationID", "v.(*HTTPInteraction)");
  ("assert", "catalog", "Catalog.AddQueryToCurrentMethod", "c.Interactions.GetValue(httpID).(*HTTPInteraction)");
  ("assert", "catalog", "Catalog.AddQueryToCurrentMethod", "v.(*HTTPInteraction)");
  ("assert", "catalog", "Catalog.AddRequest", "v.(*HTTPInteraction)");
  ("assert", "catalog", "Catalog.AddRequest", "v.(*HTTPInteraction)");
  ("assert", "catalog", "Catalog.AddRequestBody", "c.Interactions.GetValue(httpID).(*HTTPInteraction)");
  ("assert", "catalog", "Catalog.AddRequestBody", "v.(*HTTPInteraction)");
  ("assert", "catalog", "Catalog.AddRequestHeaders", "c.Interactions.GetValue(httpID).(*HTTPInteraction)");
  ("assert", "catalog", "Catalog.AddRequestHeaders", "v.(*HTTPInteraction)");
  ("assert", "catalog", "Catalog.AddResponse", "v.(*HTTPInteraction)");
  ("assert", "catalog", "Catalog.AddResponse", "v.(*HTTPInteraction)");
  ("assert", "catalog", "Catalog.AddResponseBody", "c.Interactions.GetValue(httpID).(*HTTPInteraction)");
  ("assert", "catalog", "Catalog.AddResponseBody", "v.(*HTTPInteraction)");
  ("assert", "catalog", "Catalog.AddResponseHeaders", "c.Interactions.GetValue(httpID).(*HTTPInteraction)");
  ("assert", "catalog", "Catalog.AddResponseHeaders", "v.(*HTTPInteraction)");
  ("assert", "catalog", "Catalog.AddType", "s.(*jschema.JSchema)");
  ("assert", "catalog", "Catalog.AddType", "s.(*regex.RSchema)");
  ("assert", "catalog/ser/openapi", "castErr", "e.(errImpl)");
  ("assert", "catalog/ser/openapi", "fillPaths", "v.(*catalog.HTTPInteraction)");
  ("assert", "catalog/ser/openapi", "getSchemaAsSingleObjectInfo", "i.(sc.ObjectInformer)");
  ("assert", "catalog/ser/openapi", "newResponseAnyOf", "s.(*catalog.ExchangeJSightSchema)");
  ("assert", "catalog/ser/openapi", "newResponseAnyOf", "s.(*catalog.ExchangeRegexSchema)");
  ("assert", "core", "JApiCore.setPathVariablesToCatalog", "err.(*jerr.JApiError)");
  ("extcall", "core", "JApiCore.getIncludedFilePath", "filepath.Dir");
  ("extcall", "core", "JApiCore.getIncludedFilePath", "filepath.Join");
  ("extcall", "core", "JApiCore.getIncludedFilePath", "os.Stat");
  ("extcall", "core", "readFile", "os.ReadFile");
  ("maprange", "catalog", "NewExchangeJSightSchema", "coreRules : map[string]schema.Rule");
  ("maprange", "catalog", "ObjectBuilder.AddProperty", "types : map[string]ischema.Type");
  ("maprange", "catalog/ser/openapi", "contentForVariousMediaTypes", "schemaObjectsMap : map[openapi.mediaType][]openapi.schemaObject");
  ("maprange", "catalog/ser/openapi", "makeResponseHeaders", "sortedHeaders : map[string][]openapi.headerInfo");
  ("maprange", "catalog/ser/openapi", "newResponses", "sortedResponses : map[openapi.responseCode][]*catalog.HTTPResponse");
  ("maprange", "core", "JApiCore.buildUserTypes", "core.rules : map[string]schema.Rule");
  ("maprange", "core", "JApiCore.getPropertiesNames", "m : map[string]ischema.Node");
  ("maprange", "core", "newPathVariablesSchema", "userTypes : map[string]*jschema.JSchema");
  ("once", "catalog", "ExchangeJSightSchema.Compile", "e.onceCompile");
  ("once", "catalog", "ExchangeRegexSchema.exampleOnce", "e.example.once");
  ("once", "directive", "NewDirectiveType", "eeOnce");
  ("panic", "catalog", "HTTPMethod.String", """Unknown method""");
  ("panic", "catalog", "ObjectBuilder.AddType", "err");
  ("panic", "catalog", "astNodeToJsightContent", "err");
  ("panic", "catalog/ser/openapi", "PathItem.assignOperation", """Unsupported method""");
  ("panic", "catalog/ser/openapi", "schemaObjectFromExchangeSchema", """notation 'empty' cannot be represented by SchemaObject""");
  ("panic", "catalog/ser/openapi", "schemaObjectFromExchangeSchema", """unsupported schema notation""");
  ("panic", "catalog/ser/openapi", "schemaObjectFromSchema", """unsupported ExchangeSchema type""");
  ("panic", "core", "JApiCore.next", "jerr.RuntimeFailure");
  ("panic", "core", "adoptError", "fmt.Sprintf(""Invalid error was given: %#v"", err)");
  ("panic", "scanner", "LexemeEventType.ToLexemeType", """Unknown lexeme event type""");
  ("panic", "scanner", "Scanner.shiftFound", """Empty set of found lexemes""");
  ("panic", "scanner", "eventStack.peek", """Reading from empty stack""");
  ("panic", "scanner", "stepFuncStack.peek", """Reading from empty stack""");
  ("pkgvar", "catalog", "", "annotationReplacer : *regexp.Regexp");
  ("pkgvar", "catalog", "", "exampleMu : sync.Mutex");
  ("pkgvar", "directive", "", "directiveAllowedToDirectiveContext : map[directive.Enumeration]map[directive.Enumeration]struct{}");
  ("pkgvar", "directive", "", "ee : map[string]directive.Enumeration");
  ("pkgvar", "directive", "", "eeOnce : sync.Once");
  ("pkgvar", "directive", "", "ss : []string");
  ("pkgvar", "kit", "", "openAPIMarshalMu : sync.Mutex");
  ("pkgvar", "scanner", "", "anyType : bytes.Bytes");
  ("pkgvar", "scanner", "", "emptyTracer : scanner.emptyIncludeTracer");
  ("pkgvar", "scanner", "", "emptyType : bytes.Bytes");
  ("pkgvar", "scanner", "", "lexemeEventTypeStringMap : map[scanner.LexemeEventType]string");
  ("pkgvar", "scanner", "", "lexemeTypeStringMap : map[scanner.LexemeType]string");
  ("pkgvar", "scanner", "", "regexType : bytes.Bytes");
  ("pkgvar-write", "directive", "NewDirectiveType", "inside-Once.Do ee : map[string]directive.Enumeration");
  ("pkgvar-write", "directive", "NewDirectiveType", "inside-Once.Do ee : map[string]directive.Enumeration");
  ("recover", "catalog", "ObjectBuilder.Build", "");
  ("recover", "core", "pSchema.compilePathVariables", "");
  ("recover", "core", "pSchema.loadPathVariables", "");
  ("recover", "kit", "openAPIPanicFree", "");
  ("recover", "kit", "readPanicFree", "")
].

(* the same sites as normalised keys (kind, package, what the site is): Props/C01.v proves that the
   regenerated keys are a sub-multiset of these - sites may move, merge or disappear, none may appear *)
Definition expected_keys : list (string * string * string) := [
  ("assert", "catalog", ".(*HTTPInteraction)");
  ("assert", "catalog", ".(*HTTPInteraction)");
  ("assert", "catalog", ".(*JsonRpcInteraction)");
  ("assert", "catalog", ".(*JsonRpcInteraction)");
  ("assert", "catalog", ".(*JsonRpcInteraction)");
  ("assert", "catalog", ".(*JsonRpcInteraction)");
  ("assert", "catalog", ".(*JsonRpcInteraction)");
  ("assert", "catalog", ".(*JsonRpcInteraction)");
  ("assert", "catalog", ".(*HTTPInteraction)");
  ("assert", "catalog", ".(*HTTPInteraction)");
  ("assert", "catalog", ".(*HTTPInteraction)");
  ("assert", "catalog", ".(*HTTPInteraction)");
  ("assert", "catalog", ".(*HTTPInteraction)");
  ("assert", "catalog", ".(*HTTPInteraction)");
  ("assert", "catalog", ".(*HTTPInteraction)");
  ("assert", "catalog", ".(*HTTPInteraction)");
  ("assert", "catalog", ".(*HTTPInteraction)");
  ("assert", "catalog", ".(*HTTPInteraction)");
  ("assert", "catalog", ".(*HTTPInteraction)");
  ("assert", "catalog", ".(*HTTPInteraction)");
  ("assert", "catalog", ".(*HTTPInteraction)");
  ("assert", "catalog", ".(*HTTPInteraction)");
  ("assert", "catalog", ".(*HTTPInteraction)");
  ("assert", "catalog", ".(*HTTPInteraction)");
  ("assert", "catalog", ".(*jschema.JSchema)");
  ("assert", "catalog", ".(*regex.RSchema)");
  ("assert", "catalog/ser/openapi", ".(errImpl)");
  ("assert", "catalog/ser/openapi", ".(*catalog.HTTPInteraction)");
  ("assert", "catalog/ser/openapi", ".(sc.ObjectInformer)");
  ("assert", "catalog/ser/openapi", ".(*catalog.ExchangeJSightSchema)");
  ("assert", "catalog/ser/openapi", ".(*catalog.ExchangeRegexSchema)");
  ("assert", "core", ".(*jerr.JApiError)");
  ("extcall", "core", "filepath.Dir");
  ("extcall", "core", "filepath.Join");
  ("extcall", "core", "os.Stat");
  ("extcall", "core", "os.ReadFile");
  ("maprange", "catalog", "map[string]schema.Rule");
  ("maprange", "catalog", "map[string]ischema.Type");
  ("maprange", "catalog/ser/openapi", "map[openapi.mediaType][]openapi.schemaObject");
  ("maprange", "catalog/ser/openapi", "map[string][]openapi.headerInfo");
  ("maprange", "catalog/ser/openapi", "map[openapi.responseCode][]*catalog.HTTPResponse");
  ("maprange", "core", "map[string]schema.Rule");
  ("maprange", "core", "map[string]ischema.Node");
  ("maprange", "core", "map[string]*jschema.JSchema");
  ("once", "catalog", "");
  ("once", "catalog", "");
  ("once", "directive", "");
  ("panic", "catalog", "");
  ("panic", "catalog", "");
  ("panic", "catalog", "");
  ("panic", "catalog/ser/openapi", "");
  ("panic", "catalog/ser/openapi", "");
  ("panic", "catalog/ser/openapi", "");
  ("panic", "catalog/ser/openapi", "");
  ("panic", "core", "");
  ("panic", "core", "");
  ("panic", "scanner", "");
  ("panic", "scanner", "");
  ("panic", "scanner", "");
  ("panic", "scanner", "");
  ("pkgvar", "catalog", "*regexp.Regexp");
  ("pkgvar", "catalog", "sync.Mutex");
  ("pkgvar", "directive", "map[directive.Enumeration]map[directive.Enumeration]struct{}");
  ("pkgvar", "directive", "map[string]directive.Enumeration");
  ("pkgvar", "directive", "sync.Once");
  ("pkgvar", "directive", "[]string");
  ("pkgvar", "kit", "sync.Mutex");
  ("pkgvar", "scanner", "bytes.Bytes");
  ("pkgvar", "scanner", "scanner.emptyIncludeTracer");
  ("pkgvar", "scanner", "bytes.Bytes");
  ("pkgvar", "scanner", "map[scanner.LexemeEventType]string");
  ("pkgvar", "scanner", "map[scanner.LexemeType]string");
  ("pkgvar", "scanner", "bytes.Bytes");
  ("pkgvar-write", "directive", "inside-Once.Do map[string]directive.Enumeration");
  ("pkgvar-write", "directive", "inside-Once.Do map[string]directive.Enumeration");
  ("recover", "catalog", "");
  ("recover", "core", "");
  ("recover", "core", "");
  ("recover", "kit", "");
  ("recover", "kit", "")
].
