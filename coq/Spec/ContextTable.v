(* ContextTable.v — the JSight API 0.3 context table, pinned.  Transcribed once from
   directive/enumeration.go at the design commit and cross-checked against the pairs listed
   in directive/enumeration_test.go (the official specification page is not reachable from
   the sandbox; see DESIGN.md trusted base).  Props/C11.v proves that the regenerated table
   (Gen/DirectiveTables.v) equals this one. *)
From Coq Require Import List NArith String.
Import ListNotations.
Open Scope string_scope.

(* parent keyword -> keywords allowed directly inside it *)
Definition spec_context_table : list (string * list string) := [
  ("URL", ["GET"; "POST"; "PUT"; "PATCH"; "DELETE"; "Path"; "PASTE"; "Protocol"; "Method"; "Tags"]);
  ("GET", ["Description"; "Request"; "HTTP-response-code"; "Path"; "Query"; "PASTE"; "Tags"; "OperationId"]);
  ("POST", ["Description"; "Request"; "HTTP-response-code"; "Path"; "Query"; "PASTE"; "Tags"; "OperationId"]);
  ("PUT", ["Description"; "Request"; "HTTP-response-code"; "Path"; "Query"; "PASTE"; "Tags"; "OperationId"]);
  ("PATCH", ["Description"; "Request"; "HTTP-response-code"; "Path"; "Query"; "PASTE"; "Tags"; "OperationId"]);
  ("DELETE", ["Description"; "Request"; "HTTP-response-code"; "Path"; "Query"; "PASTE"; "Tags"; "OperationId"]);
  ("HTTP-response-code", ["Body"; "Headers"; "PASTE"]);
  ("Request", ["Body"; "Headers"; "PASTE"]);
  ("INFO", ["Title"; "Version"; "Description"; "PASTE"]);
  ("SERVER", ["BaseUrl"; "PASTE"]);
  ("Method", ["Description"; "Params"; "Result"; "Tags"]);
  ("TAG", ["Description"]);
  ("MACRO", ["INFO"; "Title"; "Version"; "Description"; "SERVER"; "BaseUrl"; "URL"; "GET"; "POST"; "PUT";
             "PATCH"; "DELETE"; "Body"; "Request"; "HTTP-response-code"; "Path"; "Headers"; "Query";
             "TYPE"; "ENUM"; "PASTE"])
].

Definition spec_root_allowed : list string :=
  ["JSIGHT"; "INFO"; "SERVER"; "URL"; "GET"; "POST"; "PUT"; "PATCH"; "DELETE"; "TYPE"; "ENUM";
   "MACRO"; "PASTE"; "TAG"].

Definition spec_http_methods : list string := ["GET"; "POST"; "PUT"; "PATCH"; "DELETE"].

Definition spec_keywords : list string :=
  ["JSIGHT"; "INFO"; "Title"; "Version"; "Description"; "SERVER"; "BaseUrl"; "URL"; "GET"; "POST";
   "PUT"; "PATCH"; "DELETE"; "Body"; "Request"; "HTTP-response-code"; "Path"; "Headers"; "Query";
   "TYPE"; "ENUM"; "MACRO"; "PASTE"; "INCLUDE"; "Protocol"; "Method"; "Params"; "Result"; "TAG";
   "Tags"; "OperationId"].
