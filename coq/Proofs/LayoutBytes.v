(* LayoutBytes.v — C08, lifted from one step to WHOLE FILES: two files that differ only in
   which newline byte (LF or CR) and which blank byte (space or tab) stands at each position are
   scanned identically — same lexemes (kinds and extents), same end (same error at the same
   byte), same final configuration — for every pair of such files, the same oracle answers, any
   number of Next() calls, from every configuration.  The per-state facts about the regenerated
   scanner program are decided by computation (all_alike of C08Proofs; no CPrevByte test and no
   keyword mentions one of the four bytes); the rest is proved once for every program. *)
From JS Require Import Base Bytes Scanner ExecLemmas C08Proofs.
From JS Require ScannerProg DirectiveTables.
From Coq Require Import Lia.
Open Scope Z_scope.

Definition special (c : N) : bool := (N.eqb c 10 || N.eqb c 13 || N.eqb c 32 || N.eqb c 9)%bool.
(* the representative of a byte: CR as LF, tab as space *)
Definition cls (c : N) : N := if N.eqb c 13 then 10%N else if N.eqb c 9 then 32%N else c.
Definition same_layout (a b : bytes) : Prop := List.map cls a = List.map cls b.
Definition hs (l : bytes) : bool := existsb special l.

Lemma special_cases c : special c = true -> c = 10%N \/ c = 13%N \/ c = 32%N \/ c = 9%N.
Proof.
  unfold special. intros H.
  destruct (N.eqb_spec c 10); [auto|]. destruct (N.eqb_spec c 13); [auto|].
  destruct (N.eqb_spec c 32); [auto|]. destruct (N.eqb_spec c 9); [auto|]. discriminate.
Qed.

Lemma cls_plain c : special c = false -> cls c = c.
Proof.
  unfold special, cls. intros H.
  destruct (N.eqb c 13); [rewrite Bool.orb_true_r in H; discriminate|].
  destruct (N.eqb c 9); [rewrite !Bool.orb_true_r in H; discriminate|]. reflexivity.
Qed.

(* a byte test that does not tell LF from CR nor space from tab *)
Definition blind (f : N -> bool) : Prop := f 13%N = f 10%N /\ f 9%N = f 32%N.

Lemma blind_cls f c : blind f -> f (cls c) = f c.
Proof.
  intros [H1 H2]. unfold cls.
  destruct (N.eqb_spec c 13) as [->|_]; [symmetry; exact H1|].
  destruct (N.eqb_spec c 9) as [->|_]; [symmetry; exact H2|]. reflexivity.
Qed.

Lemma blind_same f a b : blind f -> cls a = cls b -> f a = f b.
Proof. intros B H. rewrite <- (blind_cls f a B), <- (blind_cls f b B), H. reflexivity. Qed.

Lemma special_blind : blind special.
Proof. split; reflexivity. Qed.

Lemma eqb_blind b : special b = false -> blind (fun c => N.eqb c b).
Proof.
  intros H. unfold special in H.
  destruct (N.eqb_spec b 10) as [e1|n1]; [discriminate|].
  destruct (N.eqb_spec b 13) as [e2|n2]; [discriminate|].
  destruct (N.eqb_spec b 32) as [e3|n3]; [discriminate|].
  destruct (N.eqb_spec b 9) as [e4|n4]; [discriminate|].
  split.
  - destruct (N.eqb_spec 13 b); [congruence|]. destruct (N.eqb_spec 10 b); [congruence|]. reflexivity.
  - destruct (N.eqb_spec 9 b); [congruence|]. destruct (N.eqb_spec 32 b); [congruence|]. reflexivity.
Qed.

Lemma cls_eq_cases a b : cls a = cls b ->
  a = b \/ (a = 10%N /\ b = 13%N) \/ (a = 13%N /\ b = 10%N) \/ (a = 32%N /\ b = 9%N) \/ (a = 9%N /\ b = 32%N).
Proof.
  unfold cls.
  destruct (N.eqb_spec a 13) as [->|na]; destruct (N.eqb_spec b 13) as [->|nb]; intros H; auto.
  - destruct (N.eqb_spec b 9) as [->|nb9]; [discriminate|]. subst b. auto 10.
  - destruct (N.eqb_spec a 9) as [->|na9]; [discriminate|]. subst a. auto 10.
  - destruct (N.eqb_spec a 9) as [->|na9]; destruct (N.eqb_spec b 9) as [->|nb9]; auto.
    + subst b. auto 10.
    + subst a. auto 10.
Qed.

(* ------------------------------------------------------------------------------------ *)
(* lists *)

Lemma same_layout_length a b : same_layout a b -> List.length a = List.length b.
Proof. unfold same_layout. intros H. rewrite <- (map_length cls a), H. apply map_length. Qed.

Lemma same_layout_refl a : same_layout a a.
Proof. reflexivity. Qed.

Lemma same_layout_skipn n a b : same_layout a b -> same_layout (skipn n a) (skipn n b).
Proof. unfold same_layout. intros H. rewrite <- !skipn_map, H. reflexivity. Qed.

Lemma same_layout_firstn n a b : same_layout a b -> same_layout (firstn n a) (firstn n b).
Proof. unfold same_layout. intros H. rewrite <- !firstn_map, H. reflexivity. Qed.

Lemma same_layout_sub a b lo hi : same_layout a b -> same_layout (sub a lo hi) (sub b lo hi).
Proof. intros H. unfold sub. apply same_layout_firstn, same_layout_skipn, H. Qed.

Lemma same_layout_nth a b n : same_layout a b ->
  match nth_error a n, nth_error b n with
  | Some x, Some y => cls x = cls y
  | None, None => True
  | _, _ => False
  end.
Proof.
  unfold same_layout. intros H.
  pose proof (nth_error_map cls n a) as Ha. pose proof (nth_error_map cls n b) as Hb.
  rewrite H in Ha. rewrite Ha in Hb.
  destruct (nth_error a n), (nth_error b n); cbn in Hb; try discriminate; [|exact I].
  injection Hb as Hb. exact Hb.
Qed.

Lemma same_layout_cons_inv x a y b : same_layout (x :: a) (y :: b) -> cls x = cls y /\ same_layout a b.
Proof. unfold same_layout. cbn. intros H. injection H as H1 H2. split; assumption. Qed.

Lemma same_layout_nil_inv b : same_layout [] b -> b = [].
Proof. unfold same_layout. destruct b; [reflexivity|discriminate]. Qed.

Lemma same_layout_hs a : forall b, same_layout a b -> hs a = hs b.
Proof.
  induction a as [|x a IH]; intros b H.
  - apply same_layout_nil_inv in H. subst. reflexivity.
  - destruct b as [|y b]; [discriminate H|]. apply same_layout_cons_inv in H as [Hx Hr].
    cbn [hs existsb]. rewrite (blind_same special x y special_blind Hx). f_equal. exact (IH b Hr).
Qed.

Lemma same_layout_plain a : forall b, same_layout a b -> hs a = false -> a = b.
Proof.
  induction a as [|x a IH]; intros b H P.
  - apply same_layout_nil_inv in H. subst. reflexivity.
  - destruct b as [|y b]; [discriminate H|].
    pose proof (same_layout_hs _ _ H) as Hb. rewrite P in Hb.
    apply same_layout_cons_inv in H as [Hx Hr].
    cbn [hs existsb] in P, Hb. apply Bool.orb_false_elim in P as [Px Pa].
    symmetry in Hb. apply Bool.orb_false_elim in Hb as [Py Pb].
    rewrite (cls_plain x Px), (cls_plain y Py) in Hx. subst y. f_equal. exact (IH b Hr Pa).
Qed.

Lemma hs_app a b : hs (a ++ b) = (hs a || hs b)%bool.
Proof. apply existsb_app. Qed.

Lemma beq_true_eq a : forall b, beq a b = true -> a = b.
Proof.
  unfold beq, N_eqb_list. induction a as [|x a IH]; intros [|y b] H; try discriminate; [reflexivity|].
  apply andb_prop in H as [H1 H2]. apply N.eqb_eq in H1. subst. f_equal. exact (IH b H2).
Qed.

Lemma beq_plain_false u kw : hs u = true -> hs kw = false -> beq u kw = false.
Proof.
  intros Hu Hk. destruct (beq u kw) eqn:E; [|reflexivity].
  apply beq_true_eq in E. subst. congruence.
Qed.

(* ------------------------------------------------------------------------------------ *)
(* the parameter predicates: a value containing one of the four bytes satisfies none *)

Lemma rev_cons_shape {A} (l : list A) x r : rev l = x :: r -> l = rev r ++ [x].
Proof. intros H. rewrite <- (rev_involutive l), H. reflexivity. Qed.

Lemma removelast_last {A} (l : list A) x : removelast (l ++ [x]) = l.
Proof. rewrite removelast_app by discriminate. cbn. apply app_nil_r. Qed.

Lemma unquote_body_hs : forall n s t, (List.length s <= n)%nat ->
  unquote_body s = Some t -> hs s = true -> hs t = true.
Proof.
  induction n as [|n IH]; intros s t L U H.
  - destruct s; [discriminate H|cbn in L; lia].
  - destruct s as [|c rest]; [discriminate H|]. cbn [unquote_body] in U. cbn [List.length] in L.
    destruct (N.eqb_spec c 92) as [->|nc].
    + destruct rest as [|e rest']; [discriminate|].
      destruct (escape_image e) as [x|] eqn:Ee; [|discriminate].
      destruct (unquote_body rest') as [t0|] eqn:Er; [|discriminate].
      injection U as <-. cbn [hs existsb] in H. cbn [special N.eqb Pos.eqb orb] in H.
      destruct (special e) eqn:Se.
      * exfalso. destruct (special_cases e Se) as [ -> | [ -> | [ -> | -> ]]]; discriminate Ee.
      * cbn [orb] in H. change (hs (x :: t0)) with (special x || hs t0)%bool. rewrite (IH rest' t0); [apply Bool.orb_true_r| cbn in L; lia | exact Er | exact H].
    + destruct ((c =? 34)%N || (c <? 32)%N)%bool; [discriminate|].
      destruct (unquote_body rest) as [t0|] eqn:Er; [|discriminate]. injection U as <-.
      cbn [hs existsb] in H |- *. destruct (special c); [reflexivity|]. cbn [orb] in H |- *.
      apply (IH rest t0); [lia|exact Er|exact H].
Qed.

Ltac split_pos :=
  repeat match goal with
         | |- context [match ?p with xI _ => _ | xO _ => _ | xH => _ end] => destruct p
         | |- context [match ?n with N0 => _ | Npos _ => _ end] => destruct n
         end.

Lemma in_quotes_shape b : in_quotes b = true -> exists mid, b = 34%N :: mid ++ [34%N].
Proof.
  unfold in_quotes. destruct b as [|c rest]; [discriminate|].
  destruct (N.eqb_spec c 34) as [->|nc].
  - destruct (rev rest) as [|d r] eqn:Er; [discriminate|].
    destruct (N.eqb_spec d 34) as [->|nd].
    + intros _. exists (rev r). f_equal. apply rev_cons_shape. exact Er.
    + intros H. exfalso. revert H. clear -nd. split_pos; try discriminate. congruence.
  - intros H. exfalso. revert H. clear -nc. split_pos; try discriminate. congruence.
Qed.

Lemma unquote_hs b : hs b = true -> hs (unquote b) = true.
Proof.
  intros H. unfold unquote. destruct (in_quotes b) eqn:Q; [|exact H].
  destruct (in_quotes_shape b Q) as [mid ->]. cbn [tl]. rewrite removelast_last.
  destruct (unquote_body mid) as [t|] eqn:U; [|exact H].
  apply (unquote_body_hs (List.length mid) mid t (le_n _) U).
  cbn [hs existsb] in H. rewrite hs_app in H. cbn in H. rewrite Bool.orb_false_r in H. exact H.
Qed.

Lemma trim_shape b : trim_square_brackets b = b \/
  exists mid, b = 91%N :: mid ++ [93%N] /\ trim_square_brackets b = mid.
Proof.
  unfold trim_square_brackets. destruct b as [|c rest]; [left; reflexivity|].
  destruct (N.eqb_spec c 91) as [->|nc].
  - destruct rest as [|c2 rest2]; [left; reflexivity|].
    destruct (rev (c2 :: rest2)) as [|d r] eqn:Er; [left; reflexivity|].
    destruct (N.eqb_spec d 93) as [->|nd].
    + right. exists (rev r). apply rev_cons_shape in Er. rewrite Er. split; [reflexivity|].
      apply removelast_last.
    + left. clear -nd. split_pos; try reflexivity. congruence.
  - left. clear -nc. split_pos; try reflexivity. congruence.
Qed.

Lemma trim_hs b : hs b = true -> hs (trim_square_brackets b) = true.
Proof.
  intros H. destruct (trim_shape b) as [->|[mid [-> ->]]]; [exact H|].
  cbn [hs existsb] in H. rewrite hs_app in H. cbn in H. rewrite Bool.orb_false_r in H. exact H.
Qed.

Lemma utn_hs b : hs b = true -> is_user_type_name b = false.
Proof.
  intros H. unfold is_user_type_name. destruct b as [|c rest]; [reflexivity|].
  destruct (N.eqb_spec c 64) as [->|nc].
  - destruct rest as [|c2 rest2]; [reflexivity|].
    change (hs (64%N :: c2 :: rest2)) with (special 64 || hs (c2 :: rest2))%bool in H.
    change (special 64) with false in H. cbn [orb] in H.
    destruct (forallb is_utn_byte (c2 :: rest2)) eqn:F; [|reflexivity]. exfalso.
    rewrite forallb_forall in F. unfold hs in H. apply existsb_exists in H as [x [Hin Sx]].
    pose proof (F x Hin) as Ux. destruct (special_cases x Sx) as [ -> | [ -> | [ -> | -> ]]]; discriminate Ux.
  - clear -nc. split_pos; try reflexivity. congruence.
Qed.

Definition vp_type (v : bytes) : bool :=
  let v' := trim_square_brackets (unquote v) in beq v' kw_any || beq v' kw_empty || is_user_type_name v'.
Definition vp_any (v : bytes) : bool :=
  let v' := trim_square_brackets (unquote v) in beq v' kw_any || beq v' kw_empty.
Definition vp_regex (v : bytes) : bool := beq (unquote v) kw_regex.

Lemma vp_type_hs v : hs v = true -> vp_type v = false.
Proof.
  intros H. unfold vp_type. cbv zeta. pose proof (trim_hs _ (unquote_hs _ H)) as T.
  rewrite (beq_plain_false _ kw_any T eq_refl), (beq_plain_false _ kw_empty T eq_refl), (utn_hs _ T). reflexivity.
Qed.
Lemma vp_any_hs v : hs v = true -> vp_any v = false.
Proof.
  intros H. unfold vp_any. cbv zeta. pose proof (trim_hs _ (unquote_hs _ H)) as T.
  rewrite (beq_plain_false _ kw_any T eq_refl), (beq_plain_false _ kw_empty T eq_refl). reflexivity.
Qed.
Lemma vp_regex_hs v : hs v = true -> vp_regex v = false.
Proof. intros H. unfold vp_regex. apply beq_plain_false; [apply unquote_hs, H|reflexivity]. Qed.

Lemma vp_same (f : bytes -> bool) : (forall v, hs v = true -> f v = false) ->
  forall v w, same_layout v w -> f v = f w.
Proof.
  intros Hf v w S. destruct (hs v) eqn:Hv.
  - rewrite (Hf v Hv). pose proof (same_layout_hs _ _ S) as E. rewrite Hv in E. rewrite (Hf w (eq_sym E)). reflexivity.
  - rewrite (same_layout_plain v w S Hv). reflexivity.
Qed.

Lemma existsb_same (f : bytes -> bool) : (forall v w, same_layout v w -> f v = f w) ->
  forall vs ws, Forall2 same_layout vs ws -> existsb f vs = existsb f ws.
Proof. intros Hf vs ws F. induction F as [|v w vs ws S F IH]; [reflexivity|]. cbn [existsb]. rewrite (Hf v w S), IH. reflexivity. Qed.

(* ------------------------------------------------------------------------------------ *)
(* what the scanner reads from the file besides the current byte *)

Fixpoint cond_prev_plain (k : cond) : bool :=
  match k with
  | CPrevByte _ b => negb (special b)
  | CNot a => cond_prev_plain a
  | CAnd a b | COr a b => cond_prev_plain a && cond_prev_plain b
  | _ => true
  end.

Fixpoint stmt_prev_plain (s : stmt) : bool :=
  match s with
  | SIf k t e => cond_prev_plain k && stmt_prev_plain t && stmt_prev_plain e
  | SSeq a b => stmt_prev_plain a && stmt_prev_plain b
  | _ => true
  end.

Definition prog_prev_plain (prog : list (string * stmt)) : bool := forallb (fun e => stmt_prev_plain (snd e)) prog.

Lemma teol_same a : forall b, same_layout a b -> same_layout (to_end_of_line a) (to_end_of_line b).
Proof.
  induction a as [|x a IH]; intros b H.
  - apply same_layout_nil_inv in H. subst. reflexivity.
  - destruct b as [|y b]; [discriminate H|]. apply same_layout_cons_inv in H as [Hx Hr].
    cbn [to_end_of_line].
    assert (B : blind (fun c => ((c =? 10) || (c =? 13))%N%bool)) by (split; reflexivity).
    rewrite (blind_same _ x y B Hx).
    destruct ((y =? 10)%N || (y =? 13)%N)%bool; [reflexivity|].
    unfold same_layout. cbn [List.map]. rewrite Hx. f_equal. exact (IH b Hr).
Qed.

Lemma is_prefix_same k : hs k = false -> forall a b, same_layout a b -> is_prefix k a = is_prefix k b.
Proof.
  induction k as [|x k IH]; intros Hk a b S; [reflexivity|].
  cbn [hs existsb] in Hk. apply Bool.orb_false_elim in Hk as [Hx Hk].
  destruct a as [|y a].
  - apply same_layout_nil_inv in S. subst. reflexivity.
  - destruct b as [|z b]; [discriminate S|]. apply same_layout_cons_inv in S as [Hy Sr].
    cbn [is_prefix]. rewrite (IH Hk a b Sr).
    pose proof (blind_same _ y z (eqb_blind x Hx) Hy) as E. cbn beta in E.
    rewrite (N.eqb_sym x y), (N.eqb_sym x z), E. reflexivity.
Qed.

Lemma keywords_plain : forallb (fun k => negb (hs k)) real_keywords = true.
Proof. vm_compute. reflexivity. Qed.

Lemma existsb_ext_in {A} (f g : A -> bool) l : (forall x, In x l -> f x = g x) -> existsb f l = existsb g l.
Proof.
  induction l as [|x l IH]; intros H; [reflexivity|]. cbn [existsb].
  rewrite (H x (or_introl eq_refl)), IH; [reflexivity|]. intros y Hy. apply H. right. exact Hy.
Qed.

Lemma code3_same a b : same_layout a b -> is_response_code3 a = is_response_code3 b.
Proof.
  intros S. unfold is_response_code3.
  destruct a as [|x1 [|x2 [|x3 a]]]; destruct b as [|y1 [|y2 [|y3 b]]]; try discriminate S; try reflexivity.
  apply same_layout_cons_inv in S as [H1 S]. apply same_layout_cons_inv in S as [H2 S].
  apply same_layout_cons_inv in S as [H3 S].
  assert (B1 : blind (fun a => ((49 <=? a) && (a <=? 53))%N%bool)) by (split; reflexivity).
  assert (B2 : blind is_digit) by (split; reflexivity).
  rewrite (blind_same _ x1 y1 B1 H1), (blind_same _ x2 y2 B2 H2), (blind_same _ x3 y3 B2 H3). reflexivity.
Qed.

Lemma start_with_directive_same a b : same_layout a b -> is_start_with_directive a = is_start_with_directive b.
Proof.
  intros S. unfold is_start_with_directive. rewrite (same_layout_length a b S).
  destruct (Nat.ltb (List.length b) 3); [reflexivity|].
  rewrite (code3_same a b S). f_equal.
  apply existsb_ext_in. intros k Hk.
  pose proof keywords_plain as P. rewrite forallb_forall in P. specialize (P k Hk).
  apply Bool.negb_true_iff in P. apply is_prefix_same; assumption.
Qed.

Section TwoFiles.
  Variable prog : list (string * stmt).
  Variable nl ws : cond.
  Variable olen : okind -> Z -> olen_res.
  Variable data data' : bytes.
  Hypothesis SL : same_layout data data'.

  Lemma size_same : data_size data = data_size data'.
  Proof. unfold data_size. rewrite (same_layout_length _ _ SL). reflexivity. Qed.

  Lemma byte_at_same i :
    match byte_at data i, byte_at data' i with
    | Some x, Some y => cls x = cls y
    | None, None => True
    | _, _ => False
    end.
  Proof. unfold byte_at. destruct (i <? 0); [exact I|]. apply same_layout_nth. exact SL. Qed.

  Lemma lexeme_value_same l :
    match lexeme_value data l, lexeme_value data' l with
    | Some v, Some w => same_layout v w
    | None, None => True
    | _, _ => False
    end.
  Proof.
    unfold lexeme_value. rewrite (same_layout_length _ _ SL).
    destruct ((lb l <? 0) || (le l + 1 <? lb l) || (Z.of_nat (List.length data') <? le l + 1))%bool; [exact I|].
    apply same_layout_sub. exact SL.
  Qed.

  Lemma param_values_same ps :
    match param_values data ps, param_values data' ps with
    | Some vs, Some ws => Forall2 same_layout vs ws
    | None, None => True
    | _, _ => False
    end.
  Proof.
    induction ps as [|p ps IH]; cbn [param_values]; [constructor|].
    pose proof (lexeme_value_same p) as Hp.
    destruct (lexeme_value data p), (lexeme_value data' p); try contradiction; [|exact I].
    destruct (param_values data ps), (param_values data' ps); try contradiction; [|exact I].
    constructor; assumption.
  Qed.

  Lemma eval_ctx_same cf q : eval_ctx data cf q = eval_ctx data' cf q.
  Proof.
    destruct q; cbn [eval_ctx].
    - pose proof (param_values_same (c_params cf)) as H.
      destruct (param_values data (c_params cf)), (param_values data' (c_params cf)); try contradiction; [|reflexivity].
      f_equal. exact (existsb_same vp_type (vp_same vp_type vp_type_hs) _ _ H).
    - pose proof (param_values_same (c_params cf)) as H.
      destruct (param_values data (c_params cf)), (param_values data' (c_params cf)); try contradiction; [|reflexivity].
      do 2 f_equal. exact (existsb_same vp_any (vp_same vp_any vp_any_hs) _ _ H).
    - pose proof (param_values_same (c_params cf)) as H.
      destruct (param_values data (c_params cf)), (param_values data' (c_params cf)); try contradiction; [|reflexivity].
      f_equal. exact (existsb_same vp_regex (vp_same vp_regex vp_regex_hs) _ _ H).
    - rewrite size_same. destruct ((c_cur cf <? 0) || (data_size data' <? c_cur cf))%bool; [reflexivity|].
      f_equal. apply start_with_directive_same, teol_same, same_layout_skipn, SL.
  Qed.

  Lemma eval_cond_same cf c k : cond_prev_plain k = true ->
    eval_cond nl ws data cf c k = eval_cond nl ws data' cf c k.
  Proof.
    induction k as [x| | |d x|q|a IHa|a IHa b IHb|a IHa b IHb|]; cbn [cond_prev_plain]; intros H;
      cbn [eval_cond]; try reflexivity.
    - pose proof (byte_at_same (c_cur cf - d)) as B.
      destruct (byte_at data (c_cur cf - d)) as [u|], (byte_at data' (c_cur cf - d)) as [v|]; try contradiction; [|reflexivity].
      apply Bool.negb_true_iff in H. f_equal. exact (blind_same _ u v (eqb_blind x H) B).
    - apply eval_ctx_same.
    - rewrite (IHa H). reflexivity.
    - apply andb_prop in H as [Ha Hb]. rewrite (IHa Ha), (IHb Hb). reflexivity.
    - apply andb_prop in H as [Ha Hb]. rewrite (IHa Ha), (IHb Hb). reflexivity.
  Qed.

  Lemma exec_same c s : stmt_prev_plain s = true ->
    forall cf, exec nl ws data olen c s cf = exec nl ws data' olen c s cf.
  Proof.
    induction s as [st|st| | |ev off|dz|k t IHt e IHe|a IHa b IHb| |ok| |w e|m|st| ];
      cbn [stmt_prev_plain]; intros H cf; cbn [exec]; try reflexivity.
    - apply andb_prop in H as [H He]. apply andb_prop in H as [Hk Ht].
      rewrite (eval_cond_same cf c k Hk).
      destruct (eval_cond nl ws data' cf c k) as [[|]|]; auto.
    - apply andb_prop in H as [Ha Hb]. rewrite (IHa Ha cf).
      destruct (exec nl ws data' olen c a cf); auto.
    - unfold mk_unexpected. rewrite size_same. reflexivity.
  Qed.

  Hypothesis PP : prog_prev_plain prog = true.

  Lemma run_step_same_data c : forall fuel st cf,
    run_step prog nl ws data olen fuel st c cf = run_step prog nl ws data' olen fuel st c cf.
  Proof.
    unfold prog_prev_plain in PP. rewrite forallb_forall in PP.
    induction fuel as [|fuel IH]; intros st cf; [reflexivity|].
    cbn [run_step]. unfold body_of.
    destruct (nth_error prog (N.to_nat st)) as [[name body]|] eqn:E; cbn [option_map snd]; [|reflexivity].
    pose proof (PP (name, body) (nth_error_In _ _ E)) as A. cbn [snd] in A.
    rewrite (exec_same c body A cf).
    destruct (exec nl ws data' olen c body cf) as [cf'|[|st'|] cf'|e|p]; auto.
  Qed.

  Hypothesis LF_CR : all_alike nl ws prog 10%N 13%N = true.
  Hypothesis SP_TAB : all_alike nl ws prog 32%N 9%N = true.

  Lemma run_step_same c c' : cls c = cls c' -> forall fuel st cf,
    run_step prog nl ws data olen fuel st c cf = run_step prog nl ws data' olen fuel st c' cf.
  Proof.
    intros Hc fuel st cf. rewrite <- run_step_same_data.
    destruct (cls_eq_cases c c' Hc) as [ -> | [[ -> -> ] | [[ -> -> ] | [[ -> -> ] | [ -> -> ]]]]]; [reflexivity| | | |].
    - apply alike_run_step. exact LF_CR.
    - symmetry. apply alike_run_step. exact LF_CR.
    - apply alike_run_step. exact SP_TAB.
    - symmetry. apply alike_run_step. exact SP_TAB.
  Qed.

  Lemma next_loop_same : forall fuel cf,
    next_loop prog nl ws data olen fuel cf = next_loop prog nl ws data' olen fuel cf.
  Proof.
    induction fuel as [|fuel IH]; intros cf; [reflexivity|].
    cbn [next_loop]. rewrite size_same.
    destruct (data_size data' <? c_cur cf); [reflexivity|].
    destruct (c_cur cf <? 0); [reflexivity|].
    cbv zeta.
    destruct (c_cur cf =? data_size data') eqn:AtEnd; cbn [negb andb].
    - rewrite (run_step_same 0%N 0%N eq_refl).
      destruct (run_step prog nl ws data' olen step_fuel (c_step cf) 0%N cf) as [cf1| | |]; try reflexivity.
      destruct (drain _ _) as [[[l|] cf3]| | |]; try reflexivity. apply IH.
    - pose proof (byte_at_same (c_cur cf)) as B.
      destruct (byte_at data (c_cur cf)) as [u|], (byte_at data' (c_cur cf)) as [v|]; try contradiction.
      + rewrite (blind_same _ u v (eqb_blind 0%N eq_refl) B).
        destruct (N.eqb v 0); [reflexivity|].
        rewrite (run_step_same u v B).
        destruct (run_step prog nl ws data' olen step_fuel (c_step cf) v cf) as [cf1| | |]; try reflexivity.
        destruct (drain _ _) as [[[l|] cf3]| | |]; try reflexivity. apply IH.
      + reflexivity.
  Qed.

  Lemma next_same cf : next prog nl ws data olen cf = next prog nl ws data' olen cf.
  Proof.
    unfold next, loop_fuel. rewrite (same_layout_length _ _ SL).
    destruct (c_finds cf) as [|ev fs]; [apply next_loop_same|].
    destruct (process_event (set_finds cf fs) ev) as [[[l|] cf']| | |]; try reflexivity. apply next_loop_same.
  Qed.

  Theorem lex_all_same : forall fuel cf,
    lex_all prog nl ws data olen fuel cf = lex_all prog nl ws data' olen fuel cf.
  Proof.
    induction fuel as [|fuel IH]; intros cf; [reflexivity|].
    cbn [lex_all]. rewrite next_same.
    destruct (next prog nl ws data' olen cf) as [[[l|] cf']| | |]; try reflexivity.
    rewrite IH. reflexivity.
  Qed.
End TwoFiles.

Lemma prog_prev_plain_ok : prog_prev_plain P = true.
Proof. vm_compute. reflexivity. Qed.

(* the whole file, for the regenerated scanner *)
Theorem newline_and_blank_bytes_are_interchangeable_in_whole_files :
  forall data data' olen fuel cf,
    same_layout data data' ->
    lex_all P NL WS data olen fuel cf = lex_all P NL WS data' olen fuel cf.
Proof.
  intros data data' olen fuel cf S.
  apply lex_all_same; [exact S|exact prog_prev_plain_ok|exact lf_cr_alike_ok|exact blank_tab_alike_ok].
Qed.

(* the values of the lexemes differ only in those bytes *)
Theorem lexeme_values_keep_their_layout_class :
  forall data data' l, same_layout data data' ->
    match lexeme_value data l, lexeme_value data' l with
    | Some v, Some w => same_layout v w
    | None, None => True
    | _, _ => False
    end.
Proof. intros data data' l S. apply lexeme_value_same. exact S. Qed.

(* the premise is met by files that really differ, and the scan is not trivial *)
Definition lb_unix : bytes := bytes_of_string "GET /a // x
  200 any
".
Definition lb_other : bytes :=
  List.map (fun c => if N.eqb c 10 then 13%N else if N.eqb c 32 then 9%N else c) lb_unix.
Example lb_nonvacuous :
  same_layout lb_unix lb_other /\ lb_unix <> lb_other /\
  (let '(ls, e, _) := lex_all P NL WS lb_unix (fun _ _ => OLen 0) 100 (init_conf ScannerProg.initial_state) in
   (5 <=? Z.of_nat (List.length ls)) && match e with EndOk => true | _ => false end)%bool = true.
Proof. split; [vm_compute; reflexivity|]. split; [vm_compute; discriminate|vm_compute; reflexivity]. Qed.
