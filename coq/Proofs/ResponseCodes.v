(* ResponseCodes.v — the responses of every built catalog (C05, third sentence):

   1. every response of every HTTP interaction of a built catalog was put there by a response-code
      directive: its directive has kind HTTPResponseCode and its code is that directive's keyword
      (invariant of every add-function, lifted over branches and forests: nothing else ever
      appends to, reorders or re-labels the response list);
   2. a keyword the directive table maps to kind HTTPResponseCode is a response code in the sense
      of directive.IsHTTPResponseCode (three digits, 100..599) — so together with 1, on forests
      whose directives carry the kind of their keyword (what JApiCore.next assigns), every code of
      the catalog is in 100..599;
   3. every response of a built catalog has a body and so has every request (validateCatalog). *)
From JS Require Import Base Bytes Scanner Directive Core Expand Catalog ListAux C05Proofs C02Proofs CatalogOrder C10Proofs.
From JS Require DirectiveTables.
From Coq Require Import Lia.
Open Scope Z_scope.

Definition wf_resp (r : response) : Prop :=
  d_kind (rs_dir r) = DirectiveTables.dir_HTTPResponseCode /\ rs_code r = d_keyword (rs_dir r).
Definition wf_rhttp (h : http_inter) : Prop := Forall wf_resp (hi_responses h).
Definition wf_rinter (i : inter) : Prop := match i with IHttp h => wf_rhttp h | IRpc _ => True end.
Definition wf_resps (c : catalog) : Prop := Forall wf_rinter (c_inters c).

Lemma update_rwf is id f : (forall h, wf_rhttp h -> wf_rhttp (f h)) -> Forall wf_rinter is ->
  Forall wf_rinter (update_inter is id (fun i => match i with IHttp h => IHttp (f h) | x => x end)).
Proof.
  intros K H. induction H as [|i r Hi Hr IH]; cbn [update_inter]; [constructor|].
  destruct (beq (inter_id i) id).
  - constructor; [|exact Hr]. destruct i as [h|x]; [|exact Hi]. cbn [wf_rinter] in *. apply K. exact Hi.
  - constructor; assumption.
Qed.

Lemma upd_http_rwf c id f : (forall h, wf_rhttp h -> wf_rhttp (f h)) -> wf_resps c -> wf_resps (upd_http c id f).
Proof. intros K H. unfold wf_resps, upd_http. cbn [c_inters set_inters]. apply update_rwf; assumption. Qed.

Lemma upd_rpc_rwf c id f : wf_resps c -> wf_resps (upd_rpc c id f).
Proof.
  intros H. unfold wf_resps, upd_rpc. cbn [c_inters set_inters].
  induction H as [|i r Hi Hr IH]; cbn [update_inter]; [constructor|].
  destruct (beq (inter_id i) id); constructor; try assumption. destruct i; [exact Hi|exact I].
Qed.

Lemma find_inter_In is id i : find_inter is id = Some i -> In i is.
Proof.
  induction is as [|x r IH]; cbn [find_inter]; [discriminate|].
  destruct (beq (inter_id x) id); [intros H; injection H as <-; left; reflexivity|intros H; right; apply IH; exact H].
Qed.

Lemma find_http_rwf c id h : wf_resps c -> find_http c id = Some h -> wf_rhttp h.
Proof.
  unfold find_http, wf_resps. intros W H.
  destruct (find_inter (c_inters c) id) as [[h'|x]|] eqn:F; try discriminate. injection H as <-.
  apply find_inter_In in F. rewrite Forall_forall in W. exact (W _ F).
Qed.

(* replacing the last response by one with the same code and directive *)
Lemma relabel_last l lastr before r' :
  Forall wf_resp l -> rev l = lastr :: before ->
  rs_code r' = rs_code lastr -> rs_dir r' = rs_dir lastr ->
  Forall wf_resp (rev (r' :: before)).
Proof.
  intros W R C D. apply Forall_rev. apply Forall_rev in W. rewrite R in W.
  inversion W as [|a b Wa Wb]; subst. constructor; [|exact Wb].
  destruct Wa as [A B]. split; [rewrite D; exact A|rewrite C, D; exact B].
Qed.

Ltac crush H :=
  repeat (match type of H with
          | context [match ?x with _ => _ end] => let E := fresh "E" in destruct x eqn:E; try discriminate H
          | context [if ?x then _ else _] => let E := fresh "E" in destruct x eqn:E; try discriminate H
          end).
Ltac errs H := unfold kerr1, kerr, not_found, required in H; try discriminate H.
(* an update that leaves the response list alone *)
Ltac keeps :=
  let h := fresh "h" in let Wh := fresh "Wh" in
  intros h Wh; unfold wf_rhttp in *; cbn [hi_responses];
  repeat (match goal with |- context [match ?x with _ => _ end] => destruct x end; cbn [hi_responses]);
  exact Wh.
Ltac rwf_same W :=
  repeat (first [apply upd_http_rwf; [keeps|] | apply upd_rpc_rwf]);
  first [exact W | (unfold wf_resps in *; cbn [c_inters set_inters set_tags set_similar] in *; exact W)].

Lemma check_paths_rwf c d anc c1 p : check_paths c d anc = inl (c1, p) -> wf_resps c -> wf_resps c1.
Proof.
  unfold check_paths. destruct (dir_path d anc); [|discriminate].
  destruct (path_params_error b); [discriminate|].
  destruct (check_similar _ _); [|discriminate]. intros H W. injection H as <- _. exact W.
Qed.

Lemma add_request_rwf c d anc c' : add_request c d anc = COk c' -> wf_resps c -> wf_resps c'.
Proof. unfold add_request. intros H W. crush H. all: errs H. all: injection H as <-. all: rwf_same W. Qed.

(* the response-code directive appends one well-formed response *)
Lemma append_rwf c id d :
  d_kind d = DirectiveTables.dir_HTTPResponseCode -> wf_resps c ->
  wf_resps (upd_http c id (fun h => mkHttp (hi_id h) (hi_method h) (hi_path h) (hi_annot h) (hi_descr h) (hi_tags h)
                                      (hi_query h) (hi_request h)
                                      (hi_responses h ++ [mkResp (d_keyword d) (d_annot d) d None None]) (hi_opid h))).
Proof.
  intros K W. apply upd_http_rwf; [|exact W]. intros h Wh. unfold wf_rhttp in *. cbn [hi_responses].
  apply Forall_app. split; [exact Wh|]. constructor; [|constructor]. split; [exact K|reflexivity].
Qed.

Lemma add_response_rwf c d anc c' : add_response c d anc = COk c' -> wf_resps c -> wf_resps c'.
Proof.
  unfold add_response. intros H W.
  destruct (negb (beq (named d KSchemaNotation) []) && negb (beq (named d KType) [])); [errs H|].
  match type of H with (if ?b then _ else _) = _ => destruct b; [errs H|] end.
  destruct (http_id d anc) as [[[id x] y]|e]; [|errs H].
  set (c1 := if N.eqb (d_kind d) DirectiveTables.dir_HTTPResponseCode then _ else c) in H.
  assert (W1 : wf_resps c1).
  { subst c1. destruct (N.eqb (d_kind d) DirectiveTables.dir_HTTPResponseCode) eqn:K; [|exact W].
    apply append_rwf; [apply N.eqb_eq; exact K|exact W]. }
  clearbody c1.
  match type of H with (if ?b then _ else _) = _ => destruct b end.
  - destruct (find_http c1 id) as [h|] eqn:F; [|errs H].
    destruct (rev (hi_responses h)) as [|lastr before] eqn:R; [errs H|].
    injection H as <-. apply upd_http_rwf; [|exact W1].
    intros h' _. unfold wf_rhttp. cbn [hi_responses].
    eapply relabel_last; [exact (find_http_rwf _ _ _ W1 F)|exact R|reflexivity|reflexivity].
  - destruct (N.eqb (d_kind d) DirectiveTables.dir_Body); [errs H|]. injection H as <-. exact W1.
Qed.

Lemma add_description_rwf c d anc body c' : add_description c d anc body = COk c' -> wf_resps c -> wf_resps c'.
Proof. unfold add_description. intros H W. crush H. all: errs H. all: injection H as <-. all: rwf_same W. Qed.

Theorem add_directive_rwf banned c d anc c' : add_directive banned c d anc = COk c' -> wf_resps c -> wf_resps c'.
Proof.
  unfold add_directive. intros H W.
  crush H.
  all: errs H.
  all: try (eapply add_request_rwf; [exact H|exact W]).
  all: try (eapply add_response_rwf; [exact H|exact W]).
  all: try (injection H as <-).
  all: try (rwf_same W; fail).
  all: try (match goal with E : check_paths _ _ _ = inl _ |- _ => pose proof (check_paths_rwf _ _ _ _ _ E W) as W1 end;
            unfold wf_resps in *; cbn [c_inters set_inters set_tags];
            first [exact W1 | apply Forall_app; split; [exact W1|]; constructor; [|constructor]; cbn [wf_rinter];
                              unfold wf_rhttp; cbn [hi_responses]; constructor]; fail).
  all: try (unfold wf_resps in *; cbn [c_inters set_inters set_tags]; apply Forall_app; split; [exact W|];
            constructor; [exact I|constructor]; fail).
  (* Headers below a response code: the last response gets its headers, code and directive stay *)
  all: match goal with F : find_http _ _ = Some _, R : rev (hi_responses _) = _ :: _ |- _ =>
         apply upd_http_rwf; [|exact W]; intros ?h' _; unfold wf_rhttp; cbn [hi_responses];
         eapply relabel_last; [exact (find_http_rwf _ _ _ W F)|exact R|reflexivity|reflexivity] end.
Qed.

Section LiftRwf.
  Variable read_body : coords -> bytes.
  Variable banned : list N.

  Lemma add_branch_rwf fuel : forall c d anc c', add_branch read_body banned fuel c d anc = COk c' -> wf_resps c -> wf_resps c'.
  Proof.
    induction fuel as [|fuel IH]; intros c d anc c' H W; cbn [add_branch] in H; [discriminate|].
    match type of H with match ?r with _ => _ end = _ => destruct r as [c1| | |] eqn:R; try discriminate end.
    assert (W1 : wf_resps c1).
    { destruct (existsb (N.eqb (d_kind d)) banned); [eapply add_directive_rwf; [exact R|exact W]|].
      destruct (N.eqb (d_kind d) DirectiveTables.dir_Description);
        [eapply add_description_rwf; [exact R|exact W]|eapply add_directive_rwf; [exact R|exact W]]. }
    clear R W. revert c1 W1 H. generalize (d_children d) as cs.
    induction cs as [|x rest IHc]; intros c1 W1 H.
    - injection H as <-. exact W1.
    - destruct (add_branch read_body banned fuel c1 x (d :: anc)) as [c2| | |] eqn:B; try discriminate.
      eapply IHc; [eapply IH; [exact B|exact W1]|exact H].
  Qed.

  Lemma add_all_rwf fuel ds : forall c c', add_all read_body banned fuel c ds = COk c' -> wf_resps c -> wf_resps c'.
  Proof.
    induction ds as [|d ds IH]; intros c c' H W; cbn [add_all] in H.
    - injection H as <-. exact W.
    - destruct (add_branch read_body banned fuel c d []) as [c1| | |] eqn:B; try discriminate.
      eapply IH; [exact H|eapply add_branch_rwf; [exact B|exact W]].
  Qed.

  Lemma collect_tags_inters' ds : forall e c0, collect_tags e ds = COk c0 -> c_inters c0 = c_inters e.
  Proof.
    induction ds as [|d ds IH]; intros e c0 T; cbn [collect_tags] in T.
    - injection T as <-. reflexivity.
    - destruct (N.eqb (d_kind d) DirectiveTables.dir_TAG).
      + destruct (beq (named d KTagName) []); [unfold required in T; discriminate|].
        destruct (find_tag (c_tags e) (named d KTagName)); [unfold kerr in T; discriminate|].
        rewrite (IH _ _ T). reflexivity.
      + apply IH. exact T.
  Qed.

  (* what build_catalog returns went through add_all and validate *)
  Lemma build_catalog_inv fuel forest c :
    build_catalog read_body banned fuel forest = COk c ->
    (c_inters c = [] \/ exists c0, c_inters c0 = [] /\ add_all read_body banned fuel c0 forest = COk c /\ validate c = None).
  Proof.
    unfold build_catalog. intros H.
    destruct (collect_tags empty_catalog forest) as [c0| | |] eqn:T; try discriminate.
    destruct (dup_type_error [] forest); [discriminate|].
    destruct (type_without_body forest); [discriminate|].
    destruct (collect_paths fuel forest [] None); [|discriminate].
    destruct (missed_path_errors forest); [discriminate|].
    pose proof (collect_tags_inters' _ _ _ T) as I0. cbn in I0.
    destruct (negb _).
    - destruct forest; [injection H as <-; left; exact I0|unfold kerr1, kerr in H; discriminate].
    - destruct (add_all read_body banned fuel c0 forest) as [c1| | |] eqn:A; try discriminate.
      destruct (validate c1) eqn:V; [discriminate|]. injection H as <-.
      right. exists c0. auto.
  Qed.

  (* 1. every response of a built catalog comes from a response-code directive and carries its keyword *)
  Theorem built_catalog_responses_come_from_response_code_directives fuel forest c :
    build_catalog read_body banned fuel forest = COk c ->
    forall h r, In (IHttp h) (c_inters c) -> In r (hi_responses h) ->
      d_kind (rs_dir r) = DirectiveTables.dir_HTTPResponseCode /\ rs_code r = d_keyword (rs_dir r).
  Proof.
    intros H h r Hh Hr.
    assert (W : wf_resps c).
    { destruct (build_catalog_inv _ _ _ H) as [E|[c0 [E [A _]]]].
      - unfold wf_resps. rewrite E. constructor.
      - eapply add_all_rwf; [exact A|]. unfold wf_resps. rewrite E. constructor. }
    unfold wf_resps in W. rewrite Forall_forall in W. specialize (W _ Hh). cbn [wf_rinter] in W.
    unfold wf_rhttp in W. rewrite Forall_forall in W. exact (W _ Hr).
  Qed.

  (* 3. every response and every request of a built catalog has a body *)
  Theorem built_catalog_responses_and_requests_have_bodies fuel forest c :
    build_catalog read_body banned fuel forest = COk c ->
    forall h, In (IHttp h) (c_inters c) ->
      (forall r, In r (hi_responses h) -> rs_body r <> None) /\
      (forall q, hi_request h = Some q -> rq_body q <> None).
  Proof.
    intros H h Hh.
    destruct (build_catalog_inv _ _ _ H) as [E|[c0 [_ [_ V]]]]; [rewrite E in Hh; contradiction|].
    unfold validate in V.
    match type of V with match ?i with _ => _ end = None => destruct i; [discriminate|] end.
    set (https := flat_map (fun i => match i with IHttp h => [h] | _ => [] end) (c_inters c)) in V.
    assert (Hin : In h https).
    { subst https. apply in_flat_map. exists (IHttp h). split; [exact Hh|left; reflexivity]. }
    destruct (List.find _ https) as [h0|] eqn:F.
    - apply find_some in F as [_ F0]. destruct (hi_request h0); [discriminate V|discriminate F0].
    - split.
      + intros r Hr B.
        pose proof (first_some_none _ _ V h Hin) as V1. cbn beta in V1.
        pose proof (first_some_none _ _ V1 r Hr) as V2. cbn beta in V2. rewrite B in V2. discriminate.
      + intros q Q B. pose proof (find_none _ _ F h Hin) as N. cbn beta in N. rewrite Q, B in N. discriminate.
  Qed.
End LiftRwf.

(* 2. the directive table gives kind HTTPResponseCode only to keywords that are response codes *)
Theorem response_code_kind_only_for_response_codes w :
  new_directive_type w = Some DirectiveTables.dir_HTTPResponseCode -> is_http_response_code w = true.
Proof.
  unfold new_directive_type.
  destruct (List.find _ _) as [p|] eqn:F.
  - apply find_some in F as [_ F]. destruct p as [i b]. intros H. cbn [fst snd] in F.
    assert (E : i = DirectiveTables.dir_HTTPResponseCode) by congruence.
    rewrite E, N.eqb_refl in F. discriminate.
  - destruct (is_http_response_code w); [reflexivity|discriminate].
Qed.

Section Range.
  Variable read_body : coords -> bytes.
  Variable banned : list N.

  (* 1 + 2: when the response's directive carries the kind of its keyword (what JApiCore.next
     assigns from directive.NewDirectiveType), the code is a response code, 100..599 *)
  Theorem built_catalog_response_codes_are_in_range fuel forest c :
    build_catalog read_body banned fuel forest = COk c ->
    forall h r, In (IHttp h) (c_inters c) -> In r (hi_responses h) ->
      new_directive_type (d_keyword (rs_dir r)) = Some (d_kind (rs_dir r)) ->
      is_http_response_code (rs_code r) = true.
  Proof.
    intros H h r Hh Hr K.
    destruct (built_catalog_responses_come_from_response_code_directives read_body banned _ _ _ H h r Hh Hr) as [A B].
    rewrite B. apply response_code_kind_only_for_response_codes. rewrite K, A. reflexivity.
  Qed.
End Range.

Print Assumptions built_catalog_responses_come_from_response_code_directives.
Print Assumptions built_catalog_responses_and_requests_have_bodies.
Print Assumptions response_code_kind_only_for_response_codes.
Print Assumptions built_catalog_response_codes_are_in_range.
