(* C08Proofs.v — layout does not change meaning, lexical part: in every state of the
   regenerated scanner, LF and CR trigger identical behaviour, and so do blank and tab;
   quoting a bare parameter and the two annotation styles give the same value. *)
From JS Require Import Base Bytes Scanner ExecLemmas Core.
From JS Require ScannerProg.
From Coq Require Import Lia.
Open Scope Z_scope.

Section PE.
  Variable nl_cond ws_cond : cond.

  (* partial evaluation of a step function's body for a known byte: every condition that
     depends on the byte alone is decided; what remains asks only about the context *)
  Fixpoint pe_cond (c : byte) (k : cond) {struct k} : cond :=
    match cond_static nl_cond ws_cond c k with
    | Some true => CTrue
    | Some false => CNot CTrue
    | None =>
        match k with
        | CNot a => CNot (pe_cond c a)
        | CAnd a b => CAnd (pe_cond c a) (pe_cond c b)
        | COr a b => COr (pe_cond c a) (pe_cond c b)
        | x => x
        end
    end.

  Fixpoint pe (c : byte) (s : stmt) {struct s} : stmt :=
    match s with
    | SIf k t e =>
        match cond_static nl_cond ws_cond c k with
        | Some true => pe c t
        | Some false => pe c e
        | None => SIf (pe_cond c k) (pe c t) (pe c e)
        end
    | SSeq a b => SSeq (pe c a) (pe c b)
    | x => x
    end.

  (* does a condition / statement still look at the byte? *)
  Fixpoint cond_byte_free (k : cond) : bool :=
    match k with
    | CByte _ | CNewLine | CWhitespace => false
    | CNot a => cond_byte_free a
    | CAnd a b | COr a b => cond_byte_free a && cond_byte_free b
    | _ => true
    end.

  Fixpoint stmt_byte_free (s : stmt) : bool :=
    match s with
    | SIf k t e => cond_byte_free k && stmt_byte_free t && stmt_byte_free e
    | SSeq a b => stmt_byte_free a && stmt_byte_free b
    | _ => true
    end.

  Variable data : bytes.
  Variable olen : okind -> Z -> olen_res.
  Notation exec := (exec nl_cond ws_cond data olen).
  Notation eval_cond := (eval_cond nl_cond ws_cond data).

  Lemma pe_cond_sound c k cf : eval_cond cf c (pe_cond c k) = eval_cond cf c k.
  Proof.
    induction k as [x| | |d x|q|a IHa|a IHa b IHb|a IHa b IHb|];
      cbn [pe_cond cond_static];
      try (destruct (eval_cond_simple c _) as [[|]|] eqn:E; cbn [Scanner.eval_cond]; rewrite ?E; reflexivity);
      try reflexivity.
    - destruct (N.eqb c x) eqn:E; cbn [Scanner.eval_cond]; rewrite ?E; reflexivity.
    - (* CNot *)
      destruct (cond_static nl_cond ws_cond c a) as [v|] eqn:E.
      + cbn [option_map]. pose proof (cond_static_sound _ _ data _ _ _ E cf) as S.
        destruct v; cbn [negb Scanner.eval_cond]; rewrite S; reflexivity.
      + cbn [option_map Scanner.eval_cond]. rewrite IHa. reflexivity.
    - (* CAnd *)
      destruct (cond_static nl_cond ws_cond c a) as [[|]|] eqn:Ea.
      + destruct (cond_static nl_cond ws_cond c b) as [[|]|] eqn:Eb;
          cbn [Scanner.eval_cond]; rewrite (cond_static_sound _ _ data _ _ _ Ea cf);
          try rewrite (cond_static_sound _ _ data _ _ _ Eb cf); try reflexivity.
        rewrite IHa, IHb. rewrite (cond_static_sound _ _ data _ _ _ Ea cf). reflexivity.
      + cbn [Scanner.eval_cond]. rewrite (cond_static_sound _ _ data _ _ _ Ea cf). reflexivity.
      + cbn [Scanner.eval_cond]. rewrite IHa, IHb. reflexivity.
    - (* COr *)
      destruct (cond_static nl_cond ws_cond c a) as [[|]|] eqn:Ea.
      + cbn [Scanner.eval_cond]. rewrite (cond_static_sound _ _ data _ _ _ Ea cf). reflexivity.
      + destruct (cond_static nl_cond ws_cond c b) as [[|]|] eqn:Eb;
          cbn [Scanner.eval_cond]; rewrite (cond_static_sound _ _ data _ _ _ Ea cf);
          try rewrite (cond_static_sound _ _ data _ _ _ Eb cf); try reflexivity.
        rewrite IHa, IHb. rewrite (cond_static_sound _ _ data _ _ _ Ea cf). reflexivity.
      + cbn [Scanner.eval_cond]. rewrite IHa, IHb. reflexivity.
  Qed.

  Lemma pe_sound c s : forall cf, exec c (pe c s) cf = exec c s cf.
  Proof.
    induction s as [st|st| | |ev off|dz|k t IHt e IHe|a IHa b IHb| |ok| |w e|m|st| ];
      intros cf; cbn [pe]; try reflexivity.
    - destruct (cond_static nl_cond ws_cond c k) as [[|]|] eqn:E.
      + cbn [Scanner.exec]. rewrite (cond_static_sound _ _ data _ _ _ E cf). apply IHt.
      + cbn [Scanner.exec]. rewrite (cond_static_sound _ _ data _ _ _ E cf). apply IHe.
      + cbn [Scanner.exec]. rewrite pe_cond_sound.
        destruct (eval_cond cf c k) as [[|]|]; auto.
    - cbn [Scanner.exec]. rewrite IHa. destruct (exec c a cf); auto.
  Qed.

  Lemma byte_free_cond k : cond_byte_free k = true ->
    forall c1 c2 cf, eval_cond cf c1 k = eval_cond cf c2 k.
  Proof.
    induction k as [x| | |d x|q|a IHa|a IHa b IHb|a IHa b IHb|]; cbn [cond_byte_free]; intros H c1 c2 cf;
      try discriminate; cbn [Scanner.eval_cond]; try reflexivity.
    - rewrite (IHa H c1 c2). reflexivity.
    - apply andb_prop in H as [Ha Hb]. rewrite (IHa Ha c1 c2), (IHb Hb c1 c2). reflexivity.
    - apply andb_prop in H as [Ha Hb]. rewrite (IHa Ha c1 c2), (IHb Hb c1 c2). reflexivity.
  Qed.

  Lemma byte_free_exec s : stmt_byte_free s = true ->
    forall c1 c2 cf, exec c1 s cf = exec c2 s cf.
  Proof.
    induction s as [st|st| | |ev off|dz|k t IHt e IHe|a IHa b IHb| |ok| |w e|m|st| ];
      cbn [stmt_byte_free]; intros H c1 c2 cf; cbn [Scanner.exec]; try reflexivity.
    - apply andb_prop in H as [H He]. apply andb_prop in H as [Hk Ht].
      rewrite (byte_free_cond k Hk c1 c2). destruct (eval_cond cf c2 k) as [[|]|]; auto.
    - apply andb_prop in H as [Ha Hb]. rewrite (IHa Ha c1 c2). destruct (exec c2 a cf); auto.
  Qed.

  Fixpoint cond_eqb (a b : cond) {struct a} : bool :=
    match a, b with
    | CByte x, CByte y => N.eqb x y
    | CNewLine, CNewLine | CWhitespace, CWhitespace | CTrue, CTrue => true
    | CPrevByte d1 b1, CPrevByte d2 b2 => (d1 =? d2) && N.eqb b1 b2
    | CCtx q1, CCtx q2 =>
        match q1, q2 with
        | QTypeOrAnyOrEmpty, QTypeOrAnyOrEmpty | QAnyOrEmpty, QAnyOrEmpty | QRegex, QRegex
        | QIsDirective, QIsDirective => true
        | _, _ => false
        end
    | CNot x, CNot y => cond_eqb x y
    | CAnd x1 y1, CAnd x2 y2 | COr x1 y1, COr x2 y2 => cond_eqb x1 x2 && cond_eqb y1 y2
    | _, _ => false
    end.

  Fixpoint stmt_eqb (a b : stmt) {struct a} : bool :=
    match a, b with
    | SSetStep x, SSetStep y | SPush x, SPush y | SRetCall x, SRetCall y => N.eqb x y
    | SPushCur, SPushCur | SPop, SPop | SSkip, SSkip | SRetNil, SRetNil | SRetRedispatch, SRetRedispatch => true
    | SFound e1 o1, SFound e2 o2 => event_eqb e1 e2 && (o1 =? o2)
    | SAddCur x, SAddCur y => x =? y
    | SIf k1 t1 e1, SIf k2 t2 e2 => cond_eqb k1 k2 && stmt_eqb t1 t2 && stmt_eqb e1 e2
    | SSeq a1 b1, SSeq a2 b2 => stmt_eqb a1 a2 && stmt_eqb b1 b2
    | SOracle x, SOracle y => match x, y with OJSchema, OJSchema | OEnum, OEnum => true | _, _ => false end
    | SRetErr w1 e1, SRetErr w2 e2 => String.eqb w1 w2 && String.eqb e1 e2
    | SRetErrBasic x, SRetErrBasic y => String.eqb x y
    | _, _ => false
    end.

  Lemma event_eqb_eq a b : event_eqb a b = true -> a = b.
  Proof. destruct a, b; cbn; intros H; try discriminate; reflexivity. Qed.

  Lemma cond_eqb_eq a : forall b, cond_eqb a b = true -> a = b.
  Proof.
    induction a as [x| | |d x|q|a IHa|a IHa a2 IHb|a IHa a2 IHb|]; intros [y| | |d2 y|q2|b|b b2|b b2|];
      cbn [cond_eqb]; intros H; try discriminate; try reflexivity.
    - apply N.eqb_eq in H. subst. reflexivity.
    - apply andb_prop in H as [H1 H2]. apply Z.eqb_eq in H1. apply N.eqb_eq in H2. subst. reflexivity.
    - destruct q, q2; try discriminate; reflexivity.
    - f_equal. auto.
    - apply andb_prop in H as [H1 H2]. f_equal; auto.
    - apply andb_prop in H as [H1 H2]. f_equal; auto.
  Qed.

  Lemma stmt_eqb_eq a : forall b, stmt_eqb a b = true -> a = b.
  Proof.
    induction a as [st|st| | |ev off|dz|k t IHt e IHe|a IHa a2 IHb| |ok| |w e|m|st| ];
      intros b H; destruct b; cbn [stmt_eqb] in H; try discriminate; try reflexivity.
    - apply N.eqb_eq in H. subst. reflexivity.
    - apply N.eqb_eq in H. subst. reflexivity.
    - apply andb_prop in H as [H1 H2]. apply event_eqb_eq in H1. apply Z.eqb_eq in H2. subst. reflexivity.
    - apply Z.eqb_eq in H. subst. reflexivity.
    - apply andb_prop in H as [H H3]. apply andb_prop in H as [H1 H2].
      apply cond_eqb_eq in H1. f_equal; auto.
    - apply andb_prop in H as [H1 H2]. f_equal; auto.
    - destruct ok, k; try discriminate; reflexivity.
    - apply andb_prop in H as [H1 H2]. apply String.eqb_eq in H1. apply String.eqb_eq in H2. subst. reflexivity.
    - apply String.eqb_eq in H. subst. reflexivity.
    - apply N.eqb_eq in H. subst. reflexivity.
  Qed.

  (* two bytes are treated alike by a state when the partially evaluated bodies coincide and
     no longer look at the byte *)
  Definition alike (c1 c2 : byte) (s : stmt) : bool :=
    stmt_eqb (pe c1 s) (pe c2 s) && stmt_byte_free (pe c1 s).

  Lemma alike_exec c1 c2 s : alike c1 c2 s = true -> forall cf, exec c1 s cf = exec c2 s cf.
  Proof.
    unfold alike. intros H cf. apply andb_prop in H as [He Hf]. apply stmt_eqb_eq in He.
    rewrite <- (pe_sound c1 s cf), <- (pe_sound c2 s cf), <- He.
    apply byte_free_exec. exact Hf.
  Qed.

  Variable prog : list (string * stmt).

  Definition all_alike (c1 c2 : byte) : bool := forallb (fun e => alike c1 c2 (snd e)) prog.

  Theorem alike_run_step c1 c2 :
    all_alike c1 c2 = true ->
    forall fuel st cf,
      run_step prog nl_cond ws_cond data olen fuel st c1 cf =
      run_step prog nl_cond ws_cond data olen fuel st c2 cf.
  Proof.
    intros H. unfold all_alike in H. rewrite forallb_forall in H.
    induction fuel as [|fuel IH]; intros st cf; [reflexivity|].
    cbn [Scanner.run_step]. unfold body_of.
    destruct (nth_error prog (N.to_nat st)) as [[name body]|] eqn:E; cbn [option_map snd]; [|reflexivity].
    pose proof (H (name, body) (nth_error_In _ _ E)) as A. cbn [snd] in A.
    rewrite (alike_exec c1 c2 body A cf).
    destruct (exec c2 body cf) as [cf'|[|st'|] cf'|e|p]; auto.
  Qed.
End PE.

Definition P := ScannerProg.prog_table.
Definition NL := ScannerProg.is_newline_cond.
Definition WS := ScannerProg.is_whitespace_cond.

Lemma lf_cr_alike_ok : all_alike NL WS P 10%N 13%N = true.
Proof. vm_compute. reflexivity. Qed.

Lemma blank_tab_alike_ok : all_alike NL WS P 32%N 9%N = true.
Proof. vm_compute. reflexivity. Qed.

(* LF and CR are interchangeable in every state; so are blank and tab *)
Theorem lf_cr_same_step :
  forall data olen fuel st cf,
    run_step P NL WS data olen fuel st 10%N cf = run_step P NL WS data olen fuel st 13%N cf.
Proof. intros. apply alike_run_step. exact lf_cr_alike_ok. Qed.

Theorem blank_tab_same_step :
  forall data olen fuel st cf,
    run_step P NL WS data olen fuel st 32%N cf = run_step P NL WS data olen fuel st 9%N cf.
Proof. intros. apply alike_run_step. exact blank_tab_alike_ok. Qed.


(* ------------------------------------------------------------------------------------ *)
(* quoting a bare parameter: "p" unquotes to p when p has no quote, backslash or control byte *)

Definition plain_byte (c : N) : bool :=
  negb (N.eqb c 34) && negb (N.eqb c 92) && negb (N.ltb c 32).

Lemma unquote_body_plain p : forallb plain_byte p = true -> unquote_body p = Some p.
Proof.
  induction p as [|c p IH]; cbn [forallb unquote_body]; intros H; [reflexivity|].
  apply andb_prop in H as [Hc Hp]. unfold plain_byte in Hc.
  apply andb_prop in Hc as [Hc H3]. apply andb_prop in Hc as [H1 H2].
  apply negb_true_iff in H1, H2, H3.
  rewrite H2, H1, H3. cbn [orb]. rewrite (IH Hp). reflexivity.
Qed.

Lemma removelast_app_one {A} (l : list A) x : removelast (l ++ [x]) = l.
Proof. rewrite removelast_app by discriminate. cbn. apply app_nil_r. Qed.

Theorem unquote_quoted p :
  forallb plain_byte p = true -> unquote (34%N :: p ++ [34%N]) = p.
Proof.
  intros H. unfold unquote, in_quotes.
  rewrite rev_app_distr. cbn [rev app tl].
  rewrite removelast_app_one, (unquote_body_plain p H). reflexivity.
Qed.

(* // t  and  /* t */ : the annotation values differ by a trailing blank, which
   catalog.Annotation trims *)
Lemma drop_while_all f l : forallb f l = true -> drop_while f l = [].
Proof. induction l as [|x l IH]; cbn; auto. intros H. apply andb_prop in H as [-> H]. auto. Qed.

Lemma drop_while_app_keep f l x :
  forallb f l = false -> drop_while f (l ++ [x]) = drop_while f l ++ [x].
Proof.
  induction l as [|y l IH]; cbn [forallb drop_while app]; intros H; [discriminate|].
  destruct (f y) eqn:E; [cbn in H; auto|reflexivity].
Qed.

Lemma trim_space_trailing_blank l : trim_space (l ++ [32%N]) = trim_space l.
Proof.
  unfold trim_space.
  destruct (forallb is_trim_space l) eqn:A.
  - assert (B : forallb is_trim_space (l ++ [32%N]) = true).
    { rewrite forallb_app, A. reflexivity. }
    rewrite (drop_while_all _ _ A), (drop_while_all _ _ B). reflexivity.
  - rewrite (drop_while_app_keep _ _ _ A). rewrite rev_app_distr. cbn [rev app drop_while].
    reflexivity.
Qed.

Theorem annotation_styles_agree t :
  annotation (32%N :: t ++ [32%N]) = annotation (32%N :: t).
Proof.
  unfold annotation. change (32%N :: t ++ [32%N]) with ((32%N :: t) ++ [32%N]).
  rewrite trim_space_trailing_blank. reflexivity.
Qed.
