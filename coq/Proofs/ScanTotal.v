(* ScanTotal.v — control-flow well-formedness of the regenerated scanner program, for every
   input, every oracle and every reachable configuration: no step function falls off its end,
   and the scanner never dispatches to a state that does not exist (neither directly, nor through
   a call, nor through the return-state stack). *)
From JS Require Import Base Bytes Scanner ScanRun.
From JS Require ScannerProg.
From Coq Require Import Lia.
Open Scope Z_scope.

(* every path through the statement leaves the step function *)
Fixpoint returns (s : stmt) : bool :=
  match s with
  | SSeq a b => returns a || returns b
  | SIf _ t e => returns t && returns e
  | SRetNil | SRetErr _ _ | SRetErrBasic _ | SRetCall _ | SRetRedispatch => true
  | _ => false
  end.

(* every state the statement can install, push or call exists *)
Fixpoint states_ok (n : N) (s : stmt) : bool :=
  match s with
  | SSetStep st | SPush st | SRetCall st => N.ltb st n
  | SSeq a b => states_ok n a && states_ok n b
  | SIf _ t e => states_ok n t && states_ok n e
  | _ => true
  end.

Definition prog_wf (prog : list (string * stmt)) : bool :=
  forallb (fun p => returns (snd p) && states_ok (N.of_nat (List.length prog)) (snd p)) prog.

Lemma prog_wf_ok : prog_wf ScannerProg.prog_table = true.
Proof. vm_compute. reflexivity. Qed.

Section Gen.
  Variable prog : list (string * stmt).
  Variable nl_cond ws_cond : cond.
  Variable data : bytes.
  Variable olen : okind -> Z -> olen_res.
  Hypothesis WF : prog_wf prog = true.

  Let n := N.of_nat (List.length prog).
  Definition st_ok (st : state) : Prop := (st < n)%N.
  Definition conf_ok (cf : conf) : Prop := st_ok (c_step cf) /\ Forall st_ok (c_sstack cf).

  Notation exec := (exec nl_cond ws_cond data olen).
  Notation run_step := (run_step prog nl_cond ws_cond data olen).

  Lemma exec_returns c s : returns s = true -> forall cf cf', exec c s cf <> FFall cf'.
  Proof.
    induction s; cbn [returns]; intros R cf cf'; try discriminate; cbn [Scanner.exec].
    - (* SIf *) apply andb_prop in R as [R1 R2].
      destruct (eval_cond _ _ _ _ _ _); [|discriminate].
      destruct b; [apply IHs1|apply IHs2]; assumption.
    - (* SSeq *) destruct (Scanner.exec nl_cond ws_cond data olen c s1 cf) eqn:E; try discriminate.
      apply orb_prop in R as [R|R]; [exfalso; eapply IHs1; eassumption|apply IHs2; exact R].
  Qed.

  Lemma exec_ok c s : states_ok n s = true -> forall cf, conf_ok cf ->
    match exec c s cf with
    | FFall cf' => conf_ok cf'
    | FRet (KCall st) cf' => conf_ok cf' /\ st_ok st
    | FRet _ cf' => conf_ok cf'
    | _ => True
    end.
  Proof.
    induction s; cbn [states_ok]; intros S cf [H1 H2]; cbn [Scanner.exec].
    - apply N.ltb_lt in S. split; [exact S|exact H2].
    - apply N.ltb_lt in S. split; [exact H1|constructor; assumption].
    - split; [exact H1|constructor; assumption].
    - destruct (c_sstack cf) as [|st ss] eqn:E; [exact I|]. inversion H2; subst. split; assumption.
    - split; assumption.
    - split; assumption.
    - apply andb_prop in S as [S1 S2]. destruct (eval_cond _ _ _ _ _ _); [|exact I].
      destruct b; [apply IHs1|apply IHs2]; try assumption; split; assumption.
    - apply andb_prop in S as [S1 S2].
      pose proof (IHs1 S1 cf (conj H1 H2)) as A.
      destruct (Scanner.exec nl_cond ws_cond data olen c s1 cf) eqn:E; try exact A.
      apply IHs2; assumption.
    - split; assumption.
    - destruct (olen k (c_cur cf)); [|exact I]. destruct (0 <? n0); split; assumption.
    - split; assumption.
    - exact I.
    - exact I.
    - apply N.ltb_lt in S. split; [split; assumption|exact S].
    - split; assumption.
  Qed.

  Lemma body_exists st : st_ok st -> exists name body, nth_error prog (N.to_nat st) = Some (name, body) /\
    returns body = true /\ states_ok n body = true.
  Proof.
    intros H. unfold st_ok, n in H.
    destruct (nth_error prog (N.to_nat st)) as [[name body]|] eqn:E.
    - exists name, body. split; [reflexivity|].
      unfold prog_wf in WF. rewrite forallb_forall in WF.
      specialize (WF _ (nth_error_In _ _ E)). cbn [snd] in WF. apply andb_prop in WF. exact WF.
    - exfalso. apply nth_error_None in E. lia.
  Qed.

  Theorem run_step_ok fuel : forall st c cf, st_ok st -> conf_ok cf ->
    match run_step fuel st c cf with
    | ROk cf' => conf_ok cf'
    | RPanic PNoState | RPanic PFallthrough => False
    | _ => True
    end.
  Proof.
    induction fuel as [|fuel IH]; intros st c cf Hs Hc; cbn [Scanner.run_step]; [exact I|].
    destruct (body_exists st Hs) as [name [body [E [R S]]]].
    unfold body_of. rewrite E. cbn [option_map snd].
    pose proof (exec_ok c body S cf Hc) as A.
    pose proof (exec_returns c body R cf) as B.
    destruct (Scanner.exec nl_cond ws_cond data olen c body cf) as [cf'|k cf'|e|p] eqn:X.
    - exfalso. eapply B. reflexivity.
    - destruct k as [|st'|].
      + exact A.
      + destruct A as [A1 A2]. apply IH; assumption.
      + apply IH; [exact (proj1 A)|exact A].
    - exact I.
    - destruct p; try exact I.
      + (* PNoState cannot come from exec *)
        exfalso. clear -X. revert cf X. induction body; intros cf X; cbn [Scanner.exec] in X; try discriminate.
        * destruct (c_sstack cf); discriminate.
        * destruct (eval_cond _ _ _ _ _ _); [|discriminate]. destruct b; eauto.
        * destruct (Scanner.exec nl_cond ws_cond data olen c body1 cf) eqn:E; try discriminate; eauto.
          injection X as X. subst. eapply IHbody1. exact E.
        * destruct (olen k (c_cur cf)); discriminate.
      + exfalso. clear -X. revert cf X. induction body; intros cf X; cbn [Scanner.exec] in X; try discriminate.
        * destruct (c_sstack cf); discriminate.
        * destruct (eval_cond _ _ _ _ _ _); [|discriminate]. destruct b; eauto.
        * destruct (Scanner.exec nl_cond ws_cond data olen c body1 cf) eqn:E; try discriminate; eauto.
          injection X as X. subst. eapply IHbody1. exact E.
        * destruct (olen k (c_cur cf)); discriminate.
  Qed.

  Notation process_event := (process_event).
  Notation drain := (drain).
  Notation next_loop := (next_loop prog nl_cond ws_cond data olen).
  Notation next := (next prog nl_cond ws_cond data olen).

  Definition good {A} (r : res A) (P : A -> Prop) : Prop :=
    match r with
    | ROk a => P a
    | RPanic PNoState | RPanic PFallthrough => False
    | _ => True
    end.

  Lemma conf_ok_same cf cf' : c_step cf' = c_step cf -> c_sstack cf' = c_sstack cf -> conf_ok cf -> conf_ok cf'.
  Proof. unfold conf_ok. intros -> ->. auto. Qed.

  Lemma process_event_ok cf ev : conf_ok cf -> good (process_event cf ev) (fun r => conf_ok (snd r)).
  Proof.
    intros H. unfold Scanner.process_event. destruct ev as [t pos].
    destruct (LexemeEvents.ev_IsBeginning t).
    { cbn [good snd]. eapply conf_ok_same; [| |exact H]; reflexivity. }
    destruct (LexemeEvents.ev_IsEnding t).
    - destruct (c_estack cf) as [|[bt bpos] es]; [exact I|].
      destruct (pair_ok bt t); [|exact I].
      destruct (LexemeEvents.ev_ToLexemeType t); [|exact I].
      cbn [good snd]. eapply conf_ok_same; [| |exact H]; reflexivity.
    - destruct (LexemeEvents.ev_IsSingle t); [|exact I].
      destruct (LexemeEvents.ev_ToLexemeType t); [|exact I]. cbn [good snd]. exact H.
  Qed.

  Lemma note_lexeme_ok cf l : conf_ok cf -> conf_ok (note_lexeme cf l).
  Proof. intros H. unfold note_lexeme. destruct (lk l); exact H. Qed.

  Lemma drain_ok k : forall cf, conf_ok cf -> good (drain k cf) (fun r => conf_ok (snd r)).
  Proof.
    induction k as [|k IH]; intros cf H; cbn [Scanner.drain]; [exact H|].
    destruct (c_finds cf) as [|ev fs]; [exact I|].
    assert (H' : conf_ok (set_finds cf fs)) by (eapply conf_ok_same; [| |exact H]; reflexivity).
    pose proof (process_event_ok (set_finds cf fs) ev H') as P.
    destruct (Scanner.process_event (set_finds cf fs) ev) as [[[l|] cf']| |p|]; cbn [good snd] in *; try exact I.
    - apply note_lexeme_ok. exact P.
    - apply IH. exact P.
    - exact P.
  Qed.

  Lemma next_loop_ok fuel : forall cf, conf_ok cf -> good (next_loop fuel cf) (fun r => conf_ok (snd r)).
  Proof.
    induction fuel as [|fuel IH]; intros cf H; cbn [Scanner.next_loop]; [exact I|].
    destruct (data_size data <? c_cur cf); [exact H|].
    destruct (c_cur cf <? 0); [exact I|].
    match goal with |- good (if ?b then _ else _) _ => destruct b end; [exact I|].
    match goal with |- context [Scanner.run_step ?p ?a ?b ?d ?o ?f ?st ?c ?cf0] =>
      pose proof (run_step_ok f st c cf0 (proj1 H) H) as R; destruct (Scanner.run_step p a b d o f st c cf0) as [cf1| |p0|] end;
      cbn [good] in *; try exact I; [|exact R].
    assert (H2 : conf_ok (set_cur cf1 (c_cur cf1 + 1))) by (eapply conf_ok_same; [| |exact R]; reflexivity).
    pose proof (drain_ok (List.length (c_finds (set_cur cf1 (c_cur cf1 + 1)))) _ H2) as D.
    destruct (Scanner.drain _ _) as [[[l|] cf3]| |p0|]; cbn [good snd] in *; try exact I; try exact D.
    apply IH. exact D.
  Qed.

  Theorem next_ok cf : conf_ok cf -> good (next cf) (fun r => conf_ok (snd r)).
  Proof.
    intros H. unfold Scanner.next. destruct (c_finds cf) as [|ev fs]; [apply next_loop_ok; exact H|].
    assert (H' : conf_ok (set_finds cf fs)) by (eapply conf_ok_same; [| |exact H]; reflexivity).
    pose proof (process_event_ok (set_finds cf fs) ev H') as P.
    destruct (Scanner.process_event (set_finds cf fs) ev) as [[[l|] cf']| |p|]; cbn [good snd] in *; try exact I; try exact P.
    apply next_loop_ok. exact P.
  Qed.
End Gen.

(* the regenerated program, any input, any oracle table, any number of Next() calls *)
Theorem scanner_control_flow_is_total data tbl fuel :
  let '(_, e, _) := lex_traj data tbl fuel (init_conf ScannerProg.initial_state) in
  e <> EndPanic PNoState /\ e <> EndPanic PFallthrough.
Proof.
  assert (G : forall fuel cf, conf_ok ScannerProg.prog_table cf ->
              let '(_, e, _) := lex_traj data tbl fuel cf in e <> EndPanic PNoState /\ e <> EndPanic PFallthrough).
  { clear fuel. induction fuel as [|fuel IH]; intros cf H; cbn [lex_traj]; [split; discriminate|].
    pose proof (next_ok ScannerProg.prog_table ScannerProg.is_newline_cond ScannerProg.is_whitespace_cond data
                        (olen_of_table tbl) prog_wf_ok cf H) as N.
    unfold the_next.
    destruct (next ScannerProg.prog_table ScannerProg.is_newline_cond ScannerProg.is_whitespace_cond data (olen_of_table tbl) cf)
      as [[[l|] cf']| |p|]; cbn [good snd] in N.
    - specialize (IH cf' N). destruct (lex_traj data tbl fuel cf') as [[ls e] tr]. exact IH.
    - split; discriminate.
    - split; discriminate.
    - destruct p; try contradiction; split; discriminate.
    - split; discriminate. }
  apply G. split; [vm_compute; reflexivity|constructor].
Qed.
