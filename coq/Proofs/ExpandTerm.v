(* ExpandTerm.v — MACRO/PASTE expansion terminates whenever the recursion check has passed:
   for every macro table that check_recursion accepts, every forest and every state, the
   expansion does not run out of fuel once the fuel covers the height of the forest plus
   (number of macros) x (height of the highest macro body + 1).  The chain of macros being
   expanded never repeats a macro - a repetition would be a PASTE that leads back to its own
   macro, which the check refuses - so it is at most as long as the table. *)
From JS Require Import Base Bytes Scanner Directive Core Expand C05Proofs C10Proofs PasteInline.
From JS Require DirectiveTables.
From Coq Require Import Lia.
Open Scope Z_scope.

(* structural height and PASTE nodes of a directive *)
Fixpoint height (d : dir) : nat :=
  match d with
  | mkDir _ _ _ _ _ _ _ _ _ cs => S ((fix go (l : list dir) : nat := match l with [] => O | x :: r => Nat.max (height x) (go r) end) cs)
  end.
Definition heights (l : list dir) : nat := list_max (List.map height l).
Lemma height_unfold d : height d = S (heights (d_children d)).
Proof.
  destruct d as [k kw c nm un an bd ex tr cs]. cbn [height d_children]. f_equal. unfold heights.
  induction cs as [|x r IH]; [reflexivity|]. cbn [List.map list_max fold_right]. rewrite IH. reflexivity.
Qed.
Lemma heights_in l c : In c l -> (height c <= heights l)%nat.
Proof.
  unfold heights. intros H. pose proof (list_max_le (List.map height l) (list_max (List.map height l))) as [A _].
  specialize (A (Nat.le_refl _)). rewrite Forall_forall in A. apply A. apply in_map. exact H.
Qed.

Fixpoint all_pastes (d : dir) : list dir :=
  match d with
  | mkDir k _ _ _ _ _ _ _ _ cs =>
      if N.eqb k DirectiveTables.dir_Paste then [d]
      else (fix go (l : list dir) : list dir := match l with [] => [] | x :: r => all_pastes x ++ go r end) cs
  end.
Lemma all_pastes_unfold d :
  all_pastes d = if N.eqb (d_kind d) DirectiveTables.dir_Paste then [d] else flat_map all_pastes (d_children d).
Proof.
  destruct d as [k kw c nm un an bd ex tr cs]. cbn [all_pastes d_kind d_children].
  destruct (N.eqb k DirectiveTables.dir_Paste); [reflexivity|].
  induction cs as [|x r IH]; [reflexivity|]. cbn [flat_map]. rewrite IH. reflexivity.
Qed.

Lemma flat_map_ext_in {A B} (f g : A -> list B) l : (forall c, In c l -> f c = g c) -> flat_map f l = flat_map g l.
Proof.
  induction l as [|x r IH]; intros H; [reflexivity|]. cbn [flat_map].
  rewrite (H x (or_introl eq_refl)), IH; [reflexivity|]. intros c Hc. apply H. right. exact Hc.
Qed.

Lemma paste_nodes_all g : forall d, (height d <= g)%nat -> paste_nodes g d = all_pastes d.
Proof.
  induction g as [|g IH]; intros d H; [rewrite height_unfold in H; lia|].
  cbn [paste_nodes]. rewrite all_pastes_unfold.
  destruct (N.eqb (d_kind d) DirectiveTables.dir_Paste); [reflexivity|].
  rewrite height_unfold in H. apply flat_map_ext_in. intros c Hc. apply IH.
  pose proof (heights_in _ _ Hc). lia.
Qed.

Lemma macro_lookup_in_name ms name m : macro_lookup ms name = Some m -> In (name, m) ms.
Proof.
  induction ms as [|[n d] rest IH]; cbn [macro_lookup]; [discriminate|].
  destruct (beq n name) eqn:E; [intros H; injection H as <-; apply beq_true_eq in E; subst; left; reflexivity|].
  intros H. right. exact (IH H).
Qed.

Lemma attach_no_fuel fuel : forall f ctx d,
  (match ctx with Some p => (List.length p < fuel)%nat | None => (1 <= fuel)%nat end) ->
  attach fuel f ctx d <> CFuel.
Proof.
  induction fuel as [|fuel IH]; intros f ctx d H; [destruct ctx; lia|].
  cbn [attach]. destruct ctx as [p|].
  - destruct (node_at f p) as [cur|] eqn:N; [|discriminate].
    destruct (is_allowed_in (d_kind cur) (d_kind d)).
    + destruct (_ && _ && _); [destruct (d_explicit cur); discriminate|].
      destruct (append_child f p d). discriminate.
    + destruct (d_explicit cur); [discriminate|].
      apply IH. unfold parent_path.
      destruct p as [|i rest]; [cbn in N; discriminate|]. cbn [List.length] in H.
      destruct (removelast (i :: rest)) as [|q qs] eqn:RL; [lia|].
      assert (L : List.length (removelast (i :: rest)) = List.length rest).
      { clear. revert i. induction rest as [|x r IHr]; intros i; [reflexivity|]. cbn [removelast List.length] in *. rewrite IHr. reflexivity. }
      rewrite RL in L. cbn [List.length] in *. lia.
  - destruct (is_allowed_for_root (d_kind d)); discriminate.
Qed.

Section Term.
  Variable enum_check : coords -> option (N * Z).
  Variable ms : macros.
  Variable depth : nat.
  Hypothesis CHK : check_recursion depth ms = None.

  (* the highest macro body *)
  Definition Hb : nat := list_max (List.map (fun p => heights (d_children (snd p))) ms).
  Hypothesis DEPTH : (Hb <= depth)%nat.

  Notation expand_dir := (expand_dir enum_check ms).
  Notation expand_list := (expand_list enum_check ms).

  Lemma body_height name m c : In (name, m) ms -> In c (d_children m) -> (height c <= Hb)%nat.
  Proof.
    intros Hin Hc. pose proof (heights_in _ _ Hc) as H1.
    assert (H2 : (heights (d_children m) <= Hb)%nat).
    { unfold Hb. pose proof (list_max_le (List.map (fun p => heights (d_children (snd p))) ms) (list_max (List.map (fun p => heights (d_children (snd p))) ms))) as [A _].
      specialize (A (Nat.le_refl _)). rewrite Forall_forall in A.
      apply (A (heights (d_children m))). apply in_map_iff. exists (name, m). split; [reflexivity|exact Hin]. }
    lia.
  Qed.

  Lemma macro_pastes_all name m : In (name, m) ms -> macro_pastes depth m = flat_map all_pastes (d_children m).
  Proof.
    intros Hin. unfold macro_pastes. apply flat_map_ext_in.
    intros c Hc. apply paste_nodes_all. pose proof (body_height _ _ _ Hin Hc). lia.
  Qed.

  (* the macro [b] pastes the macro [a] *)
  Definition edge (b a : bytes) : Prop :=
    exists m, macro_lookup ms b = Some m /\ exists p, In p (macro_pastes depth m) /\ named p KName = a.

  Lemma reaches_S f from target :
    reaches (S f) depth ms from target =
    match macro_lookup ms from with
    | None => false
    | Some m => existsb (fun p => let n := named p KName in
                                  beq n target || (negb (beq n []) && reaches f depth ms n target)) (macro_pastes depth m)
    end.
  Proof. reflexivity. Qed.

  Lemma reaches_edge f b a : edge b a -> reaches (S f) depth ms b a = true.
  Proof.
    intros [m [L [p [Hp Hn]]]]. rewrite reaches_S, L. apply existsb_exists. exists p. split; [exact Hp|].
    cbn zeta. rewrite Hn, beq_refl'. reflexivity.
  Qed.

  Lemma reaches_mono f : forall x y, reaches f depth ms x y = true -> reaches (S f) depth ms x y = true.
  Proof.
    induction f as [|f IH]; intros x y H; [discriminate|].
    rewrite reaches_S in H. rewrite reaches_S. destruct (macro_lookup ms x) as [m|]; [|discriminate].
    apply existsb_exists in H as [p [Hp H]]. apply existsb_exists. exists p. split; [exact Hp|].
    cbn zeta in *. apply orb_prop in H as [H|H]; [rewrite H; reflexivity|].
    apply andb_prop in H as [H1 H2]. rewrite H1, (IH _ _ H2). apply orb_true_r.
  Qed.

  Lemma reaches_mono_le f g x y : (f <= g)%nat -> reaches f depth ms x y = true -> reaches g depth ms x y = true.
  Proof. intros LE. induction LE as [|g LE IH]; [auto|]. intros R. apply reaches_mono. auto. Qed.

  Lemma reaches_extend f : forall x b a, reaches f depth ms x b = true -> b <> [] -> edge b a ->
    reaches (S f) depth ms x a = true.
  Proof.
    induction f as [|f IH]; intros x b a H NB E; [discriminate|].
    rewrite reaches_S in H. rewrite reaches_S. destruct (macro_lookup ms x) as [m|]; [|discriminate].
    apply existsb_exists in H as [p [Hp H]]. apply existsb_exists. exists p. split; [exact Hp|].
    cbn zeta in *. apply orb_prop in H as [H|H].
    - apply beq_true_eq in H. rewrite H.
      assert (NE : beq b [] = false) by (destruct (beq b []) eqn:X; [apply beq_true_eq in X; contradiction|reflexivity]).
      rewrite NE. cbn [negb andb]. rewrite (reaches_edge f b a E). apply orb_true_r.
    - apply andb_prop in H as [H1 H2]. rewrite H1, (IH _ _ _ H2 NB E). apply orb_true_r.
  Qed.

  (* the macros being expanded, innermost first: each one is pasted by the next *)
  Fixpoint linked (c : list bytes) : Prop :=
    match c with
    | a :: ((b :: _) as r) => edge b a /\ linked r
    | _ => True
    end.

  Lemma chain_reaches : forall rest h, linked (h :: rest) -> Forall (fun x => x <> []) rest ->
    forall x, In x rest -> reaches (List.length rest) depth ms x h = true.
  Proof.
    induction rest as [|b rest' IH]; intros h L NE x Hx; [destruct Hx|].
    cbn [linked] in L. destruct L as [E L]. inversion NE as [|? ? NB NE']; subst.
    cbn [List.length]. destruct Hx as [<-|Hx]; [apply reaches_edge; exact E|].
    eapply reaches_extend; [apply IH; eassumption|exact NB|exact E].
  Qed.

  Definition keys : list bytes := List.map fst ms.

  Definition ctx_ok (chain : list bytes) (d : dir) : Prop :=
    match chain with
    | [] => True
    | h :: _ => exists m, macro_lookup ms h = Some m /\ incl (all_pastes d) (macro_pastes depth m)
    end.

  Lemma build_rules_no_fuel ds : forall xs, build_rules enum_check xs ds <> CFuel.
  Proof.
    induction ds as [|d ds IH]; intros xs; cbn [build_rules]; [discriminate|].
    destruct (build_rule enum_check xs d) as [x1| | |] eqn:B; try discriminate; [apply IH|].
    exfalso. unfold build_rule in B.
    repeat (match type of B with
            | context [match ?x with _ => _ end] => destruct x; try discriminate B
            | context [if ?x then _ else _] => destruct x; try discriminate B
            end).
  Qed.

  Definition budget (k : nat) : nat := k * S Hb.

  Lemma expand_list_no_fuel f ds : forall xs,
    (forall c xs', In c ds -> expand_dir f xs' c <> CFuel) -> expand_list f xs ds <> CFuel.
  Proof.
    induction ds as [|c r IH]; intros xs H; cbn [Expand.expand_list]; [discriminate|].
    destruct (expand_dir f xs c) as [x1| | |] eqn:E; try discriminate.
    - apply IH. intros c' xs' Hc. apply H. right. exact Hc.
    - exfalso. exact (H c xs (or_introl eq_refl) E).
  Qed.

  Record chain_ok (chain : list bytes) : Prop := {
    ch_nodup : NoDup chain;
    ch_keys : incl chain keys;
    ch_nonempty : Forall (fun x => x <> []) chain;
    ch_linked : linked chain
  }.

  Lemma lookup_key name m : macro_lookup ms name = Some m -> In name keys.
  Proof. intros L. apply macro_lookup_in_name in L. unfold keys. apply in_map_iff. exists (name, m). split; [reflexivity|exact L]. Qed.

  (* a PASTE met while the macros of [chain] are being expanded names a macro that is not among them *)
  Lemma paste_step chain d m :
    chain_ok chain -> ctx_ok chain d ->
    N.eqb (d_kind d) DirectiveTables.dir_Paste = true -> named d KName <> [] ->
    macro_lookup ms (named d KName) = Some m ->
    chain_ok (named d KName :: chain) /\ (S (List.length chain) <= List.length ms)%nat.
  Proof.
    intros [ND INC NE LK] CT K NN L.
    assert (NI : ~ In (named d KName) chain).
    { intros Hin. destruct chain as [|h rest]; [destruct Hin|].
      destruct CT as [mh [Lh Ih]].
      assert (Pd : In d (macro_pastes depth mh)).
      { apply Ih. rewrite all_pastes_unfold, K. left. reflexivity. }
      destruct (recursion_check_sound depth ms CHK h mh (macro_lookup_in_name _ _ _ Lh) d Pd) as [_ [N2 N3]].
      destruct Hin as [E|Hin]; [exact (N2 (eq_sym E))|].
      inversion NE as [|? ? _ NE']; subst.
      pose proof (chain_reaches rest h LK NE' _ Hin) as RR.
      assert (LE : (List.length rest <= S (List.length ms))%nat).
      { inversion ND as [|? ? _ ND']; subst.
        pose proof (NoDup_incl_length ND' (fun x Hx => INC x (or_intror Hx))) as LL. unfold keys in LL. rewrite map_length in LL. lia. }
      rewrite (reaches_mono_le _ _ _ _ LE RR) in N3. discriminate. }
    assert (CO : chain_ok (named d KName :: chain)).
    { constructor.
      - constructor; assumption.
      - intros x [<-|Hx]; [exact (lookup_key _ _ L)|apply INC; exact Hx].
      - constructor; assumption.
      - destruct chain as [|h rest]; [exact I|]. cbn [linked]. split; [|exact LK].
        destruct CT as [mh [Lh Ih]]. exists mh. split; [exact Lh|]. exists d. split; [|reflexivity].
        apply Ih. rewrite all_pastes_unfold, K. left. reflexivity. }
    split; [exact CO|].
    pose proof (NoDup_incl_length (ch_nodup _ CO) (ch_keys _ CO)) as LL. unfold keys in LL. rewrite map_length in LL. cbn [List.length] in LL. exact LL.
  Qed.

  Lemma expand_no_fuel : forall k chain,
    chain_ok chain -> (List.length chain + k = List.length ms)%nat ->
    forall f xs d, ctx_ok chain d -> (height d + budget k <= f)%nat -> expand_dir f xs d <> CFuel.
  Proof.
    induction k as [|k IHk]; intros chain CO LEN;
    (induction f as [|f IHf]; intros xs d CT HF; [rewrite height_unfold in HF; lia|]);
    rewrite expand_dir_S; rewrite height_unfold in HF;
    (destruct (N.eqb (d_kind d) DirectiveTables.dir_Paste) eqn:K;
     [ destruct (negb (beq (d_annot d) [])); [discriminate|];
       destruct (beq (named d KName) []) eqn:EN; [discriminate|];
       destruct (macro_lookup ms (named d KName)) as [m|] eqn:L; [|discriminate];
       assert (NN : named d KName <> []) by (intros X; rewrite X in EN; discriminate EN);
       destruct (paste_step chain d m CO CT K NN L) as [CO' LE]
     | destruct (attach (attach_fuel (x_ctx xs)) (x_forest xs) (x_ctx xs) (with_children d [])) as [[f0 ctx]| | |] eqn:A; try discriminate;
       [ assert (expand_list f (mkX f0 ctx (x_enums xs)) (d_children d) <> CFuel) as G;
         [ apply expand_list_no_fuel; intros c xs' Hc; apply IHf;
           [ destruct chain as [|h rest]; [exact I|]; destruct CT as [mh [Lh Ih]]; exists mh; split; [exact Lh|];
             intros p Hp; apply Ih; rewrite all_pastes_unfold, K; apply in_flat_map; exists c; split; assumption
           | pose proof (heights_in _ _ Hc); lia ]
         | destruct (expand_list f (mkX f0 ctx (x_enums xs)) (d_children d)); try discriminate; [destruct (d_explicit d); discriminate|contradiction] ]
       | exfalso; revert A; apply attach_no_fuel; unfold attach_fuel; destruct (x_ctx xs); lia ] ]).
    - (* k = 0: every macro is on the chain already *) lia.
    - (* a further macro: one unit of the budget pays for its body *)
      destruct (build_rules enum_check xs (d_children m)) as [xs1| | |] eqn:B; try discriminate; [|exfalso; exact (build_rules_no_fuel _ _ B)].
      assert (expand_list f xs1 (d_children m) <> CFuel) as G.
      { apply expand_list_no_fuel. intros c xs' Hc.
        apply (IHk (named d KName :: chain) CO'); [cbn [List.length]; lia| |].
        - cbn [ctx_ok]. exists m. split; [exact L|]. rewrite (macro_pastes_all _ _ (macro_lookup_in_name _ _ _ L)).
          intros p Hp. apply in_flat_map. exists c. split; assumption.
        - pose proof (body_height _ _ _ (macro_lookup_in_name _ _ _ L) Hc). unfold budget in *. lia. }
      destruct (expand_list f xs1 (d_children m)); try discriminate. contradiction.
  Qed.

  Theorem expansion_terminates f xs ds :
    (heights ds + 1 + budget (List.length ms) <= f)%nat -> expand_list f xs ds <> CFuel.
  Proof.
    intros HF. apply expand_list_no_fuel. intros c xs' Hc.
    apply (expand_no_fuel (List.length ms) []); [constructor; [constructor|intros x []|constructor|exact I]|reflexivity|exact I|].
    pose proof (heights_in _ _ Hc). lia.
  Qed.
End Term.

(* C10 / C01: the MACRO/PASTE phase never runs out of fuel - a macro that leads back to itself is
   refused by the check, and what the check accepts is expanded in bounded depth *)
Theorem macro_phase_terminates enum_check fuel roots roots' ms :
  collect_macro roots [] [] = COk (roots', ms) ->
  (heights roots' + 1 + List.length ms * S (Hb ms) <= fuel)%nat ->
  compile_macros enum_check fuel roots <> XFuel.
Proof.
  intros C HF. unfold compile_macros. rewrite C.
  destruct (check_recursion fuel ms) eqn:CHK; [discriminate|].
  assert (DEPTH : (Hb ms <= fuel)%nat).
  { destruct ms as [|x r]; [unfold Hb; cbn; lia|]. cbn [List.length] in HF. lia. }
  pose proof (expansion_terminates enum_check ms fuel CHK DEPTH fuel (mkX [] None []) roots') as T.
  unfold budget in T. specialize (T HF).
  destruct (expand_list enum_check ms fuel (mkX [] None []) roots') as [xs| | |]; try discriminate; [|contradiction].
  pose proof (build_rules_no_fuel enum_check roots' xs) as B.
  destruct (build_rules enum_check xs roots'); try discriminate. contradiction.
Qed.

Print Assumptions macro_phase_terminates.
