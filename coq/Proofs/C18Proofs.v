(* C18Proofs.v — for every schedule: goroutines serialising one catalog all obtain the
   sequential result; goroutines building different projects obtain what they obtain alone. *)
From JS Require Import Lazy Conc C16Proofs.
From JS Require Inventory.
From Coq Require Import List Bool Arith Lia String.
Import ListNotations.

(* ---------------- (a) ---------------- *)
Definition final (ds : list sdesc) (indent : bool) : result :=
  match fst (mspec 0 ds []) with
  | Some i => RErrAt i
  | None => RJson indent (snd (mspec 0 ds []))
  end.

Definition thread_ok (ds : list sdesc) (t : sthread) : Prop :=
  match t_done t with
  | Some r => r = final ds (t_indent t)
  | None => t_pos t <= List.length ds /\ mspec (t_pos t) (skipn (t_pos t) ds) (t_ex t) = mspec 0 ds []
  end.

Lemma marshal_one_ok d l :
  cell_ok d l ->
  let r := marshal_one current d l in
  cell_ok d (fst r) /\
  fst (fst (snd r)) = (match sd_kind d with KJsight => sd_fails d | _ => false end) /\
  snd (fst (snd r)) = (match sd_kind d with KRegex => Some 0 | _ => None end).
Proof.
  unfold cell_ok, marshal_one. destruct (sd_kind d) eqn:K.
  - intros [Hc|[[Hc Hf]|[Hc Hf]]]; rewrite Hc.
    + destruct (sd_fails d) eqn:F; cbn; repeat split; auto.
    + rewrite Hf. cbn. repeat split; auto.
    + rewrite Hf. cbn. repeat split; auto.
  - intros [[Hc Hn]|[Hc Hn]]; rewrite Hc, ?Hn; cbn; repeat split; auto.
  - intros _. cbn. repeat split; auto.
Qed.

Lemma inv_set_nth ds : forall st n d l',
  Inv ds st -> nth_error ds n = Some d -> cell_ok d l' -> Inv ds (set_nth n l' st).
Proof.
  unfold Inv. induction ds as [|d0 ds IH]; intros st n d l' H Hd Hc; inversion H as [|? l ? st0 H0 Hr]; subst.
  - destruct n; discriminate.
  - destruct n as [|n]; cbn [set_nth nth_error] in *.
    + injection Hd as ->. constructor; assumption.
    + constructor; [exact H0|]. eapply IH; eassumption.
Qed.

Lemma inv_nth ds : forall st n d l, Inv ds st -> nth_error ds n = Some d -> nth_error st n = Some l -> cell_ok d l.
Proof.
  unfold Inv. induction ds as [|d0 ds IH]; intros st n d l H Hd Hl; inversion H as [|? l0 ? st0 H0 Hr]; subst.
  - destruct n; discriminate.
  - destruct n as [|n]; cbn [nth_error] in *.
    + injection Hd as ->. injection Hl as ->. exact H0.
    + eapply IH; eassumption.
Qed.

Lemma inv_length ds st : Inv ds st -> List.length st = List.length ds.
Proof. unfold Inv. intros H. induction H; cbn; [reflexivity|]. f_equal. assumption. Qed.

Lemma skipn_nth {A} (l : list A) : forall n x, nth_error l n = Some x -> skipn n l = x :: skipn (S n) l.
Proof.
  induction l as [|y r IH]; intros [|n] x H; cbn in *; try discriminate.
  - injection H as ->. reflexivity.
  - apply IH. exact H.
Qed.

Lemma tstep_ok ds st t :
  Inv ds st -> thread_ok ds t ->
  Inv ds (fst (tstep ds st t)) /\ thread_ok ds (snd (tstep ds st t)).
Proof.
  intros HI HT. unfold tstep. unfold thread_ok in HT.
  destruct (t_done t) eqn:Dn; [cbn [fst snd]; split; [exact HI|unfold thread_ok; rewrite Dn; exact HT]|].
  destruct HT as [Hle Hm].
  destruct (nth_error ds (t_pos t)) as [d|] eqn:Nd.
  - assert (Hlt : t_pos t < List.length ds) by (apply nth_error_Some; congruence).
    destruct (nth_error st (t_pos t)) as [l|] eqn:Nl.
    2:{ exfalso. apply nth_error_None in Nl. rewrite (inv_length _ _ HI) in Nl. lia. }
    pose proof (inv_nth _ _ _ _ _ HI Nd Nl) as Hc.
    pose proof (marshal_one_ok d l Hc) as M. cbv zeta in M.
    destruct (marshal_one current d l) as [l' [[err draw] null]] eqn:E. cbn [fst snd] in M.
    destruct M as [Hc' [He Hdr]].
    rewrite (skipn_nth _ _ _ Nd) in Hm. cbn [mspec] in Hm.
    destruct err.
    + cbn [fst snd]. split; [eapply inv_set_nth; eassumption|].
      unfold thread_ok. cbn [t_done t_indent]. unfold final.
      destruct (sd_kind d); try discriminate. rewrite <- He in Hm. rewrite <- Hm. reflexivity.
    + cbn [fst snd]. split; [eapply inv_set_nth; eassumption|].
      unfold thread_ok. cbn [t_done t_pos t_ex]. split; [lia|].
      destruct (sd_kind d); subst draw.
      * rewrite <- He in Hm. exact Hm.
      * exact Hm.
      * exact Hm.
  - apply nth_error_None in Nd. assert (t_pos t = List.length ds) by lia.
    assert (Hs : skipn (t_pos t) ds = []) by (apply skipn_all2; lia).
    rewrite Hs in Hm. cbn [mspec] in Hm.
    destruct (nth_error st (t_pos t)); cbn [fst snd]; (split; [exact HI|]);
      unfold thread_ok; cbn [t_done t_indent]; unfold final; rewrite <- Hm; reflexivity.
Qed.

Lemma forall_set_nth {A} (P : A -> Prop) (l : list A) : forall n x, Forall P l -> P x -> Forall P (set_nth n x l).
Proof.
  induction l as [|y r IH]; intros n x H Hx; [destruct n; cbn [set_nth]; constructor|].
  inversion H; subst. destruct n; cbn [set_nth]; constructor; auto.
Qed.

Lemma forall_nth {A} (P : A -> Prop) (l : list A) n x : Forall P l -> nth_error l n = Some x -> P x.
Proof. intros H E. rewrite Forall_forall in H. apply H. eapply nth_error_In. exact E. Qed.

Theorem every_schedule_keeps_the_sequential_results ds sched : forall st ts,
  Inv ds st -> Forall (thread_ok ds) ts ->
  Inv ds (fst (sched_run ds (st, ts) sched)) /\ Forall (thread_ok ds) (snd (sched_run ds (st, ts) sched)).
Proof.
  unfold sched_run. induction sched as [|i sched IH]; intros st ts HI HT; cbn [fold_left].
  - split; assumption.
  - assert (S : Inv ds (fst (sched_step ds (st, ts) i)) /\ Forall (thread_ok ds) (snd (sched_step ds (st, ts) i))).
    { unfold sched_step. destruct (nth_error ts i) as [t|] eqn:N; [|split; assumption].
      pose proof (forall_nth _ _ _ _ HT N) as Ht.
      destruct (tstep_ok ds st t HI Ht) as [HI' Ht'].
      destruct (tstep ds st t) as [st' t']. cbn [fst snd] in *.
      split; [exact HI'|apply forall_set_nth; assumption]. }
    destruct (sched_step ds (st, ts) i) as [st1 ts1]. cbn [fst snd] in S. destruct S as [S1 S2].
    apply IH; assumption.
Qed.

(* N goroutines start serialising a freshly built catalog; whatever the schedule, every
   goroutine that has finished holds exactly what a single caller gets *)
Theorem concurrent_serialisers_get_the_sequential_result ds indents sched i t :
  let cfg := sched_run ds (fresh ds, List.map new_thread indents) sched in
  nth_error (snd cfg) i = Some t -> forall r, t_done t = Some r ->
  r = snd (call current ds (fresh ds) (if t_indent t then AJI else AJ)).
Proof.
  intros cfg N r D.
  assert (HT : Forall (thread_ok ds) (List.map new_thread indents)).
  { apply Forall_forall. intros x Hx. apply in_map_iff in Hx as [b [<- _]].
    unfold thread_ok, new_thread. cbn. split; [lia|reflexivity]. }
  destruct (every_schedule_keeps_the_sequential_results ds sched _ _ (fresh_inv ds) HT) as [_ F].
  pose proof (forall_nth _ _ _ _ F N) as Ht. unfold thread_ok in Ht. rewrite D in Ht. subst r.
  destruct (call_spec ds (fresh ds) (if t_indent t then AJI else AJ) (fresh_inv ds)) as [S _].
  rewrite S. unfold final, spec. destruct (t_indent t); reflexivity.
Qed.

(* progress: a goroutine that is scheduled often enough does finish *)
Lemma tstep_progress ds st t :
  Inv ds st -> t_done t = None -> t_pos t <= List.length ds ->
  let t' := snd (tstep ds st t) in
  t_done t' <> None \/ (t_done t' = None /\ t_pos t' = S (t_pos t) /\ t_pos t' <= List.length ds).
Proof.
  intros HI D Hle. unfold tstep. rewrite D.
  destruct (nth_error ds (t_pos t)) as [d|] eqn:Nd.
  - assert (Hlt : t_pos t < List.length ds) by (apply nth_error_Some; congruence).
    destruct (nth_error st (t_pos t)) as [l|] eqn:Nl.
    + destruct (marshal_one current d l) as [l' [[err draw] null]]. destruct err; cbn [snd t_done t_pos].
      * left. discriminate.
      * right. repeat split; lia.
    + cbn [snd t_done]. left. discriminate.
  - destruct (nth_error st (t_pos t)); cbn [snd t_done]; left; discriminate.
Qed.

(* ---------------- (b) ---------------- *)
Section BuildersProofs.
  Variable Table Priv Op : Type.
  Variable the_table : Table.
  Variable bstep : Table -> Priv -> Op -> Priv.
  Notation solo := (solo Table Priv Op the_table bstep).
  Notation bsched_run := (bsched_run Table Priv Op the_table bstep).
  Notation bsched_step := (bsched_step Table Priv Op the_table bstep).

  Definition cell_inv (c : option Table) : Prop := c = None \/ c = Some the_table.

  Lemma map_set_nth {A B} (f : A -> B) (l : list A) : forall n x y,
    nth_error l n = Some y -> f x = f y -> List.map f (set_nth n x l) = List.map f l.
  Proof.
    induction l as [|z r IH]; intros [|n] x y H E; cbn in *; try discriminate.
    - injection H as ->. rewrite E. reflexivity.
    - f_equal. eapply IH; eassumption.
  Qed.

  Lemma bstep_keeps cell bs i :
    cell_inv cell ->
    cell_inv (fst (bsched_step (cell, bs) i)) /\
    List.map solo (snd (bsched_step (cell, bs) i)) = List.map solo bs.
  Proof.
    intros HC. unfold Conc.bsched_step. destruct (nth_error bs i) as [b|] eqn:N; [|split; [exact HC|reflexivity]].
    destruct (b_todo Priv Op b) as [|o rest] eqn:T; [split; [exact HC|reflexivity]|].
    assert (U : use_table Table the_table cell = (Some the_table, the_table)).
    { destruct HC as [->| ->]; reflexivity. }
    rewrite U. cbn [fst snd]. split; [right; reflexivity|].
    eapply map_set_nth; [exact N|]. unfold Conc.solo. cbn [b_priv b_todo]. rewrite T. reflexivity.
  Qed.

  (* whatever the schedule, every builder still computes what it computes alone *)
  Theorem builders_do_not_interfere sched : forall cell bs,
    cell_inv cell ->
    cell_inv (fst (bsched_run (cell, bs) sched)) /\
    List.map solo (snd (bsched_run (cell, bs) sched)) = List.map solo bs.
  Proof.
    unfold Conc.bsched_run. induction sched as [|i sched IH]; intros cell bs HC; cbn [fold_left].
    - split; [exact HC|reflexivity].
    - destruct (bstep_keeps cell bs i HC) as [HC' M].
      destruct (Conc.bsched_step Table Priv Op the_table bstep (cell, bs) i) as [cell' bs'] eqn:E. cbn [fst snd] in *.
      destruct (IH cell' bs' HC') as [HC'' M']. split; [exact HC''|]. rewrite M'. exact M.
  Qed.

  (* a builder that has finished holds the result of its solo run *)
  Corollary finished_builder_has_its_solo_result sched bs i b0 b :
    nth_error bs i = Some b0 ->
    nth_error (snd (bsched_run (None, bs) sched)) i = Some b ->
    b_todo Priv Op b = [] -> b_priv Priv Op b = solo b0.
  Proof.
    intros N0 N T.
    destruct (builders_do_not_interfere sched None bs (or_introl eq_refl)) as [_ M].
    assert (E : nth_error (List.map solo (snd (bsched_run (None, bs) sched))) i = nth_error (List.map solo bs) i) by (rewrite M; reflexivity).
    rewrite !nth_error_map, N, N0 in E. cbn in E. injection E as E. rewrite <- E.
    unfold Conc.solo. rewrite T. reflexivity.
  Qed.
End BuildersProofs.

(* ---------------- shared state of the code, from the regenerated inventory ---------------- *)
Open Scope string_scope.
Definition write_once_row (r : string * string * string * string) : bool :=
  match r with
  | (k, _, _, d) =>
      (* "<where> <name> : <type>": every write to a package-level variable happens inside a sync.Once's Do *)
      negb (String.eqb k "pkgvar-write") || String.prefix "inside-Once.Do " d
  end.
Definition no_goroutine_row (r : string * string * string * string) : bool :=
  match r with (k, _, _, _) => negb (String.eqb k "go") end.

(* the package-level variables of the library: reviewed list, by package and TYPE (a renamed variable
   is the same variable; one more variable of a type already listed is one too many) *)
Definition shared_vars_reviewed : list (string * string) := [
  ("catalog", "*regexp.Regexp");         (* annotationReplacer: safe for concurrent use *)
  ("catalog", "sync.Mutex");             (* exampleMu: lock around the dependency's example builder *)
  ("directive", "map[directive.Enumeration]map[directive.Enumeration]struct{}");  (* context table, never written *)
  ("directive", "map[string]directive.Enumeration"); ("directive", "sync.Once");  (* keyword index, written inside its Once *)
  ("directive", "[]string");             (* keyword strings, never written *)
  ("kit", "sync.Mutex");                 (* openAPIMarshalMu: lock around the dependency's OpenAPI marshalling *)
  ("scanner", "bytes.Bytes"); ("scanner", "bytes.Bytes"); ("scanner", "bytes.Bytes");   (* anyType, emptyType, regexType: never written *)
  ("scanner", "scanner.emptyIncludeTracer");
  ("scanner", "map[scanner.LexemeEventType]string"); ("scanner", "map[scanner.LexemeType]string")   (* name tables, never written *)
].

(* the type of a "name : type" row *)
Fixpoint after_colon (fuel : nat) (d : string) : string :=
  match fuel with
  | O => d
  | S f =>
      if String.prefix " : " d then String.substring 3 (String.length d - 3) d
      else match d with
           | String _ r => after_colon f r
           | EmptyString => EmptyString
           end
  end.
Definition var_type (d : string) : string := after_colon (String.length d) d.

Definition pair_eqb (a b : string * string) : bool := String.eqb (fst a) (fst b) && String.eqb (snd a) (snd b).
Fixpoint remove_pair (k : string * string) (l : list (string * string)) : option (list (string * string)) :=
  match l with
  | [] => None
  | x :: r => if pair_eqb k x then Some r else match remove_pair k r with Some r' => Some (x :: r') | None => None end
  end.
Fixpoint pairs_sub_multiset (cur reviewed : list (string * string)) : bool :=
  match cur with
  | [] => true
  | k :: r => match remove_pair k reviewed with Some rest => pairs_sub_multiset r rest | None => false end
  end.

Definition pkgvars_now : list (string * string) :=
  flat_map (fun r => match r with (k, p, _, d) => if String.eqb k "pkgvar" then [(p, var_type d)] else [] end) Inventory.inventory.

Definition shared_state_check : bool :=
  forallb write_once_row Inventory.inventory && forallb no_goroutine_row Inventory.inventory &&
  pairs_sub_multiset pkgvars_now shared_vars_reviewed.

Lemma shared_state_check_ok : shared_state_check = true.
Proof. vm_compute. reflexivity. Qed.
