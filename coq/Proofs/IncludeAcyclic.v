(* IncludeAcyclic.v — C14: "include cycles are errors", as an invariant of EVERY state a run of
   scanProject passes through (any file system, any oracle, any include tree, any number of steps):
   the files suspended on the scanner stack are pairwise distinct and all ids are valid - so a
   cycle is never open: the INCLUDE that would close it is refused by the recursion check (which
   include_stack_distinct shows to be exactly what keeps the invariant).  The steps are the three
   equations of IncludeRoundTrip (a lexeme through JApiCore.next, an accepted INCLUDE, the end of an
   included file). *)
From JS Require Import Base Bytes Scanner Directive Core C14Proofs IncludeRoundTrip.
From JS Require ScannerProg IncludeName.
From Coq Require Import Lia.
Open Scope Z_scope.

Section Run.
  Variable fs : fsmap.
  Variable olen : bytes -> okind -> Z -> olen_res.
  Notation P := ScannerProg.prog_table.
  Notation NLc := ScannerProg.is_newline_cond.
  Notation WSc := ScannerProg.is_whitespace_cond.
  Notation I0 := ScannerProg.initial_state.
  Notation pinc := (process_include P NLc WSc fs olen I0).

  Inductive run_step : cstate -> cstate -> Prop :=
  | rs_lexeme : forall st cf l st1, core_next (set_conf st cf) l = COk st1 -> run_step st st1
  | rs_include : forall st cf kw stI x, pinc (set_conf st cf) kw = (COk stI, x) -> run_step st stI
  | rs_end_of_file : forall st cf stE it rest,
      process_eof (set_conf st cf) = COk stE -> cs_stack stE = it :: rest -> run_step st (resume stE it rest).

  Inductive reachable (root_name root_content : bytes) : cstate -> Prop :=
  | reach_init : reachable root_name root_content (initial_cstate I0 root_name root_content)
  | reach_step : forall st st', reachable root_name root_content st -> run_step st st' ->
                                reachable root_name root_content st'.

  Definition stack_ok (st : cstate) : Prop := valid_ids st /\ NoDup (stack_names st).

  Lemma stack_ok_same st st' :
    cs_file st' = cs_file st -> cs_stack st' = cs_stack st -> cs_files st' = cs_files st ->
    stack_ok st -> stack_ok st'.
  Proof.
    intros F S L [[V1 V2] ND]. unfold stack_ok, valid_ids, stack_names, file_name in *.
    rewrite F, S, L. repeat split; assumption.
  Qed.

  Lemma run_step_keeps st st' : run_step st st' -> stack_ok st -> stack_ok st'.
  Proof.
    intros H OK. destruct H as [st cf l st1 Hn|st cf kw stI x Hi|st cf stE it rest He Hs].
    - destruct (core_next_frame _ _ _ Hn) as [F [S [L _]]]. cbn in F, S, L.
      eapply stack_ok_same; eassumption.
    - assert (OK' : stack_ok (set_conf st cf)) by (eapply stack_ok_same; [reflexivity|reflexivity|reflexivity|exact OK]).
      destruct OK' as [V ND]. destruct (include_stack_distinct fs olen _ _ _ _ V ND Hi) as [ND' V'].
      split; assumption.
    - apply process_eof_is_process_current in He.
      destruct (process_current_frame _ _ He) as [[F [S [L _]]] _]. cbn in F, S, L.
      assert (OKE : stack_ok stE) by (eapply stack_ok_same; eassumption).
      destruct OKE as [[V1 V2] ND]. unfold stack_ok, valid_ids, stack_names, file_name, resume in *.
      cbn [cs_file cs_stack cs_files]. rewrite Hs in V2, ND. cbn [List.map] in ND.
      inversion V2 as [|? ? Vit Vrest]; subst. inversion ND as [|? ? _ NDrest]; subst.
      repeat split; assumption.
  Qed.

  Theorem suspended_files_are_always_distinct :
    forall root_name root_content st, reachable root_name root_content st -> stack_ok st.
  Proof.
    intros rn rc st H. induction H as [|st st' _ IH Hs].
    - unfold stack_ok, valid_ids, stack_names, initial_cstate. cbn. repeat split; [lia|constructor|constructor].
    - eapply run_step_keeps; eassumption.
  Qed.

  (* a file that is suspended is never entered again before it is resumed: the INCLUDE that would
     do so is refused (this is the recursion check, read off the invariant) *)
  Corollary no_file_is_suspended_twice :
    forall root_name root_content st it1 it2 before between after,
      reachable root_name root_content st ->
      cs_stack st = before ++ it1 :: between ++ it2 :: after ->
      file_name st (si_file it1) <> file_name st (si_file it2).
  Proof.
    intros rn rc st it1 it2 before between after H Hs.
    destruct (suspended_files_are_always_distinct _ _ _ H) as [_ ND].
    unfold stack_names in ND. rewrite Hs in ND. rewrite map_app in ND. cbn [List.map] in ND.
    apply NoDup_remove_2 in ND. intros E. apply ND. apply in_or_app. right.
    rewrite map_app. apply in_or_app. right. cbn [List.map]. left. symmetry. exact E.
  Qed.
End Run.
