From JS Require Import Base Bytes Scanner ScanRun.
From JS Require ScannerProg.
From Coq Require Import Lia.
Open Scope Z_scope.

(* StackSafe.v — the scanner never pops an empty return-state stack, for every input.
   A depth lower bound L(st) per state is INFERRED from the regenerated program by iteration
   (not trusted), CHECKED by a reflective checker (chk: symbolic execution of every step function
   over all its paths, tracking the stack depth relative to the entry depth and what is known
   about s.step), and the checker is proved sound against the interpreter. *)

(* symbolic knowledge about s.step inside a step function *)
Inductive symstep :=
| SEntry                 (* unchanged since the function was entered by dispatch *)
| SKnown (st : state)    (* set by s.step = st *)
| SPopped (dp : Z).      (* popped from the stack when the depth (relative to entry) became dp *)

Record actx := mkCtx { a_delta : Z; a_cs : symstep }.

Section Chk.
  Variable prog : list (string * stmt).
  Variable L : state -> Z.           (* lower bound of the stack depth whenever s.step = st between steps *)
  Variable entry : state.            (* the state whose step function was dispatched *)

  Definition Lz (st : state) : Z := L st.

  (* L(current step) <= depth, for every entry depth >= L entry *)
  Definition step_fits (c : actx) : bool :=
    match a_cs c with
    | SEntry => 0 <=? a_delta c
    | SKnown t => Lz t <=? Lz entry + a_delta c
    | SPopped dp => dp <=? a_delta c
    end.

  Fixpoint chk (fuel : nat) (s : stmt) (c : actx) (k : actx -> bool) {struct fuel} : bool :=
    match fuel with
    | O => false
    | S fuel' =>
        match s with
        | SSkip => k c
        | SSeq a b => chk fuel' a c (fun c' => chk fuel' b c' k)
        | SIf _ t e => chk fuel' t c k && chk fuel' e c k
        | SSetStep st => k (mkCtx (a_delta c) (SKnown st))
        | SPush st => (Lz st <=? Lz entry + a_delta c) && k (mkCtx (a_delta c + 1) (a_cs c))
        | SPushCur => step_fits c && k (mkCtx (a_delta c + 1) (a_cs c))
        | SPop => (1 <=? Lz entry + a_delta c) && k (mkCtx (a_delta c - 1) (SPopped (a_delta c - 1)))
        | SFound _ _ | SAddCur _ | SOracle _ => k c
        | SRetNil | SRetRedispatch => step_fits c
        | SRetErr _ _ | SRetErrBasic _ => true
        | SRetCall st =>
            match nth_error prog (N.to_nat st) with
            | Some (_, body) => chk fuel' body c (fun _ => false)
            | None => false
            end
        end
    end.
End Chk.

Definition chk_state (prog : list (string * stmt)) (L : state -> Z) (st : state) : bool :=
  match nth_error prog (N.to_nat st) with
  | Some (_, body) => chk prog L st 200 body (mkCtx 0 SEntry) (fun _ => false)
  | None => false
  end.

(* inference of L: collect (target, depth) facts *)
Section Infer.
  Variable prog : list (string * stmt).
  Variable L : list Z.
  Definition Lf (st : state) : Z := nth (N.to_nat st) L 1000.

  Fixpoint facts (fuel : nat) (entry : state) (s : stmt) (c : actx) (k : actx -> list (state * Z)) : list (state * Z) :=
    match fuel with
    | O => []
    | S fuel' =>
        match s with
        | SSkip => k c
        | SSeq a b => facts fuel' entry a c (fun c' => facts fuel' entry b c' k)
        | SIf _ t e => facts fuel' entry t c k ++ facts fuel' entry e c k
        | SSetStep st => k (mkCtx (a_delta c) (SKnown st))
        | SPush st => (st, Lf entry + a_delta c) :: k (mkCtx (a_delta c + 1) (a_cs c))
        | SPushCur =>
            match a_cs c with
            | SKnown t => (t, Lf entry + a_delta c) :: k (mkCtx (a_delta c + 1) (a_cs c))
            | _ => k (mkCtx (a_delta c + 1) (a_cs c))
            end
        | SPop => k (mkCtx (a_delta c - 1) (SPopped (a_delta c - 1)))
        | SFound _ _ | SAddCur _ | SOracle _ => k c
        | SRetNil | SRetRedispatch =>
            match a_cs c with SKnown t => [(t, Lf entry + a_delta c)] | _ => [] end
        | SRetErr _ _ | SRetErrBasic _ => []
        | SRetCall st =>
            match nth_error prog (N.to_nat st) with
            | Some (_, body) => facts fuel' entry body c (fun _ => [])
            | None => []
            end
        end
    end.
End Infer.

Fixpoint set_min (l : list Z) (i : nat) (v : Z) : list Z :=
  match l, i with
  | [], _ => []
  | x :: r, O => Z.min x v :: r
  | x :: r, S i' => x :: set_min r i' v
  end.

Definition infer_round (prog : list (string * stmt)) (L : list Z) : list Z :=
  fold_left (fun acc p =>
    let '(i, (_, body)) := p in
    let st := N.of_nat i in
    if 1000 <=? nth i acc 1000 then acc     (* not reached yet *)
    else fold_left (fun a f => set_min a (N.to_nat (fst f)) (snd f))
                   (facts prog acc 200 st body (mkCtx 0 SEntry) (fun _ => [])) acc)
    (combine (seq 0 (List.length prog)) prog) L.

Fixpoint iterate (n : nat) (prog : list (string * stmt)) (L : list Z) : list Z :=
  match n with O => L | S n' => iterate n' prog (infer_round prog L) end.

Definition L0 (prog : list (string * stmt)) (init : state) : list Z :=
  set_min (List.map (fun _ => 1000) prog) (N.to_nat init) 0.

Definition inferred : list Z :=
  Eval vm_compute in iterate 40 ScannerProg.prog_table (L0 ScannerProg.prog_table ScannerProg.initial_state).
Definition inferredL (st : state) : Z := nth (N.to_nat st) inferred 1000.

Definition all_ok : bool :=
  forallb (fun i => chk_state ScannerProg.prog_table inferredL (N.of_nat i)) (seq 0 (List.length ScannerProg.prog_table)).


Lemma all_ok_ok : all_ok = true.
Proof. vm_compute. reflexivity. Qed.

(* ------------------------------------------------------------------------------------ *)
Section Sound.
  Variable prog : list (string * stmt).
  Variable nl_cond ws_cond : cond.
  Variable data : bytes.
  Variable olen : okind -> Z -> olen_res.
  Variable L : state -> Z.
  Hypothesis OK : forall st name body, nth_error prog (N.to_nat st) = Some (name, body) -> chk_state prog L st = true.

  Definition depth (cf : conf) : Z := Z.of_nat (List.length (c_sstack cf)).
  Fixpoint stack_ok (ss : list state) : Prop :=
    match ss with
    | [] => True
    | r :: rest => L r <= Z.of_nat (List.length rest) /\ stack_ok rest
    end.
  Definition Inv (cf : conf) : Prop := L (c_step cf) <= depth cf /\ stack_ok (c_sstack cf).

  Section Body.
    Variable entry : state.
    Variable D0 : Z.
    Hypothesis HD0 : L entry <= D0.

    Definition R (cf : conf) (c : actx) : Prop :=
      depth cf = D0 + a_delta c /\ stack_ok (c_sstack cf) /\
      match a_cs c with
      | SEntry => c_step cf = entry
      | SKnown t => c_step cf = t
      | SPopped dp => L (c_step cf) <= D0 + dp
      end.

    Lemma fits_inv cf c : R cf c -> step_fits L entry c = true -> Inv cf.
    Proof.
      intros [Hd [Hs Hc]] F. unfold Inv. split; [|exact Hs]. unfold step_fits, Lz in F. rewrite Hd.
      destruct (a_cs c) as [|t|dp].
      - apply Z.leb_le in F. rewrite Hc. lia.
      - apply Z.leb_le in F. rewrite Hc. lia.
      - apply Z.leb_le in F. lia.
    Qed.

    Notation exec := (exec nl_cond ws_cond data olen).

    Lemma same_stack_R cf cf' c : c_step cf' = c_step cf -> c_sstack cf' = c_sstack cf -> R cf c -> R cf' c.
    Proof. unfold R, depth. intros -> ->. auto. Qed.

    Lemma chk_sound fuel : forall s c k ch cf, chk prog L entry fuel s c k = true -> R cf c ->
      match exec ch s cf with
      | FFall cf' => exists c', R cf' c' /\ k c' = true
      | FRet KNil cf' | FRet KRedispatch cf' => Inv cf'
      | FRet (KCall st) cf' =>
          exists name body f c', nth_error prog (N.to_nat st) = Some (name, body) /\
                                 chk prog L entry f body c' (fun _ => false) = true /\ R cf' c'
      | FPanic PStepStackEmpty => False
      | _ => True
      end.
    Proof.
      induction fuel as [|fuel IH]; intros s c k ch cf C HR; [discriminate|].
      destruct s; cbn [chk] in C; cbn [Scanner.exec].
      - (* SSetStep *) exists (mkCtx (a_delta c) (SKnown st)). split; [|exact C].
        destruct HR as [Hd [Hs _]]. repeat split; assumption.
      - (* SPush *) apply andb_prop in C as [C1 C2]. apply Z.leb_le in C1. unfold Lz in C1.
        eexists. split; [|exact C2]. destruct HR as [Hd [Hs Hc]]. unfold R, depth in *. cbn [c_sstack set_sstack a_delta a_cs c_step List.length].
        repeat split.
        + rewrite Nat2Z.inj_succ. lia.
        + lia.
        + exact Hs.
        + exact Hc.
      - (* SPushCur *) apply andb_prop in C as [C1 C2].
        pose proof (fits_inv cf c HR C1) as [I1 _].
        eexists. split; [|exact C2]. destruct HR as [Hd [Hs Hc]]. unfold R, depth in *. cbn [c_sstack set_sstack a_delta a_cs c_step List.length].
        repeat split.
        + rewrite Nat2Z.inj_succ. lia.
        + exact I1.
        + exact Hs.
        + exact Hc.
      - (* SPop *) apply andb_prop in C as [C1 C2]. apply Z.leb_le in C1. unfold Lz in C1.
        destruct HR as [Hd [Hs Hc]]. unfold depth in Hd.
        destruct (c_sstack cf) as [|r rest] eqn:E.
        + cbn [List.length] in Hd. lia.
        + eexists. split; [|exact C2]. cbn [stack_ok] in Hs. destruct Hs as [Hr Hrest].
          unfold R, depth. cbn [c_sstack set_sstack set_step a_delta a_cs c_step].
          cbn [List.length] in Hd. rewrite Nat2Z.inj_succ in Hd. repeat split; [lia|exact Hrest|lia].
      - (* SFound *) exists c. split; [|exact C]. eapply same_stack_R; [| |exact HR]; reflexivity.
      - (* SAddCur *) exists c. split; [|exact C]. eapply same_stack_R; [| |exact HR]; reflexivity.
      - (* SIf *) apply andb_prop in C as [C1 C2].
        destruct (eval_cond _ _ _ _ _ _); [|exact I]. destruct b; [eapply IH; eassumption|eapply IH; eassumption].
      - (* SSeq *) pose proof (IH s1 c _ ch cf C HR) as A.
        destruct (Scanner.exec nl_cond ws_cond data olen ch s1 cf) as [cf1|kk cf1|e|p] eqn:E1; try exact A.
        destruct A as [c1 [R1 K1]]. eapply IH; eassumption.
      - (* SSkip *) exists c. split; assumption.
      - (* SOracle *) destruct (olen k0 (c_cur cf)); [|exact I].
        exists c. split; [|exact C]. destruct (0 <? n); [eapply same_stack_R; [| |exact HR]; reflexivity|exact HR].
      - (* SRetNil *) eapply fits_inv; eassumption.
      - exact I.
      - exact I.
      - (* SRetCall *) destruct (nth_error prog (N.to_nat st)) as [[name body]|] eqn:E; [|discriminate].
        exists name, body, fuel, c. split; [reflexivity|split; [exact C|exact HR]].
      - (* SRetRedispatch *) eapply fits_inv; eassumption.
    Qed.
  End Body.

  Notation run_step := (run_step prog nl_cond ws_cond data olen).

  Definition fine {A} (r : res A) (P : A -> Prop) : Prop :=
    match r with
    | ROk a => P a
    | RPanic PStepStackEmpty => False
    | _ => True
    end.

  (* mode B: a step function body entered in the middle of an analysed path (by dispatch with a
     fresh context, or by a direct call with the caller's context) *)
  Definition modeB (fuel : nat) : Prop :=
    forall st ch cf entry D0 c f name body,
      L entry <= D0 -> nth_error prog (N.to_nat st) = Some (name, body) ->
      chk prog L entry f body c (fun _ => false) = true -> R entry D0 cf c ->
      fine (run_step fuel st ch cf) Inv.

  (* mode A: dispatch on s.step between steps *)
  Lemma modeA_from_B fuel : modeB fuel -> forall ch cf, Inv cf -> fine (run_step fuel (c_step cf) ch cf) Inv.
  Proof.
    intros B ch cf [I1 I2].
    destruct (nth_error prog (N.to_nat (c_step cf))) as [[name body]|] eqn:E.
    - pose proof (OK _ _ _ E) as C. unfold chk_state in C. rewrite E in C.
      eapply (B (c_step cf) ch cf (c_step cf) (depth cf) (mkCtx 0 SEntry)); [exact I1|exact E|exact C|].
      unfold R. cbn [a_delta a_cs]. repeat split; [lia|exact I2].
    - destruct fuel; cbn [Scanner.run_step]; [exact I|]. unfold body_of. rewrite E. exact I.
  Qed.

  Lemma modeB_all fuel : modeB fuel.
  Proof.
    induction fuel as [|fuel IH]; intros st ch cf entry D0 c f name body HD E C HR; cbn [Scanner.run_step]; [exact I|].
    unfold body_of. rewrite E. cbn [option_map snd].
    pose proof (chk_sound entry D0 HD f body c _ ch cf C HR) as A.
    destruct (Scanner.exec nl_cond ws_cond data olen ch body cf) as [cf1|kk cf1|e|p].
    - exact I.
    - destruct kk as [|st'|].
      + exact A.
      + destruct A as [name' [body' [f' [c' [E' [C' R']]]]]]. eapply IH; eassumption.
      + apply modeA_from_B; [exact IH|exact A].
    - exact I.
    - destruct p; try exact I. exact A.
  Qed.

  Theorem run_step_fine fuel ch cf : Inv cf -> fine (run_step fuel (c_step cf) ch cf) Inv.
  Proof. apply modeA_from_B. apply modeB_all. Qed.
End Sound.

Section Lift.
  Variable prog : list (string * stmt).
  Variable nl_cond ws_cond : cond.
  Variable data : bytes.
  Variable olen : okind -> Z -> olen_res.
  Variable L : state -> Z.
  Hypothesis OK : forall st name body, nth_error prog (N.to_nat st) = Some (name, body) -> chk_state prog L st = true.

  Notation Inv := (Inv L).
  Notation next_loop := (next_loop prog nl_cond ws_cond data olen).
  Notation next := (next prog nl_cond ws_cond data olen).

  Lemma inv_same cf cf' : c_step cf' = c_step cf -> c_sstack cf' = c_sstack cf -> Inv cf -> Inv cf'.
  Proof. unfold StackSafe.Inv, depth. intros -> ->. auto. Qed.

  Lemma process_event_fine cf ev : Inv cf -> fine (process_event cf ev) (fun r => Inv (snd r)).
  Proof.
    intros H. unfold Scanner.process_event. destruct ev as [t pos].
    destruct (LexemeEvents.ev_IsBeginning t).
    { cbn [fine snd]. eapply inv_same; [| |exact H]; reflexivity. }
    destruct (LexemeEvents.ev_IsEnding t).
    - destruct (c_estack cf) as [|[bt bpos] es]; [exact I|].
      destruct (pair_ok bt t); [|exact I].
      destruct (LexemeEvents.ev_ToLexemeType t); [|exact I].
      cbn [fine snd]. eapply inv_same; [| |exact H]; reflexivity.
    - destruct (LexemeEvents.ev_IsSingle t); [|exact I].
      destruct (LexemeEvents.ev_ToLexemeType t); [|exact I]. cbn [fine snd]. exact H.
  Qed.

  Lemma note_lexeme_fine cf l : Inv cf -> Inv (note_lexeme cf l).
  Proof. intros H. unfold note_lexeme. destruct (lk l); exact H. Qed.

  Lemma drain_fine k : forall cf, Inv cf -> fine (drain k cf) (fun r => Inv (snd r)).
  Proof.
    induction k as [|k IH]; intros cf H; cbn [Scanner.drain]; [exact H|].
    destruct (c_finds cf) as [|ev fs]; [exact I|].
    assert (H' : Inv (set_finds cf fs)) by (eapply inv_same; [| |exact H]; reflexivity).
    pose proof (process_event_fine (set_finds cf fs) ev H') as P.
    destruct (Scanner.process_event (set_finds cf fs) ev) as [[[l|] cf']| |p|]; cbn [fine snd] in *; try exact I.
    - apply note_lexeme_fine. exact P.
    - apply IH. exact P.
    - exact P.
  Qed.

  Lemma next_loop_fine fuel : forall cf, Inv cf -> fine (next_loop fuel cf) (fun r => Inv (snd r)).
  Proof.
    induction fuel as [|fuel IH]; intros cf H; cbn [Scanner.next_loop]; [exact I|].
    destruct (data_size data <? c_cur cf); [exact H|].
    destruct (c_cur cf <? 0); [exact I|].
    match goal with |- fine (if ?b then _ else _) _ => destruct b end; [exact I|].
    match goal with |- context [Scanner.run_step ?p ?a ?b ?d ?o ?f ?st ?c ?cf0] =>
      pose proof (run_step_fine p a b d o L OK f c cf0 H) as R0; destruct (Scanner.run_step p a b d o f st c cf0) as [cf1| |p0|] end;
      cbn [fine] in *; try exact I; [|exact R0].
    assert (H2 : Inv (set_cur cf1 (c_cur cf1 + 1))) by (eapply inv_same; [| |exact R0]; reflexivity).
    pose proof (drain_fine (List.length (c_finds (set_cur cf1 (c_cur cf1 + 1)))) _ H2) as D.
    destruct (Scanner.drain _ _) as [[[l|] cf3]| |p0|]; cbn [fine snd] in *; try exact I; try exact D.
    apply IH. exact D.
  Qed.

  Theorem next_fine cf : Inv cf -> fine (next cf) (fun r => Inv (snd r)).
  Proof.
    intros H. unfold Scanner.next. destruct (c_finds cf) as [|ev fs]; [apply next_loop_fine; exact H|].
    assert (H' : Inv (set_finds cf fs)) by (eapply inv_same; [| |exact H]; reflexivity).
    pose proof (process_event_fine (set_finds cf fs) ev H') as P.
    destruct (Scanner.process_event (set_finds cf fs) ev) as [[[l|] cf']| |p|]; cbn [fine snd] in *; try exact I; try exact P.
    apply next_loop_fine. exact P.
  Qed.
End Lift.

Lemma inferred_ok : forall st name body,
  nth_error ScannerProg.prog_table (N.to_nat st) = Some (name, body) -> chk_state ScannerProg.prog_table inferredL st = true.
Proof.
  intros st name body E.
  pose proof all_ok_ok as A. unfold all_ok in A. rewrite forallb_forall in A.
  assert (Hlt : (N.to_nat st < List.length ScannerProg.prog_table)%nat) by (apply nth_error_Some; congruence).
  specialize (A (N.to_nat st)). rewrite N2Nat.id in A. apply A. apply in_seq. lia.
Qed.

(* the regenerated program, any input, any oracle table, any number of Next() calls *)
Theorem scanner_never_pops_an_empty_stack data tbl fuel :
  let '(_, e, _) := lex_traj data tbl fuel (init_conf ScannerProg.initial_state) in
  e <> EndPanic PStepStackEmpty.
Proof.
  assert (G : forall fuel cf, Inv inferredL cf ->
              let '(_, e, _) := lex_traj data tbl fuel cf in e <> EndPanic PStepStackEmpty).
  { clear fuel. induction fuel as [|fuel IH]; intros cf H; cbn [lex_traj]; [discriminate|].
    pose proof (next_fine ScannerProg.prog_table ScannerProg.is_newline_cond ScannerProg.is_whitespace_cond data
                          (olen_of_table tbl) inferredL inferred_ok cf H) as N.
    unfold the_next.
    destruct (next ScannerProg.prog_table ScannerProg.is_newline_cond ScannerProg.is_whitespace_cond data (olen_of_table tbl) cf)
      as [[[l|] cf']| |p|]; cbn [fine snd] in N.
    - specialize (IH cf' N). destruct (lex_traj data tbl fuel cf') as [[ls e] tr]. exact IH.
    - discriminate.
    - discriminate.
    - destruct p; try contradiction; discriminate.
    - discriminate. }
  apply G. split; [vm_compute; discriminate|exact I].
Qed.
