(* C07Proofs.v — error locations: line/column arithmetic, and the refutations on the current
   tree (end-of-file errors, tracer cache). *)
From JS Require Import Base Bytes Scanner Directive Core Expand Entry.
From JS Require ScannerProg.
From Coq Require Import Lia.
Open Scope Z_scope.

(* number of occurrences of nl, and the length of the part after the last one *)
Fixpoint count_nl (nl : N) (s : bytes) : Z :=
  match s with
  | [] => 0
  | c :: r => (if N.eqb c nl then 1 else 0) + count_nl nl r
  end.

Fixpoint after_last_nl (nl : N) (s : bytes) (acc : Z) : Z :=
  match s with
  | [] => acc
  | c :: r => if N.eqb c nl then after_last_nl nl r 0 else after_last_nl nl r (acc + 1)
  end.

Lemma count_lines_spec nl s : forall l c,
  count_lines nl s l c = (l + count_nl nl s, after_last_nl nl s c).
Proof.
  induction s as [|x r IH]; intros l c; cbn [count_lines count_nl after_last_nl].
  - f_equal; lia.
  - destruct (N.eqb x nl); rewrite IH; f_equal; lia.
Qed.

(* for an index inside the file: line = 1 + terminators before it, column = 1 + bytes since
   the last terminator, where "terminator" is the file's newline symbol *)
Theorem line_and_column_spec :
  forall content i,
    0 <= i < Z.of_nat (List.length content) ->
    line_and_column content i =
    (1 + count_nl (newline_symbol content) (firstn (Z.to_nat i) content),
     1 + after_last_nl (newline_symbol content) (firstn (Z.to_nat i) content) 0).
Proof.
  intros content i [H0 H1]. unfold line_and_column.
  replace (Z.of_nat (List.length content) <=? i) with false by (symmetry; apply Z.leb_gt; lia).
  replace (i <? 0) with false by (symmetry; apply Z.ltb_ge; lia).
  cbn [orb]. rewrite count_lines_spec. f_equal; lia.
Qed.

(* the newline symbol of an LF-only / CR-only / CRLF file *)
Example newline_symbol_examples :
  newline_symbol (bytes_of_string "a
b") = 10%N /\
  newline_symbol [97; 13; 98]%N = 13%N /\ newline_symbol [97; 13; 10; 98]%N = 10%N /\
  newline_symbol [97; 98]%N = 10%N.
Proof. repeat split; reflexivity. Qed.

(* ------------------------------------------------------------------------------------ *)
(* FULL STATEMENT (false of the current code): every error has an index inside its file and
   the line/column of that index.  Refuted (finding F11): errors raised at the end of a file
   carry index = file length and are rendered as line 0, column 0, empty quote. *)
Definition rn := bytes_of_string "root.jst".
Definition f11_doc : bytes := bytes_of_string "JSIGHT 0.3
URL /a
(
".

Definition err_loc (r : tree_result) : option rloc :=
  match r with TScanErr e _ => Some (re_loc e) | _ => None end.

Theorem eof_error_location_refuted :
  match err_loc (tree_case [(rn, FFile f11_doc)] rn [] [] 1000) with
  | Some l => (rl_index l =? Z.of_nat (List.length f11_doc)) && (rl_line l =? 0) && (rl_col l =? 0)
  | None => false
  end = true.
Proof. vm_compute. reflexivity. Qed.

(* FULL STATEMENT (false of the current code): the trace names the INCLUDE that was followed.
   Refuted (finding F13): the directive tracer is cached by the includer's file name, so an
   error reached through the SECOND include of a file is traced to the line of the first. *)
Definition f13_root : bytes := bytes_of_string "JSIGHT 0.3
INCLUDE a.jst
INCLUDE b.jst
".
Definition f13_a : bytes := bytes_of_string "TYPE @a any
".
Definition f13_b : bytes := bytes_of_string "TYPE @b any
Body any
".

Definition err_trace_lines (r : tree_result) : list Z :=
  match r with TScanErr e _ => List.map rl_line (re_trace e) | _ => [] end.

Theorem tracer_cache_refuted :
  err_trace_lines (tree_case [(rn, FFile f13_root); (bytes_of_string "a.jst", FFile f13_a);
                              (bytes_of_string "b.jst", FFile f13_b)] rn [] [] 1000) = [2].
Proof. vm_compute. reflexivity. Qed.
