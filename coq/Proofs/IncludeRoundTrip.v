(* IncludeRoundTrip.v — C09: what survives the switch into an included file AND back, for
   include trees of any depth.  A run of the directive layer between two points is "balanced" when
   every file it enters it also leaves (lexemes handled by JApiCore.next, INCLUDEs entered by
   processInclude and left at the end of the included file).  For every balanced run, every
   scanner program, file system and oracle:
     - the file being scanned, the stack of suspended scanners and the files opened so far are
       the same at the end as at the beginning (the files only grow);
     - after INCLUDE ... end-of-file the includer resumes in its own file with exactly the scanner
       configuration it had right after the INCLUDE parameter, on the same stack, and the only
       thing the end of the included file did to the directive layer is to finalise the pending
       directive — which the next keyword would have done anyway (finalising early is harmless).
   The three equations at the end tie the relation to scan_project. *)
From JS Require Import Base Bytes Scanner Directive Core.
Open Scope Z_scope.

Section RT.
  Variable prog : list (string * stmt).
  Variable nl ws : cond.
  Variable fs : fsmap.
  Variable olen : bytes -> okind -> Z -> olen_res.
  Variable init_st : state.

  Notation pinc := (process_include prog nl ws fs olen init_st).
  Notation snext := (scan_next prog nl ws olen).
  Notation sproj := (scan_project prog nl ws fs olen init_st).

  Definition resume (stE : cstate) (it : sitem) (rest : list sitem) : cstate :=
    mkCState (cs_forest stE) (cs_ctx stE) (cs_cur stE) (si_file it) (si_conf it) rest
             (cs_tracers stE) (cs_files stE) (cs_log stE).

  (* the part of the state that belongs to the file switch machinery *)
  Definition frame_kept (a b : cstate) : Prop :=
    cs_file b = cs_file a /\ cs_stack b = cs_stack a /\ cs_files b = cs_files a /\ cs_conf b = cs_conf a.

  Lemma frame_refl a : frame_kept a a.
  Proof. repeat split. Qed.

  Lemma frame_trans a b c : frame_kept a b -> frame_kept b c -> frame_kept a c.
  Proof. intros [A1 [A2 [A3 A4]]] [B1 [B2 [B3 B4]]]. repeat split; congruence. Qed.

  Lemma process_current_frame st st1 :
    process_current st = COk st1 -> frame_kept st st1 /\ cs_cur st1 = None.
  Proof.
    unfold process_current. destruct (cs_cur st) as [d|] eqn:Ec.
    - destruct (attach _ _ _ d) as [[f ctx]|e|p|]; try discriminate.
      intros H. injection H as <-. cbn. repeat split.
    - intros H. injection H as <-. split; [apply frame_refl|exact Ec].
  Qed.

  Lemma directive_tracer_frame st tr st2 :
    directive_tracer st = (tr, st2) -> frame_kept st st2 /\ cs_cur st2 = cs_cur st.
  Proof.
    unfold directive_tracer. destruct (cs_stack st) as [|top rest] eqn:Es.
    - intros H. injection H as _ <-. split; [apply frame_refl|reflexivity].
    - destruct (List.find _ (cs_tracers st)) as [[k t]|].
      + intros H. injection H as _ <-. split; [apply frame_refl|reflexivity].
      + intros H. injection H as _ <-. cbn. repeat split. symmetry. exact Es.
  Qed.

  Lemma core_next_frame st l st1 : core_next st l = COk st1 -> frame_kept st st1.
  Proof.
    unfold core_next.
    destruct (orphan_lexeme st l) as [r|] eqn:Eo.
    { unfold orphan_lexeme in Eo. destruct (cs_cur st); [discriminate|].
      destruct (lk l); try discriminate; try (injection Eo as <-; discriminate).
      destruct (lex_value st l); injection Eo as <-; discriminate. }
    destruct (lk l).
    - (* keyword *)
      unfold process_keyword. destruct (process_current st) as [s1|e|p|] eqn:Ep; try discriminate.
      destruct (process_current_frame _ _ Ep) as [F1 _].
      destruct (lex_value s1 l) as [kw|]; [|discriminate].
      destruct (negb _ && beq kw jsight_kw)%bool; [discriminate|].
      destruct (new_directive_type kw) as [k|]; [|discriminate].
      destruct (directive_tracer s1) as [tr s2] eqn:Et.
      destruct (directive_tracer_frame _ _ _ Et) as [F2 _].
      intros H. injection H as <-. eapply frame_trans; [exact F1|]. eapply frame_trans; [exact F2|].
      cbn. repeat split.
    - unfold process_parameter. destruct (cs_cur st) as [d|]; [|discriminate].
      destruct (lex_value st l) as [v|]; [|discriminate].
      destruct (append_parameter d v) as [d'|m]; [|discriminate].
      intros H. injection H as <-. cbn. repeat split.
    - unfold process_annotation. destruct (cs_cur st) as [d|]; [|discriminate].
      destruct (lex_value st l) as [v|]; [|discriminate].
      intros H. injection H as <-. cbn. repeat split.
    - unfold process_body. destruct (cs_cur st) as [d|]; [|discriminate].
      intros H. injection H as <-. cbn. repeat split.
    - unfold process_body. destruct (cs_cur st) as [d|]; [|discriminate].
      intros H. injection H as <-. cbn. repeat split.
    - unfold process_body. destruct (cs_cur st) as [d|]; [|discriminate].
      intros H. injection H as <-. cbn. repeat split.
    - unfold process_context_begin. destruct (cs_cur st) as [d|]; [|discriminate].
      intros H. injection H as <-. cbn. repeat split.
    - unfold process_context_end. destruct (process_current st) as [s1|e|p|] eqn:Ep; try discriminate.
      destruct (process_current_frame _ _ Ep) as [F1 _].
      destruct (close_explicit _ _ _) as [ctx|]; [|discriminate].
      intros H. injection H as <-. eapply frame_trans; [exact F1|]. cbn. repeat split.
    - unfold process_body. destruct (cs_cur st) as [d|]; [|discriminate].
      intros H. injection H as <-. cbn. repeat split.
  Qed.

  Lemma process_eof_is_process_current st stE :
    process_eof st = COk stE -> process_current st = COk stE.
  Proof.
    unfold process_eof. destruct (process_current st) as [s1|e|p|]; try discriminate.
    destruct (has_unclosed _ _ _); [discriminate|]. intros H. exact H.
  Qed.

  (* what a successful processInclude does, precisely *)
  Lemma process_include_spec st kw stI x :
    pinc st kw = (COk stI, x) ->
    exists pl cf content p,
      snext st = ROk (Some pl, cf) /\
      cs_forest stI = cs_forest st /\ cs_ctx stI = cs_ctx st /\ cs_cur stI = cs_cur st /\
      cs_tracers stI = cs_tracers st /\
      cs_stack stI = mkSItem (cs_file st) cf (lb kw) :: cs_stack st /\
      cs_files stI = cs_files st ++ [(p, content)] /\
      cs_file stI = N.of_nat (List.length (cs_files st)) /\
      cs_conf stI = init_conf init_st.
  Proof.
    unfold process_include. intros H.
    destruct (snext st) as [[ol cf]|e0|p0|] eqn:Hscan; try discriminate.
    destruct ol as [pl|]; [|discriminate].
    destruct (lk pl); try discriminate.
    destruct (lex_value (set_conf st cf) pl) as [raw|]; [|discriminate].
    destruct (beq (unquote raw) []); [discriminate|].
    destruct (validate_include IncludeName.include_checks (unquote raw)) as [[m|]|]; try discriminate.
    cbn zeta in H.
    match type of H with context [stat_path fs ?p] => destruct (stat_path fs p) as [content| | |] eqn:Es end;
      try discriminate.
    match type of H with (if ?c then _ else _) = _ => destruct c end; [discriminate|].
    injection H as <- _. exists pl, cf, content. eexists. cbn. repeat split; reflexivity.
  Qed.

  (* a run that leaves every file it enters *)
  Inductive balanced : cstate -> cstate -> Prop :=
  | bal_refl : forall st, balanced st st
  | bal_lex : forall st cf l st1 st',
      core_next (set_conf st cf) l = COk st1 -> balanced st1 st' -> balanced st st'
  | bal_incl : forall st cf kw stI x stK cfK stE it rest st',
      pinc (set_conf st cf) kw = (COk stI, x) ->
      balanced stI stK ->
      process_eof (set_conf stK cfK) = COk stE ->
      cs_stack stE = it :: rest ->
      balanced (resume stE it rest) st' ->
      balanced st st'.

  (* the file, the stack of suspended scanners: unchanged; the files opened so far: only grown *)
  Definition switch_kept (a b : cstate) : Prop :=
    cs_file b = cs_file a /\ cs_stack b = cs_stack a /\ exists more, cs_files b = cs_files a ++ more.

  Theorem balanced_run_keeps_the_switch_state :
    forall st st', balanced st st' -> switch_kept st st'.
  Proof.
    induction 1 as [st|st cf l st1 st' Hn _ IH|st cf kw stI x stK cfK stE it rest st' Hi _ IHk He Hs _ IHr].
    - repeat split. exists []. symmetry. apply app_nil_r.
    - destruct (core_next_frame _ _ _ Hn) as [F1 [F2 [F3 _]]]. cbn in F1, F2, F3.
      destruct IH as [I1 [I2 [more I3]]]. repeat split; try congruence. exists more. congruence.
    - destruct (process_include_spec _ _ _ _ Hi) as [pl [cf' [content [p [_ [_ [_ [_ [_ [Sk [Fl [_ _]]]]]]]]]]]].
      cbn in Sk, Fl.
      destruct IHk as [K1 [K2 [m1 K3]]].
      apply process_eof_is_process_current in He.
      destruct (process_current_frame _ _ He) as [[E1 [E2 [E3 _]]] _]. cbn in E1, E2, E3.
      destruct IHr as [R1 [R2 [m2 R3]]]. cbn in R1, R2, R3.
      assert (Hit : it = mkSItem (cs_file st) cf' (lb kw) /\ rest = cs_stack st).
      { rewrite E2, K2, Sk in Hs. injection Hs as <- <-. split; reflexivity. }
      destruct Hit as [-> ->]. cbn in R1.
      repeat split; try congruence.
      exists ([(p, content)] ++ m1 ++ m2). rewrite R3, E3, K3, Fl. rewrite <- !app_assoc. reflexivity.
  Qed.

  (* INCLUDE, the whole included file (with whatever it includes itself), its end: the includer
     resumes where it was suspended *)
  Theorem include_round_trip :
    forall st kw stI x stK cfK stE,
      pinc st kw = (COk stI, x) ->
      balanced stI stK ->
      process_eof (set_conf stK cfK) = COk stE ->
      exists pl cf,
        snext st = ROk (Some pl, cf) /\
        cs_stack stE = mkSItem (cs_file st) cf (lb kw) :: cs_stack st /\
        let r := resume stE (mkSItem (cs_file st) cf (lb kw)) (cs_stack st) in
        cs_file r = cs_file st /\ cs_conf r = cf /\ cs_stack r = cs_stack st /\
        (exists more, cs_files r = cs_files st ++ more) /\
        (* the end of the included file finalised the pending directive and did nothing else *)
        process_current (set_conf stK cfK) = COk stE /\ cs_cur r = None /\
        cs_forest r = cs_forest stE /\ cs_ctx r = cs_ctx stE.
  Proof.
    intros st kw stI x stK cfK stE Hi Hb He.
    destruct (process_include_spec _ _ _ _ Hi) as [pl [cf [content [p [Hs [_ [_ [_ [_ [Sk [Fl [_ _]]]]]]]]]]]].
    destruct (balanced_run_keeps_the_switch_state _ _ Hb) as [K1 [K2 [m1 K3]]].
    pose proof (process_eof_is_process_current _ _ He) as Hc.
    destruct (process_current_frame _ _ Hc) as [[E1 [E2 [E3 _]]] Ecur]. cbn in E1, E2, E3.
    exists pl, cf. split; [exact Hs|]. split; [congruence|].
    cbn. repeat split; auto.
    exists ([(p, content)] ++ m1). rewrite E3, K3, Fl. rewrite <- app_assoc. reflexivity.
  Qed.

  (* finalising the pending directive at the end of the included file is what the next keyword
     does first anyway: doing it early changes nothing for that keyword *)
  Theorem finalising_early_is_harmless :
    forall st st1 l, process_current st = COk st1 -> process_keyword st1 l = process_keyword st l.
  Proof.
    intros st st1 l H. destruct (process_current_frame _ _ H) as [_ Hc].
    unfold process_keyword at 1. unfold process_current at 1. rewrite Hc.
    unfold process_keyword at 1. rewrite H. reflexivity.
  Qed.

  (* the relation follows the loop of scanProject *)
  Theorem scan_project_lexeme :
    forall fuel st l cf st1,
      snext st = ROk (Some l, cf) -> is_include (set_conf st cf) l = false ->
      core_next (set_conf st cf) l = COk st1 ->
      sproj (S fuel) st = sproj fuel st1.
  Proof. intros fuel st l cf st1 Hs Hi Hn. cbn [scan_project]. rewrite Hs, Hi. unfold lift. rewrite Hn. reflexivity. Qed.

  Theorem scan_project_include :
    forall fuel st l cf stI x,
      snext st = ROk (Some l, cf) -> is_include (set_conf st cf) l = true ->
      pinc (set_conf st cf) l = (COk stI, x) ->
      sproj (S fuel) st = sproj fuel stI.
  Proof. intros fuel st l cf stI x Hs Hi Hp. cbn [scan_project]. rewrite Hs, Hi, Hp. reflexivity. Qed.

  Theorem scan_project_end_of_included_file :
    forall fuel st cf stE it rest,
      snext st = ROk (None, cf) -> process_eof (set_conf st cf) = COk stE -> cs_stack stE = it :: rest ->
      sproj (S fuel) st = sproj fuel (resume stE it rest).
  Proof. intros fuel st cf stE it rest Hs He Hk. cbn [scan_project]. rewrite Hs. unfold lift. rewrite He, Hk. reflexivity. Qed.
End RT.

(* ------------------------------------------------------------------------------------ *)
(* the three equations in one statement *)
Theorem scan_project_follows_balanced_runs :
  forall prog nl ws fs olen init_st fuel st,
    (forall l cf st1, scan_next prog nl ws olen st = ROk (Some l, cf) -> is_include (set_conf st cf) l = false ->
       core_next (set_conf st cf) l = COk st1 ->
       scan_project prog nl ws fs olen init_st (S fuel) st = scan_project prog nl ws fs olen init_st fuel st1) /\
    (forall l cf stI x, scan_next prog nl ws olen st = ROk (Some l, cf) -> is_include (set_conf st cf) l = true ->
       process_include prog nl ws fs olen init_st (set_conf st cf) l = (COk stI, x) ->
       scan_project prog nl ws fs olen init_st (S fuel) st = scan_project prog nl ws fs olen init_st fuel stI) /\
    (forall cf stE it rest, scan_next prog nl ws olen st = ROk (None, cf) -> process_eof (set_conf st cf) = COk stE ->
       cs_stack stE = it :: rest ->
       scan_project prog nl ws fs olen init_st (S fuel) st = scan_project prog nl ws fs olen init_st fuel (resume stE it rest)).
Proof.
  intros. split; [|split]; intros.
  - eapply scan_project_lexeme; eassumption.
  - eapply scan_project_include; eassumption.
  - eapply scan_project_end_of_included_file; eassumption.
Qed.

(* the hypotheses of include_round_trip are met by a real project *)
From JS Require ScannerProg.
Section Ex.
  Let P := ScannerProg.prog_table.
  Let NLc := ScannerProg.is_newline_cond.
  Let WSc := ScannerProg.is_whitespace_cond.
  Let I0 := ScannerProg.initial_state.
  Let ol : bytes -> okind -> Z -> olen_res := fun _ _ _ => OLen 0.
  Variable fs : fsmap.

  Fixpoint run_lex (n : nat) (st : cstate) : option cstate :=
    match n with
    | O => Some st
    | S n' =>
        match scan_next P NLc WSc ol st with
        | ROk (Some l, cf) =>
            match core_next (set_conf st cf) l with COk st1 => run_lex n' st1 | _ => None end
        | _ => None
        end
    end.

  Lemma run_lex_balanced n : forall st st', run_lex n st = Some st' -> balanced P NLc WSc fs ol I0 st st'.
  Proof.
    induction n as [|n IH]; intros st st' H; cbn [run_lex] in H.
    - injection H as <-. constructor.
    - destruct (scan_next P NLc WSc ol st) as [[[l|] cf]| | |]; try discriminate.
      destruct (core_next (set_conf st cf) l) as [st1| | |] eqn:E; try discriminate.
      eapply bal_lex; [exact E|]. apply IH. exact H.
  Qed.
End Ex.

Definition rt_root := bytes_of_string "root.jst".
Definition rt_root_text := bytes_of_string "JSIGHT 0.3
INCLUDE a.jst
TAG @z
".
Definition rt_fs : fsmap := [(rt_root, FFile rt_root_text); (bytes_of_string "a.jst", FFile (bytes_of_string "TAG @t // x
"))].

Example include_round_trip_nonvacuous :
  let P := ScannerProg.prog_table in let NLc := ScannerProg.is_newline_cond in
  let WSc := ScannerProg.is_whitespace_cond in let I0 := ScannerProg.initial_state in
  let ol : bytes -> okind -> Z -> olen_res := fun _ _ _ => OLen 0 in
  exists stA kw cf stI x stK cfK stE,
    run_lex 2 (initial_cstate I0 rt_root rt_root_text) = Some stA /\
    scan_next P NLc WSc ol stA = ROk (Some kw, cf) /\
    process_include P NLc WSc rt_fs ol I0 (set_conf stA cf) kw = (COk stI, x) /\
    run_lex 3 stI = Some stK /\
    scan_next P NLc WSc ol stK = ROk (None, cfK) /\
    process_eof (set_conf stK cfK) = COk stE /\
    List.length (cs_stack stE) = 1%nat /\ List.length (cs_forest stE) = 2%nat.
Proof.
  cbv zeta. do 8 eexists.
  split; [vm_compute; reflexivity|]. split; [vm_compute; reflexivity|]. split; [vm_compute; reflexivity|].
  split; [vm_compute; reflexivity|]. split; [vm_compute; reflexivity|]. split; [vm_compute; reflexivity|].
  split; vm_compute; reflexivity.
Qed.
