(* ErrInFile.v — every error of the scanner points into the file, for every input: the index of
   an unexpected-character / unexpected-end / NUL error is the position of the byte that was being
   scanned (0 <= index <= length; the end-of-file pseudo byte sits at index = length).  Checked
   on every path of every step function of the regenerated program: the cursor has not moved when
   an error is raised; the checker is proved sound, and the lexeme-event errors are excluded by
   the invariant of EventSafe.v.  (Errors of the schema-length oracle carry the oracle's offset.) *)
From JS Require Import Base Bytes Scanner ScanRun EventSafe.
From JS Require ScannerProg LexemeEvents.
From Coq Require Import Lia.
Open Scope Z_scope.

Section Chk.
  Variable prog : list (string * stmt).
  (* [moved]: the cursor may differ from where the step was entered *)
  Fixpoint echk (fuel : nat) (s : stmt) (moved : bool) (k : bool -> bool) {struct fuel} : bool :=
    match fuel with
    | O => false
    | S fuel' =>
        match s with
        | SSkip => k moved
        | SSeq a b => echk fuel' a moved (fun m => echk fuel' b m k)
        | SIf _ t e => echk fuel' t moved k && echk fuel' e moved k
        | SSetStep _ | SPush _ | SPushCur | SPop | SFound _ _ => k moved
        | SAddCur _ | SOracle _ => k true
        | SRetNil => true
        | SRetErr _ _ | SRetErrBasic _ | SRetRedispatch => negb moved
        | SRetCall st =>
            match nth_error prog (N.to_nat st) with
            | Some (_, body) => echk fuel' body moved (fun _ => false)
            | None => false
            end
        end
    end.
End Chk.

Definition echk_state (prog : list (string * stmt)) (st : state) : bool :=
  match nth_error prog (N.to_nat st) with
  | Some (_, body) => echk prog 200 body false (fun _ => false)
  | None => false
  end.

Definition eall_ok : bool :=
  forallb (fun i => echk_state ScannerProg.prog_table (N.of_nat i)) (seq 0 (List.length ScannerProg.prog_table)).
Lemma eall_ok_ok : eall_ok = true.
Proof. vm_compute. reflexivity. Qed.

Definition err_at (e : serr) (pos : Z) : Prop :=
  match e with
  | EUnexpected _ _ i _ => i = pos
  | EBasic _ i => i = pos
  | EOracle _ _ => True
  end.

Section Sound.
  Variable prog : list (string * stmt).
  Variable nl_cond ws_cond : cond.
  Variable data : bytes.
  Variable olen : okind -> Z -> olen_res.
  Hypothesis OK : forall st name body, nth_error prog (N.to_nat st) = Some (name, body) -> echk_state prog st = true.

  Section Body.
    Variable cur0 : Z.
    Definition R (cf : conf) (moved : bool) : Prop := moved = false -> c_cur cf = cur0.

    Notation exec := (exec nl_cond ws_cond data olen).

    Lemma echk_sound fuel : forall s m k ch cf, echk prog fuel s m k = true -> R cf m ->
      match exec ch s cf with
      | FFall cf' => exists m', R cf' m' /\ k m' = true
      | FErr e => err_at e cur0
      | FRet KRedispatch cf' => c_cur cf' = cur0
      | FRet (KCall st) cf' =>
          exists name body f m', nth_error prog (N.to_nat st) = Some (name, body) /\
                                 echk prog f body m' (fun _ => false) = true /\ R cf' m'
      | _ => True
      end.
    Proof.
      induction fuel as [|fuel IH]; intros s m k ch cf C HR; [discriminate|].
      destruct s; cbn [echk] in C; cbn [Scanner.exec].
      - exists m. split; [exact HR|exact C].
      - exists m. split; [exact HR|exact C].
      - exists m. split; [exact HR|exact C].
      - destruct (c_sstack cf); [exact I|]. exists m. split; [exact HR|exact C].
      - exists m. split; [exact HR|exact C].
      - exists true. split; [intros X; discriminate X|exact C].
      - apply andb_prop in C as [C1 C2].
        destruct (eval_cond _ _ _ _ _ _); [|exact I]. destruct b; eapply IH; eassumption.
      - pose proof (IH s1 m _ ch cf C HR) as A.
        destruct (Scanner.exec nl_cond ws_cond data olen ch s1 cf) as [cf1|kk cf1|e|p] eqn:E1; try exact A.
        destruct A as [m1 [R1 K1]]. eapply IH; eassumption.
      - exists m. split; [exact HR|exact C].
      - destruct (olen k0 (c_cur cf)); [|exact I]. exists true. split; [intros X; discriminate X|exact C].
      - exact I.
      - destruct m; [discriminate|]. cbn [mk_unexpected err_at]. apply HR. reflexivity.
      - destruct m; [discriminate|]. cbn [err_at]. apply HR. reflexivity.
      - destruct (nth_error prog (N.to_nat st)) as [[name body]|] eqn:E; [|discriminate].
        exists name, body, fuel, m. split; [reflexivity|split; [exact C|exact HR]].
      - destruct m; [discriminate|]. apply HR. reflexivity.
    Qed.
  End Body.

  Notation run_step := (run_step prog nl_cond ws_cond data olen).

  Lemma run_step_err fuel : forall cur0,
    (forall ch cf e, c_cur cf = cur0 -> run_step fuel (c_step cf) ch cf = RErr e -> err_at e cur0) /\
    (forall st ch cf m f name body e, nth_error prog (N.to_nat st) = Some (name, body) ->
        echk prog f body m (fun _ => false) = true -> R cur0 cf m ->
        run_step fuel st ch cf = RErr e -> err_at e cur0).
  Proof.
    induction fuel as [|fuel IH]; intros cur0.
    - split; intros; discriminate.
    - destruct (IH cur0) as [IA IB].
      assert (B : forall st ch cf m f name body e, nth_error prog (N.to_nat st) = Some (name, body) ->
                    echk prog f body m (fun _ => false) = true -> R cur0 cf m ->
                    run_step (S fuel) st ch cf = RErr e -> err_at e cur0).
      { intros st ch cf m f name body e E C HR H. cbn [Scanner.run_step] in H. unfold body_of in H. rewrite E in H. cbn [option_map snd] in H.
        pose proof (echk_sound cur0 f body m _ ch cf C HR) as A.
        destruct (Scanner.exec nl_cond ws_cond data olen ch body cf) as [cf1|kk cf1|e1|p]; try discriminate.
        - destruct kk as [|st'|]; try discriminate.
          + destruct A as [name' [body' [f' [m' [E' [C' R']]]]]]. eapply IB; eassumption.
          + eapply IA; [exact A|exact H].
        - injection H as <-. exact A. }
      split; [|exact B].
      intros ch cf e HC H.
      destruct (nth_error prog (N.to_nat (c_step cf))) as [[name body]|] eqn:E.
      + pose proof (OK _ _ _ E) as C. unfold echk_state in C. rewrite E in C.
        eapply B; [exact E|exact C| |exact H]. intros _. exact HC.
      + cbn [Scanner.run_step] in H. unfold body_of in H. rewrite E in H. discriminate.
  Qed.
End Sound.

Lemma einferred_ok : forall st name body,
  nth_error ScannerProg.prog_table (N.to_nat st) = Some (name, body) -> echk_state ScannerProg.prog_table st = true.
Proof.
  intros st name body E.
  pose proof eall_ok_ok as A. unfold eall_ok in A. rewrite forallb_forall in A.
  assert (Hlt : (N.to_nat st < List.length ScannerProg.prog_table)%nat) by (apply nth_error_Some; congruence).
  specialize (A (N.to_nat st)). rewrite N2Nat.id in A. apply A. apply in_seq. lia.
Qed.

(* ------------------------------------------------------------------------------------ *)
Definition in_file (data : bytes) (e : serr) : Prop :=
  match e with
  | EUnexpected _ _ i _ => 0 <= i <= data_size data
  | EBasic _ i => 0 <= i <= data_size data
  | EOracle _ _ => True
  end.

Section Lift.
  Variable data : bytes.
  Variable olen : okind -> Z -> olen_res.
  Notation prog := ScannerProg.prog_table.
  Notation nlc := ScannerProg.is_newline_cond.
  Notation wsc := ScannerProg.is_whitespace_cond.
  Notation Inv2 := (Inv2 data inferredSg).
  Notation next_loop := (next_loop prog nlc wsc data olen).
  Notation next := (next prog nlc wsc data olen).

  Lemma drain_no_err k : forall cf, Inv2 cf -> forall e, drain k cf <> RErr e.
  Proof.
    induction k as [|k IH]; intros cf H e; cbn [drain]; [discriminate|].
    destruct (c_finds cf) as [|ev fs] eqn:Ef; [discriminate|].
    destruct H as [x [He [Hs Hd]]].
    destruct (process_event_eff cf ev fs x Ef He) as [o [cf' [P [He' [S1 [S2 [S3 _]]]]]]].
    rewrite P. destruct o as [l|]; [discriminate|]. apply IH. exists x. rewrite S1, S2, S3. auto.
  Qed.

  Definition errs_in_file (r : res (option lexeme * conf)) : Prop :=
    match r with RErr e => in_file data e | _ => True end.

  Lemma at_pos e pos : err_at e pos -> 0 <= pos <= data_size data -> in_file data e.
  Proof. destruct e; cbn; intros H B; try subst; auto. Qed.

  Lemma next_loop_errs fuel : forall cf, Inv2 cf -> errs_in_file (next_loop fuel cf).
  Proof.
    induction fuel as [|fuel IH]; intros cf H; cbn [Scanner.next_loop]; [exact I|].
    destruct (data_size data <? c_cur cf) eqn:Fin; [exact I|].
    destruct (c_cur cf <? 0) eqn:Neg; [exact I|].
    apply Z.ltb_ge in Fin, Neg.
    assert (POS : 0 <= c_cur cf <= data_size data) by lia.
    assert (STEP : forall b, (b = 0%N -> data_size data <= c_cur cf) ->
              errs_in_file
                (match Scanner.run_step prog nlc wsc data olen step_fuel (c_step cf) b cf with
                 | ROk cf1 =>
                     match drain (List.length (c_finds (set_cur cf1 (c_cur cf1 + 1)))) (set_cur cf1 (c_cur cf1 + 1)) with
                     | ROk (None, cf3) => next_loop fuel cf3
                     | r => r
                     end
                 | RErr e => RErr e
                 | RPanic p => RPanic p
                 | RFuel => RFuel
                 end)).
    { intros b H0.
      destruct H as [x [He [Hs Hd]]].
      assert (St : Strict inferredSg cf).
      { exists x. split; [exact He|split; [exact Hs|]]. destruct Hd as [Hd|Hd]; [exact Hd|lia]. }
      pose proof (run_step_events prog nlc wsc data olen inferredSg EventSafe.inferred_ok step_fuel b cf St H0) as Rn.
      pose proof (proj1 (run_step_err prog nlc wsc data olen einferred_ok step_fuel (c_cur cf)) b cf) as RE.
      destruct (Scanner.run_step prog nlc wsc data olen step_fuel (c_step cf) b cf) as [cf1|e|p0|]; cbn [fineE errs_in_file] in *; try exact I.
      - destruct Rn as [e1 [He1 [Hs1 Hd1]]].
        assert (H2 : Inv2 (set_cur cf1 (c_cur cf1 + 1))).
        { exists e1. split; [exact He1|split; [exact Hs1|]]. cbn [c_step c_cur set_cur].
          destruct Hd1 as [Hd1|[Zb Hd1]]; [left; exact Hd1|right; lia]. }
        pose proof (drain_events data inferredSg (List.length (c_finds (set_cur cf1 (c_cur cf1 + 1)))) _ H2) as D.
        pose proof (drain_no_err (List.length (c_finds (set_cur cf1 (c_cur cf1 + 1)))) _ H2) as NE.
        destruct (drain _ _) as [[[l|] cf3]|e| |]; cbn [fineE snd errs_in_file] in *; try exact I.
        + apply IH. exact D.
        + exfalso. exact (NE e eq_refl).
      - eapply at_pos; [apply RE; reflexivity|exact POS]. }
    destruct (c_cur cf =? data_size data) eqn:AtEnd.
    - cbn [negb andb]. apply STEP. intros _. apply Z.eqb_eq in AtEnd. lia.
    - cbn [negb andb]. destruct (byte_at data (c_cur cf)) as [b|] eqn:Bt.
      + destruct (N.eqb b 0) eqn:Zb; [cbn [errs_in_file in_file]; exact POS|].
        apply STEP. intros ->. discriminate.
      + cbn [N.eqb]. cbn [errs_in_file in_file]. exact POS.
  Qed.

  Theorem next_errs cf : Inv2 cf -> errs_in_file (next cf).
  Proof.
    intros H. unfold Scanner.next. destruct (c_finds cf) as [|ev fs] eqn:Ef; [apply next_loop_errs; exact H|].
    destruct H as [x [He [Hs Hd]]].
    destruct (process_event_eff cf ev fs x Ef He) as [o [cf' [P [He' [S1 [S2 [S3 _]]]]]]].
    rewrite P. destruct o as [l|]; [exact I|]. apply next_loop_errs. exists x. rewrite S1, S2, S3. auto.
  Qed.
End Lift.

(* C07 / C12: for EVERY input and any number of Next() calls, an error of the scanner (other than
   one relayed from the schema-length oracle) carries an index inside the file *)
Theorem scanner_errors_point_into_the_file data tbl fuel :
  let '(_, e, _) := lex_traj data tbl fuel (init_conf ScannerProg.initial_state) in
  match e with EndErr err => in_file data err | _ => True end.
Proof.
  assert (G : forall fuel cf, Inv2 data inferredSg cf ->
              let '(_, e, _) := lex_traj data tbl fuel cf in match e with EndErr err => in_file data err | _ => True end).
  { clear fuel. induction fuel as [|fuel IH]; intros cf H; cbn [lex_traj]; [exact I|].
    pose proof (next_errs data (olen_of_table tbl) cf H) as NE.
    pose proof (next_events ScannerProg.prog_table ScannerProg.is_newline_cond ScannerProg.is_whitespace_cond data
                            (olen_of_table tbl) inferredSg EventSafe.inferred_ok cf H) as N.
    unfold the_next.
    destruct (next ScannerProg.prog_table ScannerProg.is_newline_cond ScannerProg.is_whitespace_cond data (olen_of_table tbl) cf)
      as [[[l|] cf']| |p|]; cbn [fineE snd errs_in_file] in *; try exact I.
    - specialize (IH cf' N). destruct (lex_traj data tbl fuel cf') as [[ls e] tr]. exact IH.
    - exact NE. }
  apply G. exists []. split; [reflexivity|split; [constructor|left; vm_compute; reflexivity]].
Qed.

Print Assumptions scanner_errors_point_into_the_file.
