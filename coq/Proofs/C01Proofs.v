(* C01Proofs.v — totality: the inventory of crash sites is the reviewed one; the directive
   layer never dereferences a missing current directive; INCLUDE-name validation is total;
   regression theorems for the crashes that were repaired in /repo. *)
From JS Require Import Base Bytes Scanner Directive Core Expand Entry.
From JS Require ScannerProg IncludeName Inventory InventoryExpected.
From Coq Require Import Lia.
Open Scope Z_scope.

Definition row_eqb (a b : string * string * string * string) : bool :=
  let '(a1, a2, a3, a4) := a in let '(b1, b2, b3, b4) := b in
  String.eqb a1 b1 && String.eqb a2 b2 && String.eqb a3 b3 && String.eqb a4 b4.

Fixpoint rows_eqb (a b : list (string * string * string * string)) : bool :=
  match a, b with
  | [], [] => true
  | x :: a', y :: b' => row_eqb x y && rows_eqb a' b'
  | _, _ => false
  end.

(* every site of the regenerated inventory is one of the reviewed ones, counted with multiplicity and
   compared by what the site IS (kind, package, asserted type / callee / variable; a map iteration by
   its function): sites may move inside their package, merge or disappear - a harmless refactoring -
   but none may appear *)
Definition key_eqb (a b : string * string * string) : bool :=
  let '(a1, a2, a3) := a in let '(b1, b2, b3) := b in String.eqb a1 b1 && String.eqb a2 b2 && String.eqb a3 b3.

Fixpoint remove_one (k : string * string * string) (l : list (string * string * string)) : option (list (string * string * string)) :=
  match l with
  | [] => None
  | x :: r => if key_eqb k x then Some r else match remove_one k r with Some r' => Some (x :: r') | None => None end
  end.

Fixpoint sub_multiset (cur reviewed : list (string * string * string)) : bool :=
  match cur with
  | [] => true
  | k :: r => match remove_one k reviewed with Some rest => sub_multiset r rest | None => false end
  end.

Definition inventory_check : bool := sub_multiset Inventory.inventory_keys InventoryExpected.expected_keys.

Lemma inventory_check_ok : inventory_check = true.
Proof. vm_compute. reflexivity. Qed.

Definition count_kind (k : string) : nat :=
  List.length (List.filter (fun r => match r with (a, _, _, _) => String.eqb a k end) Inventory.inventory).

(* ------------------------------------------------------------------------------------ *)
Section Core.
  Variable fs : fsmap.
  Variable olen : bytes -> okind -> Z -> olen_res.
  Notation cnext := (core_next).

  (* whatever lexeme arrives in whatever state, JApiCore.next never dereferences a missing
     current directive (the four unguarded uses of core.currentDirective are now guarded) *)
  Lemma attach_panic_is_other : forall fuel f ctx d p,
    attach fuel f ctx d = CPanic p -> p <> CPNilCurrentDirective.
  Proof.
    induction fuel as [|fuel IH]; intros f ctx d p H; cbn [attach] in H; [discriminate|].
    destruct ctx as [pth|].
    - destruct (node_at f pth) as [cur|]; [|injection H as <-; discriminate].
      destruct (is_allowed_in (d_kind cur) (d_kind d)).
      + match type of H with context [if ?b then _ else _] => destruct b end.
        * destruct (d_explicit cur); discriminate.
        * destruct (append_child f pth d); discriminate.
      + destruct (d_explicit cur); [discriminate|]. eapply IH; eauto.
    - destruct (is_allowed_for_root (d_kind d)); discriminate.
  Qed.

  Theorem core_next_never_nil_directive :
    forall st l, core_next st l <> CPanic CPNilCurrentDirective.
  Proof.
    intros st l. unfold core_next, orphan_lexeme.
    destruct (cs_cur st) as [d|] eqn:C; destruct (lk l) eqn:K;
      unfold process_keyword, process_parameter, process_annotation, process_body,
        process_context_begin, process_context_end, process_current; rewrite ?C;
      repeat (match goal with
              | |- context [match ?x with _ => _ end] => destruct x eqn:?
              | |- context [if ?x then _ else _] => destruct x eqn:?
              end); try discriminate;
      try (match goal with H : match ?x with _ => _ end = None |- _ => destruct x; discriminate end);
      try (match goal with
           | H : match attach ?a ?b ?c ?e with _ => _ end = _ |- _ =>
               destruct (attach a b c e) as [[? ?]| | |] eqn:A; try discriminate;
               try (injection H as <-); try (rewrite <- H); try discriminate;
               intros E; injection E as ->; exact (attach_panic_is_other _ _ _ _ _ A eq_refl)
           end);
      try (match goal with
           | H : match lex_value ?a ?b with _ => _ end = Some _ |- _ =>
               destruct (lex_value a b); injection H as <-; discriminate
           end).
  Qed.
End Core.

(* validateIncludeFileName never crashes on the regenerated check list: no check indexes the
   string *)
Fixpoint icond_total (c : IncludeName.icond) : bool :=
  match c with
  | IncludeName.IFirstByte _ => false
  | IncludeName.IOr a b | IncludeName.IAnd a b => icond_total a && icond_total b
  | _ => true
  end.

Lemma icond_total_sound c s : icond_total c = true -> eval_icond c s <> None.
Proof.
  induction c; cbn [icond_total eval_icond]; intros H; try discriminate.
  - apply andb_prop in H as [Ha Hb]. destruct (eval_icond c1 s) as [[|]|] eqn:E; try discriminate; auto.
  - apply andb_prop in H as [Ha Hb]. destruct (eval_icond c1 s) as [[|]|] eqn:E; try discriminate; auto.
Qed.

Definition checks_total : bool := forallb (fun p => icond_total (fst p)) IncludeName.include_checks.

Lemma checks_total_ok : checks_total = true.
Proof. vm_compute. reflexivity. Qed.

Theorem validate_include_total : forall s, validate_include IncludeName.include_checks s <> None.
Proof.
  intros s. pose proof checks_total_ok as K. unfold checks_total in K.
  induction IncludeName.include_checks as [|[c m] rest IH]; cbn [validate_include]; [discriminate|].
  cbn [forallb fst] in K. apply andb_prop in K as [Kc Kr].
  destruct (eval_icond c s) as [[|]|] eqn:E; try discriminate; auto.
  exfalso. exact (icond_total_sound c s Kc E).
Qed.

(* ------------------------------------------------------------------------------------ *)
(* regression theorems for crashes repaired in /repo (recorded in known_findings.json) *)
Definition rn := bytes_of_string "root.jst".

Definition not_panic (r : tree_result) : bool :=
  match r with
  | TScanPanic _ _ | TFuel => false
  | TScanned _ _ (T2Panic _) | TScanned _ _ T2Fuel => false
  | _ => true
  end.

Definition once_crashing : list (list (bytes * fsentry)) := [
  [(rn, FFile (bytes_of_string "("))];
  [(rn, FFile (bytes_of_string "JSIGHT 0.3
)
("))];
  [(rn, FFile (bytes_of_string "JSIGHT 0.3
INCLUDE f.jst extra
")); (bytes_of_string "f.jst", FFile (bytes_of_string "TYPE @a any
"))];
  [(rn, FFile (bytes_of_string "JSIGHT 0.3
INCLUDE """"
"))];
  [(rn, FFile (bytes_of_string "JSIGHT 0.3
GET /a /*/"))];
  [(rn, FFile (bytes_of_string "JSIGHT 0.3
MACRO @a
(
PASTE @b
)
MACRO @b
(
PASTE @a
)
PASTE @a
"))];
  [(rn, FFile (bytes_of_string "JSIGHT 0.3
URL /a
(
INCLUDE e.jst
)
")); (bytes_of_string "e.jst", FFile [])]
].

Theorem repaired_crashes_stay_repaired :
  forallb (fun fs => not_panic (tree_case fs rn [] [] 2000)) once_crashing = true.
Proof. vm_compute. reflexivity. Qed.
