(* ProjectSafe.v — C01: the scanner-safety theorems, which ScanTotal / StackSafe / EventSafe prove for
   one file, LIFTED TO WHOLE PROJECTS: whatever the file system, the oracle and the include tree,
   scanProject never ends in one of the scanner's impossible states - dispatch to a missing step
   function, a step function falling off its end, a pop of the empty return-state stack, a pop of the
   empty lexeme-event stack, a lexeme event without a lexeme type.
   The lifting is generic: any invariant of scanner configurations that holds initially and is kept
   by Next() holds, at every moment of the run, for the scanner of the current file AND for every
   suspended scanner (each relative to its own file's content, which never changes once opened). *)
From JS Require Import Base Bytes Scanner ScanRun Directive Core C14Proofs IncludeRoundTrip.
From JS Require ScannerProg IncludeName ScanTotal StackSafe EventSafe.
From Coq Require Import Lia.
Open Scope Z_scope.

Notation P := ScannerProg.prog_table.
Notation NLc := ScannerProg.is_newline_cond.
Notation WSc := ScannerProg.is_whitespace_cond.
Notation I0 := ScannerProg.initial_state.

Lemma attach_panic_is_not_the_scanners fuel : forall f ctx d p,
  attach fuel f ctx d = CPanic p -> forall q, p <> CPScanner q.
Proof.
  induction fuel as [|fuel IH]; intros f ctx d p Hp q; cbn [attach] in Hp; [discriminate|].
  destruct ctx as [pth|].
  - destruct (node_at f pth) as [cur|]; [|injection Hp as <-; discriminate].
    destruct (is_allowed_in (d_kind cur) (d_kind d)).
    + destruct (_ && _ && _)%bool; [destruct (d_explicit cur); discriminate|]. destruct (append_child _ _ _). discriminate.
    + destruct (d_explicit cur); [discriminate|]. exact (IH _ _ _ _ Hp q).
  - destruct (is_allowed_for_root (d_kind d)); discriminate.
Qed.

Lemma process_current_panic_is_not_the_scanners st p : process_current st = CPanic p -> forall q, p <> CPScanner q.
Proof.
  unfold process_current. intros H q. destruct (cs_cur st) as [d|]; [|discriminate].
  destruct (attach _ _ _ d) as [[f c]| |p0|] eqn:Ea; try discriminate.
  injection H as <-. exact (attach_panic_is_not_the_scanners _ _ _ _ _ Ea q).
Qed.

Lemma core_next_panic_is_not_the_scanners st l p : core_next st l = CPanic p -> forall q, p <> CPScanner q.
Proof.
  unfold core_next. intros H q.
  destruct (orphan_lexeme st l) as [r|] eqn:Eo.
  { unfold orphan_lexeme in Eo. destruct (cs_cur st); [discriminate|].
    destruct (lk l); try discriminate; try (injection Eo as <-; discriminate).
    destruct (lex_value st l); injection Eo as <-; [discriminate|]. injection H as <-. discriminate. }
  destruct (lk l).
  - unfold process_keyword in H. destruct (process_current st) as [s1| |p0|] eqn:Ep; try discriminate.
    + destruct (lex_value s1 l); [|injection H as <-; discriminate]. destruct (_ && _)%bool; [discriminate|].
      destruct (new_directive_type _); [|discriminate]. destruct (directive_tracer s1). discriminate.
    + injection H as <-. exact (process_current_panic_is_not_the_scanners _ _ Ep q).
  - unfold process_parameter in H. destruct (cs_cur st); [|injection H as <-; discriminate].
    destruct (lex_value st l); [|injection H as <-; discriminate]. destruct (append_parameter _ _); discriminate.
  - unfold process_annotation in H. destruct (cs_cur st); [|injection H as <-; discriminate].
    destruct (lex_value st l); [discriminate|]. injection H as <-. discriminate.
  - unfold process_body in H. destruct (cs_cur st); [discriminate|]. injection H as <-. discriminate.
  - unfold process_body in H. destruct (cs_cur st); [discriminate|]. injection H as <-. discriminate.
  - unfold process_body in H. destruct (cs_cur st); [discriminate|]. injection H as <-. discriminate.
  - unfold process_context_begin in H. destruct (cs_cur st); [discriminate|]. injection H as <-. discriminate.
  - unfold process_context_end in H. destruct (process_current st) as [s1| |p0|] eqn:Ep; try discriminate.
    + destruct (close_explicit _ _ _); discriminate.
    + injection H as <-. exact (process_current_panic_is_not_the_scanners _ _ Ep q).
  - unfold process_body in H. destruct (cs_cur st); [discriminate|]. injection H as <-. discriminate.
Qed.

Lemma process_eof_panic_is_not_the_scanners st p : process_eof st = CPanic p -> forall q, p <> CPScanner q.
Proof.
  unfold process_eof. intros H q. destruct (process_current st) as [s1| |p0|] eqn:Ep; try discriminate.
  - destruct (has_unclosed _ _ _); discriminate.
  - injection H as <-. exact (process_current_panic_is_not_the_scanners _ _ Ep q).
Qed.

Section Lift.
  Variable fs : fsmap.
  Variable olen : bytes -> okind -> Z -> olen_res.
  (* an invariant of the scanner configuration of a file with this content, and the panics it excludes *)
  Variable Iv : bytes -> conf -> Prop.
  Variable bad : panic -> Prop.
  Hypothesis Iv_init : forall data, Iv data (init_conf I0).
  Hypothesis Iv_next : forall data ol cf, Iv data cf ->
    match next P NLc WSc data ol cf with
    | ROk (_, cf') => Iv data cf'
    | RPanic p => ~ bad p
    | _ => True
    end.

  Notation pinc := (process_include P NLc WSc fs olen I0).
  Notation snext := (scan_next P NLc WSc olen).
  Notation sproj := (scan_project P NLc WSc fs olen I0).

  Definition all_scanners (st : cstate) : Prop :=
    Iv (file_content st (cs_file st)) (cs_conf st) /\
    Forall (fun it => Iv (file_content st (si_file it)) (si_conf it)) (cs_stack st) /\
    valid_ids st.

  Lemma snext_keeps st : all_scanners st ->
    match snext st with
    | ROk (_, cf) => all_scanners (set_conf st cf)
    | RPanic p => ~ bad p
    | _ => True
    end.
  Proof.
    intros [A [B C]]. unfold scan_next.
    pose proof (Iv_next (file_content st (cs_file st)) (olen (file_name st (cs_file st))) (cs_conf st) A) as N.
    destruct (next P NLc WSc _ _ (cs_conf st)) as [[ol cf]| |p|]; auto.
    split; [exact N|]. split; [exact B|exact C].
  Qed.

  Lemma all_same st st' :
    cs_file st' = cs_file st -> cs_stack st' = cs_stack st -> cs_files st' = cs_files st -> cs_conf st' = cs_conf st ->
    all_scanners st -> all_scanners st'.
  Proof.
    intros F S L Cf [A [B C]]. unfold all_scanners, file_content, valid_ids in *. rewrite F, S, L, Cf. auto.
  Qed.

  Lemma content_stable (files more : list (bytes * bytes)) id :
    (N.to_nat id < List.length files)%nat ->
    match nth_error (files ++ more) (N.to_nat id) with Some (_, c) => c | None => [] end =
    match nth_error files (N.to_nat id) with Some (_, c) => c | None => [] end.
  Proof. intros H. rewrite nth_error_app1 by exact H. reflexivity. Qed.

  Lemma include_keeps st kw stI x : all_scanners st -> pinc st kw = (COk stI, x) -> all_scanners stI.
  Proof.
    intros AS H. pose proof (snext_keeps st AS) as NK.
    destruct (process_include_spec _ _ _ _ _ _ _ _ _ _ H) as [pl [cf [content [pth [Hs [_ [_ [_ [_ [Sk [Fl [Fi Cf]]]]]]]]]]]].
    rewrite Hs in NK. destruct NK as [A [B [Vc Vs]]]. cbn [cs_conf cs_file cs_files cs_stack set_conf] in A, B, Vc, Vs.
    unfold all_scanners, file_content, valid_ids. rewrite Sk, Fl, Fi, Cf.
    assert (Hnew : nth_error (cs_files st ++ [(pth, content)]) (N.to_nat (N.of_nat (List.length (cs_files st)))) = Some (pth, content)).
    { rewrite Nat2N.id. rewrite nth_error_app2 by lia. rewrite Nat.sub_diag. reflexivity. }
    rewrite Forall_forall in Vs.
    split; [rewrite Hnew; apply Iv_init|]. split.
    - constructor.
      + cbn [si_file si_conf]. rewrite content_stable by exact Vc. exact A.
      + unfold file_content in B. rewrite Forall_forall in B |- *. intros it Hit.
        rewrite content_stable by (apply Vs; exact Hit). exact (B it Hit).
    - rewrite app_length. cbn [List.length]. split.
      + rewrite Nat2N.id. lia.
      + constructor; [cbn [si_file]; lia|]. rewrite Forall_forall. intros it Hit. specialize (Vs it Hit). lia.
  Qed.

  Lemma include_panic st kw p x : all_scanners st -> pinc st kw = (CPanic p, x) -> forall q, p = CPScanner q -> ~ bad q.
  Proof.
    intros AS H q E. pose proof (snext_keeps st AS) as NK. unfold process_include in H.
    destruct (snext st) as [[ol cf]|e0|p0|]; try discriminate.
    2:{ injection H as <- _. injection E as <-. exact NK. }
    destruct ol as [pl|]; [|discriminate].
    destruct (lk pl); try discriminate.
    destruct (lex_value (set_conf st cf) pl) as [raw|]; [|injection H as <- _; discriminate].
    destruct (beq (unquote raw) []); [discriminate|].
    destruct (validate_include IncludeName.include_checks (unquote raw)) as [[m|]|]; try discriminate.
    2:{ injection H as <- _. discriminate. }
    cbn zeta in H.
    match type of H with context [stat_path fs ?pp] => destruct (stat_path fs pp) end; try discriminate.
    match type of H with (if ?c then _ else _) = _ => destruct c end; discriminate.
  Qed.

  Theorem project_scanner_panics_are_not_bad :
    forall fuel st p stx, all_scanners st -> sproj fuel st = SPanic (CPScanner p) stx -> ~ bad p.
  Proof.
    induction fuel as [|fuel IH]; intros st p stx AS H; cbn [scan_project] in H; [discriminate|].
    pose proof (snext_keeps st AS) as NK.
    destruct (snext st) as [[[l|] cf]|e0|p0|] eqn:Es; try discriminate.
    - destruct (is_include (set_conf st cf) l).
      + destruct (pinc (set_conf st cf) l) as [[sI|e1|p1|] st2] eqn:Ei; try discriminate.
        * eapply IH; [|exact H]. eapply include_keeps; [exact NK|exact Ei].
        * injection H as -> _. eapply include_panic; [exact NK|exact Ei|reflexivity].
      + unfold lift in H. destruct (core_next (set_conf st cf) l) as [s1|e1|p1|] eqn:En; try discriminate.
        * destruct (core_next_frame _ _ _ En) as [F [S [L Cf]]].
          eapply IH; [|exact H]. exact (all_same _ _ F S L Cf NK).
        * injection H as -> _. exfalso. exact (core_next_panic_is_not_the_scanners _ _ _ En p eq_refl).
    - unfold lift in H. destruct (process_eof (set_conf st cf)) as [stE|e1|p1|] eqn:Ee; try discriminate.
      + destruct (cs_stack stE) as [|it rest] eqn:Ek; [discriminate|].
        eapply IH; [|exact H].
        pose proof (process_eof_is_process_current _ _ Ee) as Ec.
        destruct (process_current_frame _ _ Ec) as [[F [S [L Cf]]] _].
        pose proof (all_same _ _ F S L Cf NK) as [A [B [Vc Vs]]].
        rewrite Ek in B, Vs. unfold all_scanners, resume, file_content, valid_ids in *. cbn [cs_file cs_conf cs_stack cs_files].
        pose proof (Forall_inv B) as B1. pose proof (Forall_inv_tail B) as B2.
        pose proof (Forall_inv Vs) as V1. pose proof (Forall_inv_tail Vs) as V2.
        split; [exact B1|]. split; [exact B2|]. split; [exact V1|exact V2].
      + injection H as -> _. exfalso. exact (process_eof_panic_is_not_the_scanners _ _ Ee p eq_refl).
    - injection H as <- _. exact NK.
  Qed.

  Lemma initial_all rn rc : all_scanners (initial_cstate I0 rn rc).
  Proof.
    unfold all_scanners, initial_cstate, file_content, valid_ids. cbn [cs_conf cs_file cs_files cs_stack List.length N.to_nat nth_error].
    split; [apply Iv_init|]. split; [constructor|]. split; [lia|constructor].
  Qed.
End Lift.

(* the three instances *)
Theorem project_scan_never_reaches_an_impossible_scanner_state :
  forall fs olen root_name root_content fuel p stx,
    scan_project P NLc WSc fs olen I0 fuel (initial_cstate I0 root_name root_content) = SPanic (CPScanner p) stx ->
    p <> PNoState /\ p <> PFallthrough /\ p <> PStepStackEmpty /\ p <> PEventStackEmpty /\ p <> PLexemeType.
Proof.
  intros fs olen rn rc fuel p stx H.
  assert (A : ~ (p = PNoState \/ p = PFallthrough)).
  { eapply (project_scanner_panics_are_not_bad fs olen (fun _ cf => ScanTotal.conf_ok P cf) (fun q => q = PNoState \/ q = PFallthrough));
      [| |apply initial_all|exact H].
    - intros data. split; [vm_compute; reflexivity|constructor].
    - intros data ol cf Hc. pose proof (ScanTotal.next_ok P NLc WSc data ol ScanTotal.prog_wf_ok cf Hc) as N.
      destruct (next P NLc WSc data ol cf) as [[o cf']| |q|]; cbn [ScanTotal.good snd] in N; auto.
      intros [-> | ->]; exact N.
    - intros data. split; [vm_compute; reflexivity|constructor]. }
  assert (B : ~ (p = PStepStackEmpty)).
  { eapply (project_scanner_panics_are_not_bad fs olen (fun _ cf => StackSafe.Inv StackSafe.inferredL cf) (fun q => q = PStepStackEmpty));
      [| |apply initial_all|exact H].
    - intros data. split; [vm_compute; discriminate|exact I].
    - intros data ol cf Hc. pose proof (StackSafe.next_fine P NLc WSc data ol StackSafe.inferredL StackSafe.inferred_ok cf Hc) as N.
      destruct (next P NLc WSc data ol cf) as [[o cf']| |q|]; cbn [StackSafe.fine snd] in N; auto.
      intros ->. exact N.
    - intros data. split; [vm_compute; discriminate|exact I]. }
  assert (C : ~ (p = PEventStackEmpty \/ p = PLexemeType)).
  { eapply (project_scanner_panics_are_not_bad fs olen (fun data cf => EventSafe.Inv2 data EventSafe.inferredSg cf) (fun q => q = PEventStackEmpty \/ q = PLexemeType));
      [| |apply initial_all|exact H].
    - intros data. exists []. split; [reflexivity|split; [constructor|left; vm_compute; reflexivity]].
    - intros data ol cf Hc. pose proof (EventSafe.next_events P NLc WSc data ol EventSafe.inferredSg EventSafe.inferred_ok cf Hc) as N.
      destruct (next P NLc WSc data ol cf) as [[o cf']| |q|]; cbn [EventSafe.fineE snd] in N; auto.
      intros [-> | ->]; exact N.
    - intros data. exists []. split; [reflexivity|split; [constructor|left; vm_compute; reflexivity]]. }
  repeat split; intros E; subst p; tauto.
Qed.
